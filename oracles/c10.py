"""Replay oracles for C10: point scale factor and convergence vs differentiation of the exact projection."""
import mpmath as mp
from oracles import tm_exact as T
from oracles.c06 import _f
from oracles.c01 import build, cm_of

LATS = (-80.0, -37.5, -5.0, 0.0, 3.0, 45.0, 84.0)
DLS = (-30.0, -20.0, -8.0, -2.5, -3e-7, 0.0, 3e-7, 2.9, 12.0, 29.5)


def env(a):
    import geodepy.constants as gc
    from geodepy.convert import geo2grid, grid2geo
    e, case = a.get('env', {}), a['case']
    ell, prj = build(e, case)
    isg = prj is gc.isg
    o = T.oracle(ell.semimaj, ell.inversef)
    zk = case[2]
    zones = [int(zk)] if zk not in ('sym', 'auto') else [int(_f(e.get('zone'), 31)), 31]
    msgs, wk, wg, wfi = [], 0, 0, 0
    for zone in zones[:2]:
        cm = cm_of(prj, zone, isg)
        pts = [(_f(e.get('lat'), -33.0), _f(e.get('lon'), cm + 1.0))] + [(la, cm + dl) for la in LATS for dl in DLS]
        for lat, lon in pts:
            if not (-180 <= lon <= 180 and abs(lon - cm) <= 30 and -80 <= lat <= 84):
                continue
            try:
                h, z, E, N, psf, gconv = geo2grid(lat, lon, zone, ell, prj)
            except Exception as ex:  # noqa
                msgs.append('geo2grid raised %r' % (ex,))
                continue
            k, g = T.scale_convergence(o, lat, lon - cm, prj.cmscale)
            wk = max(wk, abs(mp.mpf(psf) - k))
            if abs(mp.mpf(gconv) - g) > wg:
                wg, where = abs(mp.mpf(gconv) - g), (lat, lon, zone)
            try:
                la2, lo2, psf2, g2 = grid2geo(z, E, N, h, ell, prj)
                # inverse evaluated at the rounded grid position: compare with the exact values there
                k2, gg2 = T.scale_convergence(o, la2, lo2 - cm, prj.cmscale)
                wfi = max(wfi, abs(mp.mpf(psf2) - k2) / 10, abs(mp.mpf(g2) - gg2))
            except ValueError:
                pass
    if wk > 2e-8:
        msgs.append('point scale factor differs from the exact projection by %.3e' % float(wk))
    if wg > 1e-9 * 2:
        msgs.append('grid convergence differs from the exact projection by %.3e deg at %s' % (float(wg), where))
    if wfi > 1e-9 * 2:
        msgs.append('inverse conversion reports scale/convergence %.3e away from the exact values' % float(wfi))
    return bool(msgs), '; '.join(msgs[:3]) if msgs else 'psf within %.1e, convergence within %.1e deg' % (float(wk), float(wg))


def axes(a):
    from geodepy.convert import geo2grid
    bad = []
    for lat in (-80.0, -33.3, 10.0, 84.0):
        g = geo2grid(lat, 3.0, 31)[5]
        if g != 0:
            bad.append(('cm', lat, g))
    for lon in (-27.0, 1.0, 3.0, 5.9, 33.0):
        g = geo2grid(0.0, lon, 31)[5]
        if g != 0:
            bad.append(('equator', lon, g))
    return bool(bad), 'non-zero convergence on an axis: %s' % bad


def sequence(a):
    """one ellipsoid, several projections in sequence (both orders): each geo2grid / grid2geo call reports the scale factor of the projection
    requested in that call (exact scale factors from the exact TM oracle)"""
    import geodepy.constants as gc
    from geodepy.convert import geo2grid, grid2geo
    from oracles import tm_exact as T
    msgs = []
    for ell in (gc.Ellipsoid(6378160.0, 298.25), gc.grs80):
        o = T.oracle(ell.semimaj, ell.inversef)
        user = gc.Projection(300000, 5000000, 0.9999, 2, 140.0)
        seqs = [(gc.utm, 0, 151.2), (gc.isg, 0, 151.2), (user, 0, 151.2), (gc.utm, 0, 151.2), (gc.isg, 0, 151.2)]
        for prj, zone, lon in seqs + seqs[::-1]:
            lat = -33.5
            h, z, e, n, psf, conv = geo2grid(lat, lon, zone, ell, prj)
            la, lo, psf2, conv2 = grid2geo(z, e, n, h, ell, prj)
            # central meridian from the inverse: the point on the central meridian has easting = false easting
            lo_cm = grid2geo(z, float(prj.falseeast), n, h, ell, prj)[1]
            k, c = T.scale_convergence(o, lat, lon - lo_cm, prj.cmscale)
            if abs(psf - float(k)) > 2e-8 or abs(psf2 - float(k)) > 2e-8:
                msgs.append('scale factor %r / %r for cmscale %r after other projections on the same ellipsoid; exact %.10f' % (psf, psf2, float(prj.cmscale), float(k)))
    return bool(msgs), '; '.join(msgs[:3]) if msgs else 'scale factors belong to the projection of each call'
