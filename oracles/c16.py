"""Replay oracles for C16 (un-instrumented geodepy.statistics / geodesy vs definitions in mpmath / numpy)."""
import math
import random
import mpmath as mp
import numpy as np
from oracles.c06 import _f

mp.mp.dps = 30


def Rdef(lat, lon):
    la, lo = mp.radians(mp.mpf(lat)), mp.radians(mp.mpf(lon))
    sl, cl, so, co = mp.sin(la), mp.cos(la), mp.sin(lo), mp.cos(lo)
    return mp.matrix([[-so, -sl * co, cl * co], [co, -sl * so, cl * so], [0, cl, sl]])


PTS = [(-90.0, 10.0), (90.0, -33.0), (0.0, 0.0), (0.0, 90.0), (-33.3, 151.2), (45.0, -360.0), (12.0, 359.0), (-89.999, 180.0)]


def _pts(env):
    p = list(PTS)
    if 'lat' in env:
        p.insert(0, (_f(env.get('lat')), _f(env.get('lon'), 10.0)))
    return p


def rotation(a):
    from geodepy.statistics import rotation_matrix
    from geodepy.geodesy import enu2xyz, xyz2enu
    env = a.get('env', {})
    msgs = []
    v = (_f(env.get('e'), 1000.0), _f(env.get('n'), -2000.0), _f(env.get('u'), 500.0))
    for lat, lon in _pts(env):
        R = rotation_matrix(lat, lon)
        Rd = Rdef(lat, lon)
        d = max(abs(mp.mpf(float(R[i, j])) - Rd[i, j]) for i in range(3) for j in range(3))
        if d > 1e-12:
            msgs.append('rotation_matrix(%r, %r) differs from the local frame (east, north, normal) by %.3e' % (lat, lon, float(d)))
        x = enu2xyz(lat, lon, *v)
        xr = Rd * mp.matrix(v)
        if max(abs(mp.mpf(float(x[i])) - xr[i]) for i in range(3)) > 1e-6:
            msgs.append('enu2xyz(%r, %r) differs from R.enu' % (lat, lon))
        b = xyz2enu(lat, lon, *x)
        if max(abs(b[i] - v[i]) for i in range(3)) > 1e-6:
            msgs.append('xyz2enu(enu2xyz(v)) != v at (%r, %r)' % (lat, lon))
    return bool(msgs), '; '.join(msgs[:3]) if msgs else 'frame is the textbook east-north-up frame'


def _mat(env, pre, sym=True):
    m = [[_f(env.get('%s%d%d' % (pre, min(i, j) if sym else i, max(i, j) if sym else j)), 0.0) for j in range(3)] for i in range(3)]
    return m


def vcv(a):
    from geodepy.statistics import vcv_cart2local, vcv_local2cart
    env = a.get('env', {})
    rnd = random.Random(5)
    msgs = []
    mats = [_mat(env, 'v')] if any(k.startswith('v') for k in env) else []
    for _ in range(3):
        A = np.array([[rnd.uniform(-1, 1) for _ in range(3)] for _ in range(3)])
        mats.append((A @ A.T).tolist())
    mats.append([[1.44, 0, 0], [0, 1.2, 0], [0, 0, 1.2]])
    cols = [[_f(env.get('d%d' % i), 1.0 + i) for i in range(3)], [1.44, 1.20, 1.20], [0.0, 2.0, 5.0]]
    for lat, lon in _pts(env):
        Rd = Rdef(lat, lon)
        for V in mats:
            Vm = mp.matrix(V)
            for fn, ref, nm in ((vcv_cart2local, Rd.T * Vm * Rd, 'vcv_cart2local'), (vcv_local2cart, Rd * Vm * Rd.T, 'vcv_local2cart')):
                got = fn(np.array(V, dtype=float), lat, lon)
                d = max(abs(mp.mpf(float(got[i, j])) - ref[i, j]) for i in range(3) for j in range(3))
                if d > 1e-9:
                    msgs.append('%s at (%r, %r) differs from the rotation congruence by %.3e' % (nm, lat, lon, float(d)))
        for dcol in cols:
            D = mp.diag(dcol)
            for fn, ref, nm in ((vcv_cart2local, Rd.T * D * Rd, 'vcv_cart2local'), (vcv_local2cart, Rd * D * Rd.T, 'vcv_local2cart')):
                got = fn(np.array([[dcol[0]], [dcol[1]], [dcol[2]]], dtype=float), lat, lon)
                if got.shape != (3, 1):
                    msgs.append('%s(3x1) returns shape %s' % (nm, got.shape))
                    continue
                d = max(abs(mp.mpf(float(got[i, 0])) - ref[i, i]) for i in range(3))
                if d > 1e-9:
                    msgs.append('%s(3x1 column %s) at (%r, %r) is not the rotated diagonal (off by %.3e)' % (nm, dcol, lat, lon, float(d)))
    return bool(msgs), '; '.join(msgs[:3]) if msgs else 'covariance rotations match the congruence'


def ellipse(a):
    from geodepy.statistics import error_ellipse
    env = a.get('env', {})
    rnd = random.Random(9)
    msgs = []
    mats = []
    if 'v00' in env:
        mats.append(_mat(env, 'v'))
    for _ in range(6):
        A = np.array([[rnd.uniform(-1, 1) for _ in range(3)] for _ in range(3)])
        mats.append((A @ A.T).tolist())
    mats += [[[4.0, 0, 0], [0, 1.0, 0], [0, 0, 1]], [[1.0, 0, 0], [0, 4.0, 0], [0, 0, 1]], [[2.0, 2.0, 0], [2.0, 2.0, 0], [0, 0, 1]],
             [[0.0, 0, 0], [0, 0.0, 0], [0, 0, 0]]]
    for V in mats:
        if V[0][0] < 0 or V[1][1] < 0 or V[0][0] * V[1][1] - V[0][1] ** 2 < -1e-15:
            continue
        try:
            sa, sb, ori = error_ellipse(np.array(V, dtype=float))
        except Exception as ex:  # noqa
            msgs.append('error_ellipse raised %r on %r' % (ex, V))
            continue
        w = np.linalg.eigvalsh(np.array([[V[0][0], V[0][1]], [V[0][1], V[1][1]]]))
        scale = max(abs(w[1]), 1e-30)
        if abs(sa ** 2 - w[1]) > 1e-9 * scale or abs(sb ** 2 - max(w[0], 0)) > 1e-9 * scale or sa < sb or sb < 0:
            msgs.append('semi-axes %r %r are not the square roots of the eigenvalues %r' % (sa, sb, w))
        if w[1] - w[0] > 1e-9 * scale:
            # bearing measured from axis 1 (north) towards axis 0 (east): direction (sin, cos)
            t = math.radians(ori)
            vec = np.array([math.sin(t), math.cos(t)])
            M = np.array([[V[0][0], V[0][1]], [V[0][1], V[1][1]]])
            if np.linalg.norm(M @ vec - w[1] * vec) > 1e-7 * scale:
                msgs.append('orientation %r is not the bearing of the major axis of %r' % (ori, V))
    return bool(msgs), '; '.join(msgs[:3]) if msgs else 'ellipse matches the eigen-decomposition'


def relative(a):
    from geodepy.statistics import relative_error, vcv_cart2local, error_ellipse
    rnd = random.Random(4)
    msgs = []
    for lat, lon in PTS[:5]:
        A = np.array([[rnd.uniform(-1, 1) for _ in range(6)] for _ in range(6)])
        Q = A @ A.T
        v1, v2, c12 = Q[:3, :3], Q[3:, 3:], Q[:3, 3:]
        got = relative_error(lat, lon, v1, v2, c12)
        S = v1 + v2 - c12 - c12.T
        Rd = np.array(Rdef(lat, lon).tolist(), dtype=float)
        L = Rd.T @ S @ Rd
        ref = error_ellipse(L)
        if max(abs(got[i] - ref[i]) for i in range(3)) > 1e-9 or abs(got[3] - math.sqrt(L[2, 2])) > 1e-9:
            msgs.append('relative_error at (%r, %r) = %r, definition %r up %r' % (lat, lon, got, ref, math.sqrt(L[2, 2])))
    return bool(msgs), '; '.join(msgs[:2]) if msgs else 'relative error matches the definition'


def kval(a):
    from geodepy.statistics import k_val95, ttable_p95
    bad = []
    for dof in range(-5, 201):
        k = k_val95(dof)
        exp = ttable_p95[0] if dof < 1 else (1.96 if dof > 120 else ttable_p95[dof - 1])
        if k != exp:
            bad.append(dof)
    for x in (1.5, '3'):
        try:
            k_val95(x)
            bad.append(x)
        except TypeError:
            pass
    return bool(bad), 'k_val95 wrong for %s' % bad[:10]
