"""Replay oracles for C07 (un-instrumented geodepy)."""
import datetime
import random
from fractions import Fraction as F
import mpmath
from oracles.c06 import formula, mp, PARAMS, _f, POINTS

RATES = ['d_' + p for p in PARAMS]
YEAR = F('365.25')
POINTS14 = [(-4052051.767, 4212836.216, -2545106.027), (1e7, -1e7, 1e7), (1.0, 2.0, 3.0), (-3e6, -1e7, 4.9e6)]


def _adv(p, days):
    return {k: F(repr(float(p[k]))) + F(repr(float(p['d_' + k]))) * F(days) / YEAR for k in PARAMS}


def _dev14(t, p, ref, days, pts):
    from geodepy.transform import conform14
    ep = ref + datetime.timedelta(days=days)
    worst = 0
    for pnt in pts:
        o = conform14(pnt[0], pnt[1], pnt[2], ep, t)
        r = formula(*pnt, _adv(p, days))
        worst = max(worst, max(abs(mpmath.mpf(o[i]) - r[i]) for i in range(3)))
    return worst


def env14(a):
    import geodepy.constants as gc
    env = a.get('env', {})
    ref = datetime.date.fromisoformat(a.get('ref', '2010-01-01'))
    days = int(_f(env.get('d'), 0))
    pt = (_f(env.get('x'), 1e6), _f(env.get('y'), 2e6), _f(env.get('z'), 3e6))
    worst = 0
    sets = []
    for pre in ('a_', 'b_'):
        p = {k: _f(env.get(pre + k)) for k in PARAMS + RATES}
        sets.append((p, gc.Transformation('A', 'B', ref, *[p[k] for k in PARAMS], *[p[k] for k in RATES])))
    if all(v == 0 for v in sets[1][0].values()):
        p = {'tx': 0.1, 'ty': -0.2, 'tz': 0.3, 'sc': 0.005, 'rx': 0.0015, 'ry': -0.0025, 'rz': 0.0035,
             'd_tx': 0.001, 'd_ty': 0.002, 'd_tz': -0.003, 'd_sc': 0.0001, 'd_rx': 0.0011, 'd_ry': 0.0012, 'd_rz': -0.0013}
        sets[1] = (p, gc.Transformation('A', 'B', ref, *[p[k] for k in PARAMS], *[p[k] for k in RATES]))
    for dd in (days, 0, 366, -4000, 14610):
        for p, t in sets + sets[:1]:
            worst = max(worst, _dev14(t, p, ref, dd, [pt] + POINTS14))
    return worst > 2e-6, 'conform14 vs formula with linearly advanced parameters (sequence of two same-labelled sets): %.3e m' % float(worst)


def random14(a):
    import geodepy.constants as gc
    rnd = random.Random(3)
    worst = 0
    for _ in range(20):
        p = {}
        for k in ('tx', 'ty', 'tz'):
            p[k] = rnd.uniform(-500, 500); p['d_' + k] = rnd.uniform(-0.01, 0.01)
        p['sc'] = rnd.uniform(-50, 50); p['d_sc'] = rnd.uniform(-0.001, 0.001)
        for k in ('rx', 'ry', 'rz'):
            p[k] = rnd.uniform(-30, 30); p['d_' + k] = rnd.uniform(-0.1, 0.1)
        ref = datetime.date(2010, 1, 1)
        t = gc.Transformation('A', 'B', ref, *[p[k] for k in PARAMS], *[p[k] for k in RATES])
        try:
            worst = max(worst, _dev14(t, p, ref, rnd.randint(-10000, 18000), POINTS14))
        except Exception as e:  # noqa
            return True, 'conform14 raised %r' % (e,)
    return worst > 2e-6, 'random sets: %.3e m' % float(worst)


def shipped14(a):
    import geodepy.constants as gc
    cat = [(k, v) for k, v in vars(gc).items() if isinstance(v, gc.Transformation) and isinstance(v.ref_epoch, datetime.date)]
    worst, where = 0, None
    for name, t in cat + cat[::-1]:
        p = {k: getattr(t, k) for k in PARAMS + RATES}
        for ep in (datetime.date(1980, 1, 1), datetime.date(2018, 1, 1), datetime.date(2021, 1, 1), datetime.date(2060, 12, 31),
                   datetime.date(2016, 2, 29), t.ref_epoch):
            d = _dev14(t, p, t.ref_epoch, (ep - t.ref_epoch).days, POINTS14[:2])
            if name == a['name'] and d > worst:
                worst, where = d, ep
    return worst > 2e-6, '%s deviates from the linearly advanced formula by %.3e m at epoch %s' % (a['name'], float(worst), where)


def wrappers(a):
    import geodepy.constants as gc
    from geodepy.transform import transform_atrf2014_to_gda2020 as fw, transform_gda2020_to_atrf2014 as bw
    env = a.get('env', {})
    base = gc.atrf2014_to_gda2020
    p = {k: getattr(base, k) for k in PARAMS + RATES}
    pn = {k: -v for k, v in p.items()}
    days = [int(_f(env.get('d'), 0)), 0, 366, -14610, 14975, 3653]
    pts = [(_f(env.get('x'), -4052051.767), _f(env.get('y'), 4212836.216), _f(env.get('z'), -2545106.027)), POINTS14[0],
           (6.4e6, 0.0, 0.0), (-3.7e6, 3.7e6, 3.7e6)]
    msgs = []
    for dd in days:
        ep = base.ref_epoch + datetime.timedelta(days=dd)
        for pnt in pts:
            f = fw(*pnt, ep)
            b = bw(*pnt, ep)
            rf, rb = formula(*pnt, _adv(p, dd)), formula(*pnt, _adv(pn, dd))
            e1 = max(abs(mpmath.mpf(f[i]) - rf[i]) for i in range(3))
            e2 = max(abs(mpmath.mpf(b[i]) - rb[i]) for i in range(3))
            if e1 > 2e-6 or e2 > 2e-6:
                msgs.append('wrapper vs conform14 definition at %s: %.3e / %.3e m' % (ep, float(e1), float(e2)))
            fb = bw(f[0], f[1], f[2], ep)
            bf = fw(b[0], b[1], b[2], ep)
            e3 = max(max(abs(fb[i] - pnt[i]) for i in range(3)), max(abs(bf[i] - pnt[i]) for i in range(3)))
            if e3 > 5e-6 + 2e-9:
                msgs.append('wrappers not mutual inverses at %s: %.3e m' % (ep, e3))
            if dd == 0 and (tuple(f[:3]) != tuple(float(v) for v in pnt) or tuple(b[:3]) != tuple(float(v) for v in pnt)):
                msgs.append('not the identity at 2020-01-01: %r' % (f[:3],))
    return bool(msgs), '; '.join(msgs[:3]) if msgs else 'wrappers agree with the definition, are mutual inverses, identity at 2020.0'
