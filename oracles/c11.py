"""Replay oracles for C11 (run against the un-instrumented geodepy.constants)."""
import datetime
import re
from fractions import Fraction as F

PARAMS = ['tx', 'ty', 'tz', 'sc', 'rx', 'ry', 'rz']
RATES = ['d_' + p for p in PARAMS]
TOL = {'tx': F('0.00015'), 'ty': F('0.00015'), 'tz': F('0.00015'), 'sc': F('0.000015'),
       'rx': F('0.000015'), 'ry': F('0.000015'), 'rz': F('0.000015')}


def _fr(x):
    return F(repr(float(x)))


def label(a):
    import geodepy.constants as gc
    t = getattr(gc, a['name'])
    m = re.match(r'^([a-z]+[0-9]+)_to_([a-z]+[0-9]+)(_[a-z]+)?$', a['name'])
    bad = (not m) or t.from_datum.lower() != m.group(1) or t.to_datum.lower() != m.group(2)
    return bad, '%s is labelled %r -> %r' % (a['name'], t.from_datum, t.to_datum)


def _mk(vals, ref=datetime.date(2001, 2, 3), sd=None):
    import geodepy.constants as gc
    return gc.Transformation('A', 'B', ref, *[float(vals[p]) for p in PARAMS], *[float(vals[p]) for p in RATES], tf_sd=sd)


def neg_numbers(a):
    t = _mk(a['vals'])
    n = -t
    bad = [k for k in PARAMS + RATES if getattr(n, k) != -getattr(t, k)]
    return bool(bad), 'negation differs in %s' % bad


def neg_labels(a):
    t = _mk({k: 1.0 for k in PARAMS + RATES})
    n = -t
    bad = not (n.from_datum == 'B' and n.to_datum == 'A' and n.ref_epoch == t.ref_epoch)
    return bad, 'negated labels %r -> %r epoch %r' % (n.from_datum, n.to_datum, n.ref_epoch)


def pair(a):
    import geodepy.constants as gc
    t, r = getattr(gc, a['a']), getattr(gc, a['b'])
    bad = [k for k in PARAMS + RATES if getattr(t, k) != -getattr(r, k)]
    if t.ref_epoch != r.ref_epoch:
        bad.append('ref_epoch')
    if t.from_datum != r.to_datum or t.to_datum != r.from_datum:
        bad.append('labels')
    return bool(bad), '%s vs %s differ in %s' % (a['a'], a['b'], bad)


def add_numbers(a):
    ref = datetime.date.fromisoformat(a['ref'])
    t = _mk(a['vals'], ref)
    d = int(a['d'])
    n = t + (ref + datetime.timedelta(days=d))
    bad = []
    for k in PARAMS:
        exp = _fr(getattr(t, k)) + _fr(getattr(t, 'd_' + k)) * F(d) / F('365.25')
        if abs(_fr(getattr(n, k)) - exp) > F(1, 10 ** 8):
            bad.append((k, float(getattr(n, k)), float(exp)))
    for k in RATES:
        if getattr(n, k) != getattr(t, k):
            bad.append((k, getattr(n, k), getattr(t, k)))
    return bool(bad), 're-referenced set differs: %s' % bad


def add_labels(a):
    t = _mk({k: 1.0 for k in PARAMS + RATES}, datetime.date(2005, 6, 7))
    n = t + datetime.date(2010, 1, 1)
    bad = not (n.from_datum == 'A' and n.to_datum == 'B' and n.ref_epoch == datetime.date(2010, 1, 1))
    return bad, 're-referenced labels %r -> %r epoch %r' % (n.from_datum, n.to_datum, n.ref_epoch)


def triple(a):
    import geodepy.constants as gc
    ab, bc, ac = getattr(gc, a['ab']), getattr(gc, a['bc']), getattr(gc, a['ac'])
    T = int(a['ordinal'])
    bad = []
    for k in PARAMS:
        def at(t):
            return _fr(getattr(t, k)) + _fr(getattr(t, 'd_' + k)) * F(T - t.ref_epoch.toordinal()) / F('365.25')
        res = at(ab) + at(bc) - at(ac)
        if abs(res) > TOL[k]:
            bad.append((k, float(res)))
        dr = _fr(getattr(ab, 'd_' + k)) + _fr(getattr(bc, 'd_' + k)) - _fr(getattr(ac, 'd_' + k))
        if abs(dr) > TOL[k]:
            bad.append(('d_' + k, float(dr)))
    return bool(bad), '%s + %s vs %s at %s: %s' % (a['ab'], a['bc'], a['ac'], datetime.date.fromordinal(T), bad)


def iers(a):
    import geodepy.constants as gc
    vals = {k: float(v) for k, v in a['vals'].items()}
    t = gc.iers2trans('X', 'Y', datetime.date(2000, 1, 1), *[vals[p] for p in PARAMS], *[vals[p] for p in RATES])
    bad = []
    for k in PARAMS + RATES:
        sgn = -1 if k.replace('d_', '').startswith('r') else 1
        exp = sgn * _fr(vals[k]) / 1000
        if abs(_fr(getattr(t, k)) - exp) > F(1, 10 ** 8):
            bad.append((k, getattr(t, k), float(exp)))
    if (t.from_datum, t.to_datum) != ('X', 'Y'):
        bad.append('labels')
    return bool(bad), 'iers2trans differs: %s' % bad
