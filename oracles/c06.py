"""Replay oracles for C06/C07 (un-instrumented geodepy; exact rational / mpmath evaluation of the definition)."""
import datetime
import random
from fractions import Fraction as F

import mpmath

mpmath.mp.dps = 40
PARAMS = ['tx', 'ty', 'tz', 'sc', 'rx', 'ry', 'rz']


def _f(x, default=0.0):
    if x is None:
        return default
    return float(x)


def mp(x):
    if isinstance(x, F):
        return mpmath.mpf(x.numerator) / mpmath.mpf(x.denominator)
    return mpmath.mpf(x)


def formula(x, y, z, p):
    """exact evaluation (mpmath 40 digits) of T + (1+s ppm) R X with rotations in arc-seconds"""
    s = 1 + mp(p['sc']) / 10 ** 6
    r = {k: mp(p[k]) / 3600 * mpmath.pi / 180 for k in ('rx', 'ry', 'rz')}
    x, y, z = mp(x), mp(y), mp(z)
    return (mp(p['tx']) + s * (x + r['rz'] * y - r['ry'] * z),
            mp(p['ty']) + s * (-r['rz'] * x + y + r['rx'] * z),
            mp(p['tz']) + s * (r['ry'] * x - r['rx'] * y + z))


def _set_from_env(env, pre, sd=False, labels=('A', 'B'), ref_epoch=0):
    import geodepy.constants as gc
    p = {k: _f(env.get(pre + k)) for k in PARAMS}
    tf_sd = None
    if sd:
        tf_sd = gc.TransformationSD(**{'sd_' + k: _f(env.get(pre + 'sd_' + k), 0.001) for k in PARAMS})
    return p, gc.Transformation(labels[0], labels[1], ref_epoch, *[p[k] for k in PARAMS], tf_sd=tf_sd)


def _dev(out, ref):
    return max(abs(mpmath.mpf(o) - r) for o, r in zip(out, ref))


POINTS = [(-4052051.767, 4212836.216, -2545106.027), (5e7, -5e7, 5e7), (1.0, 2.0, 3.0), (-3e7, -1e7, 4.9e7)]


def formula_sequence(a):
    from geodepy.transform import conform7
    env = a.get('env', {})
    pt = (_f(env.get('x'), 1e6), _f(env.get('y'), 2e6), _f(env.get('z'), 3e6))
    p1, t1 = _set_from_env(env, 'a_')
    p2, t2 = _set_from_env(env, 'b_')
    if all(v == 0 for v in p2.values()):
        p2 = {'tx': 10.0, 'ty': -20.0, 'tz': 30.0, 'sc': 5.0, 'rx': 1.5, 'ry': -2.5, 'rz': 3.5}
        import geodepy.constants as gc
        t2 = gc.Transformation('A', 'B', 0, *[p2[k] for k in PARAMS])
    worst = 0
    for pnt in [pt] + POINTS:
        for (p, t) in ((p1, t1), (p2, t2), (p1, t1)):
            o = conform7(pnt[0], pnt[1], pnt[2], t)
            worst = max(worst, _dev(o[:3], formula(*pnt, p)))
            if o[3] is not None:
                return True, 'covariance returned without input'
    return worst > 1e-6, 'max deviation from formula over a t1,t2,t1 call sequence: %.3e m' % float(worst)


def formula_random(a):
    import geodepy.constants as gc
    from geodepy.transform import conform7
    rnd = random.Random(7)
    worst = 0
    for _ in range(50):
        p = {'tx': rnd.uniform(-1000, 1000), 'ty': rnd.uniform(-1000, 1000), 'tz': rnd.uniform(-1000, 1000),
             'sc': rnd.uniform(-100, 100), 'rx': rnd.uniform(-59.9, 59.9), 'ry': rnd.uniform(-59.9, 59.9),
             'rz': rnd.uniform(-59.9, 59.9)}
        t = gc.Transformation('A', 'B', 0, *[p[k] for k in PARAMS])
        pnt = [rnd.uniform(-5e7, 5e7) for _ in range(3)]
        try:
            o = conform7(*pnt, t)
        except Exception as e:  # noqa
            return True, 'conform7 raised %r for %r' % (e, p)
        worst = max(worst, _dev(o[:3], formula(*pnt, p)))
    return worst > 1e-6, 'max deviation %.3e m' % float(worst)


def _catalogue():
    import geodepy.constants as gc
    return [(k, v) for k, v in vars(gc).items() if isinstance(v, gc.Transformation)]


def shipped_sequence(a):
    from geodepy.transform import conform7
    cat = _catalogue()
    worst, where = 0, None
    for name, t in cat + cat[::-1]:
        p = {k: F(repr(float(getattr(t, k)))) for k in PARAMS}
        for pnt in POINTS:
            o = conform7(*pnt, t)
            d = _dev(o[:3], formula(*pnt, p))
            if name == a['name'] and d > worst:
                worst, where = d, pnt
    return worst > 1e-6, '%s deviates from the formula by %.3e m at %s (sets applied in catalogue order, then reversed)' % (
        a['name'], float(worst), where)


shipped = shipped_sequence


def inverse(a):
    import geodepy.constants as gc
    from geodepy.transform import conform7
    t = getattr(gc, a['name'])
    env = a.get('env', {})
    pts = [(_f(env.get('x')), _f(env.get('y')), _f(env.get('z')))] + POINTS
    tol = 2e-3 if a['name'].lower().startswith(('agd', 'gda94_to_agd')) else 1e-5
    worst = 0
    for pnt in pts:
        o = conform7(*pnt, t)
        b = conform7(o[0], o[1], o[2], -t)
        worst = max(worst, max(abs(b[i] - pnt[i]) for i in range(3)))
    return worst > tol, '%s then its negation: closure %.3e m (tolerance %.0e)' % (a['name'], worst, tol)


def jqjt(pnt, p, sd, vcv):
    """first-order propagation from the definition, in mpmath"""
    x, y, z = [mp(v) for v in pnt]
    s = 1 + mp(p['sc']) / 10 ** 6
    arc = mpmath.pi / 180 / 3600
    rx, ry, rz = [mp(p[k]) * arc for k in ('rx', 'ry', 'rz')]
    R = mpmath.matrix([[1, rz, -ry], [-rz, 1, rx], [ry, -rx, 1]])
    X = mpmath.matrix([x, y, z])
    J = mpmath.zeros(3, 10)
    J[:, 0:3] = s * R
    RX = R * X
    for i in range(3):
        J[i, 3] = RX[i]
    J[0, 4], J[1, 4], J[2, 4] = 0, s * z, -s * y
    J[0, 5], J[1, 5], J[2, 5] = -s * z, 0, s * x
    J[0, 6], J[1, 6], J[2, 6] = s * y, -s * x, 0
    J[0, 7] = J[1, 8] = J[2, 9] = 1
    Q = mpmath.zeros(10, 10)
    for i in range(3):
        for j in range(3):
            Q[i, j] = mp(vcv[i][j])
    Q[3, 3] = (mp(sd['sc']) / 10 ** 6) ** 2
    for k, n in ((4, 'rx'), (5, 'ry'), (6, 'rz')):
        Q[k, k] = (mp(sd[n]) * arc) ** 2
    for k, n in ((7, 'tx'), (8, 'ty'), (9, 'tz')):
        Q[k, k] = mp(sd[n]) ** 2
    return J * Q * J.T


def _cov_case(pnt, p, sd, vcv, labels=('A', 'B')):
    import numpy as np
    import geodepy.constants as gc
    from geodepy.transform import conform7
    t = gc.Transformation(labels[0], labels[1], 0, *[p[k] for k in PARAMS],
                          tf_sd=gc.TransformationSD(**{'sd_' + k: sd[k] for k in PARAMS}))
    try:
        o = conform7(*pnt, t, np.array(vcv, dtype=float))
    except Exception as e:  # noqa
        return True, 'conform7 with covariance raised %s: %s' % (type(e).__name__, e)
    if o[3] is None:
        return True, 'no covariance returned (input covariance %s)' % (vcv,)
    ref = jqjt(pnt, p, sd, vcv)
    scale = max(abs(ref[i, j]) for i in range(3) for j in range(3)) or mpmath.mpf(1)
    worst = max(abs(mpmath.mpf(float(o[3][i, j])) - ref[i, j]) for i in range(3) for j in range(3))
    asym = max(abs(float(o[3][i, j]) - float(o[3][j, i])) for i in range(3) for j in range(3))
    if worst > 1e-9 * scale:
        return True, 'covariance differs from J Q J^T by %.3e (scale %.3e)' % (float(worst), float(scale))
    if asym > 1e-12 * float(scale):
        return True, 'covariance not symmetric (%.3e)' % asym
    return False, 'covariance = J Q J^T within %.1e relative' % float(worst / scale)


def cov_env(a):
    env = a.get('env', {})
    pnt = (_f(env.get('x'), 1e6), _f(env.get('y'), 2e6), _f(env.get('z'), 3e6))
    p = {k: _f(env.get('a_' + k)) for k in PARAMS}
    sd = {k: _f(env.get('a_sd_' + k), 0.001) for k in PARAMS}
    vcv = [[_f(env.get('q%d%d' % (min(i, j), max(i, j)))) for j in range(3)] for i in range(3)]
    return _cov_case(pnt, p, sd, vcv)


def cov_random(a):
    rnd = random.Random(11)
    for _ in range(10):
        p = {'tx': rnd.uniform(-1000, 1000), 'ty': rnd.uniform(-1000, 1000), 'tz': rnd.uniform(-1000, 1000),
             'sc': rnd.uniform(-100, 100), 'rx': rnd.uniform(-59, 59), 'ry': rnd.uniform(-59, 59), 'rz': rnd.uniform(-59, 59)}
        sd = {k: rnd.uniform(0, 0.01) for k in PARAMS}
        m = [[rnd.uniform(-1, 1) for _ in range(3)] for _ in range(3)]
        vcv = [[sum(m[i][k] * m[j][k] for k in range(3)) for j in range(3)] for i in range(3)]
        v, msg = _cov_case([rnd.uniform(-5e7, 5e7) for _ in range(3)], p, sd, vcv)
        if v:
            return v, msg
    return False, msg


def none_cases(a):
    import numpy as np
    import geodepy.constants as gc
    from geodepy.transform import conform7
    p = {'tx': 1.0, 'ty': 2.0, 'tz': 3.0, 'sc': 0.5, 'rx': 0.1, 'ry': 0.2, 'rz': 0.3}
    t_sd = gc.Transformation('A', 'B', 0, *[p[k] for k in PARAMS], tf_sd=gc.TransformationSD(**{'sd_' + k: 0.001 for k in PARAMS}))
    t_no = gc.Transformation('A', 'B', 0, *[p[k] for k in PARAMS])
    v = np.eye(3)
    a1 = conform7(1e6, 2e6, 3e6, t_sd, None)[3]
    a2 = conform7(1e6, 2e6, 3e6, t_no, v)[3]
    a3 = conform7(1e6, 2e6, 3e6, t_sd, v)[3]
    bad = not (a1 is None and a2 is None and a3 is not None)
    return bad, 'None-ness: no-vcv -> %r, no-uncertainties -> %r, both -> %s' % (a1, a2, type(a3).__name__)
