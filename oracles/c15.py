"""Replay oracle for C15 (un-instrumented geodepy.coord vs the functional conversions)."""
from oracles.c06 import _f


def _ang(ga, kind, v):
    if kind == 'float':
        return float(v)
    if kind == 'DECAngle':
        return ga.DECAngle(v)
    if kind == 'HPAngle':
        return ga.dec2hpa(v)
    if kind == 'GONAngle':
        return ga.dec2gona(v)
    if kind == 'DMSAngle':
        return ga.dec2dms(v)
    return ga.dec2ddm(v)


def _same_angle(a, b):
    if type(a) is not type(b):
        return False
    if isinstance(a, float):
        return float(a) == float(b)
    return vars(a) == vars(b)


NOT = ['float', 'DECAngle', 'HPAngle', 'GONAngle', 'DMSAngle', 'DDMAngle']


def objects(a):
    import geodepy.coord as co
    import geodepy.angles as ga
    import geodepy.constants as gc
    from geodepy.convert import xyz2llh, llh2xyz, grid2geo, geo2grid
    env = a.get('env', {})
    msgs = []
    cls = {'float': float, 'DECAngle': ga.DECAngle, 'HPAngle': ga.HPAngle, 'GONAngle': ga.GONAngle, 'DMSAngle': ga.DMSAngle, 'DDMAngle': ga.DDMAngle}
    pts = [(_f(env.get('lat'), -33.25), _f(env.get('lon'), 151.5)), (0.0, 10.0), (-0.0, 147.0), (45.5, -70.25), (-23.5, 147.25), (10.125, 0.0)]
    heights = [(None, None), (10.0, None), (None, 5.0), (10.0, 5.0), (0.0, 5.0), (10.0, 0.0), (0.0, 0.0), (7.0, 7.0)]
    for ell, prj in ((gc.grs80, gc.utm), (gc.ans, gc.isg)):
        for lat, lon in pts:
            if prj is gc.isg and not 141 <= lon <= 153.5:
                continue
            for h, H in heights:
                for nk in NOT:
                    try:
                        la, lo = _ang(ga, nk, lat), _ang(ga, nk, lon)
                    except ValueError:
                        continue            # HP construction limits of the angle module (C08)
                    g = co.CoordGeo(la, lo, h, H)
                    try:
                        c = g.cart(ell)
                        t = g.tm(ell, prj)
                    except Exception as ex:  # noqa
                        msgs.append('CoordGeo(%s).cart/tm raised %r' % (nk, ex))
                        continue
                    ex_ = llh2xyz(la, lo, h if h is not None else 0, ell)
                    en = (h - H) if (h is not None and H is not None) else None
                    if (c.xaxis, c.yaxis, c.zaxis) != tuple(float(v) for v in ex_) or c.nval != en:
                        msgs.append('CoordGeo(%r, %r, h=%r, H=%r).cart: %r, expected %r N=%r' % (lat, lon, h, H, c, ex_, en))
                    hemi, zz, ee, nn, _, _ = geo2grid(la, lo, 0, ell, prj)
                    if (t.zone, t.east, t.north, t.hemi_north, t.ell_ht, t.orth_ht, t.projection is prj) != (zz, ee, nn, hemi == 'North', h, H, True):
                        msgs.append('CoordGeo(%r, %r).tm(%s): %r, functional %r' % (lat, lon, 'isg' if prj is gc.isg else 'utm', t, (hemi, zz, ee, nn)))
                    # back conversions
                    for nk2 in NOT:
                        try:
                            g2 = t.geo(ell, cls[nk2])
                            c2 = t.cart(ell)
                            g3 = c.geo(ell, cls[nk2])
                        except ValueError:
                            continue
                        except Exception as ex:  # noqa
                            msgs.append('CoordTM.geo/CoordCart.geo(%s) raised %r' % (nk2, ex))
                            continue
                        l2, o2, _, _ = grid2geo(zz, ee, nn, 'north' if hemi == 'North' else 'south', ell, prj)
                        try:
                            if not (_same_angle(g2.lat, _ang(ga, nk2, l2)) and _same_angle(g2.lon, _ang(ga, nk2, o2)) and g2.ell_ht == h and g2.orth_ht == H):
                                msgs.append('CoordTM.geo(%s) differs from grid2geo / loses heights: %r' % (nk2, g2))
                            ex2 = llh2xyz(l2, o2, h if h is not None else 0, ell)
                            en2 = (h - H) if (h is not None and H is not None) else None
                            if max(abs(a_ - b_) for a_, b_ in zip((c2.xaxis, c2.yaxis, c2.zaxis), ex2)) > 3e-4 or c2.nval != en2:
                                msgs.append('CoordTM.cart on %s differs from llh2xyz(grid2geo(...)) on that ellipsoid: %r, expected %r N=%r'
                                            % ('GRS80' if ell is gc.grs80 else 'ANS', c2, tuple(float(v) for v in ex2), en2))
                            l3, o3, h3 = xyz2llh(c.xaxis, c.yaxis, c.zaxis, ell)
                            eo = (h3 - c.nval) if c.nval is not None else None
                            if not (_same_angle(g3.lat, _ang(ga, nk2, l3)) and _same_angle(g3.lon, _ang(ga, nk2, o3)) and g3.ell_ht == h3 and g3.orth_ht == eo):
                                msgs.append('CoordCart(N=%r).geo(%s) = %r, expected orthometric height %r' % (c.nval, nk2, g3, eo))
                        except ValueError:
                            pass
                    # notation changes
                    for nk2 in NOT:
                        try:
                            r = g.notation(cls[nk2])
                        except ValueError:
                            continue
                        except Exception as ex:  # noqa
                            msgs.append('CoordGeo(%s).notation(%s) raised %s: %s' % (nk, nk2, type(ex).__name__, ex))
                            continue
                        if type(r.lat) is not cls[nk2] or r.ell_ht != h or r.orth_ht != H:
                            msgs.append('CoordGeo(%s).notation(%s) returned %r' % (nk, nk2, r))
                        else:
                            d = abs(ga.angular_typecheck(r.lat) - ga.angular_typecheck(la)) + abs(ga.angular_typecheck(r.lon) - ga.angular_typecheck(lo))
                            if d > 1e-11:
                                msgs.append('CoordGeo(%s).notation(%s) moved the position by %.2e deg' % (nk, nk2, d))
    return bool(msgs), '; '.join(sorted(set(msgs))[:4]) if msgs else 'coordinate objects agree with the functional conversions'
