"""Replay oracles for C14 (un-instrumented geodepy)."""
import math
from oracles.c06 import _f

LINES = [(55, 300000.0, 6200000.0, 55, 320000.0, 6230000.0), (55, 450000.0, 6000000.0, 55, 550000.0, 6000100.0), (55, 480000.0, 3000000.0, 55, 520000.0, 3000000.0),
         (55, 200000.0, 8000000.0, 55, 200050.0, 8000001.0), (50, 700000.0, 7500000.0, 50, 790000.0, 7450000.0), (55, 780000.0, 6100000.0, 56, 225000.0, 6105000.0),
         (31, 500000.0, 5000000.0, 31, 500000.0, 5099000.0), (31, 160000.0, 2200000.0, 31, 255000.0, 2230000.0),
         # lines within the convergence angle of grid north / true north on either side of the central meridian, both directions
         # (azimuth + convergence passes through 0 / 360 there)
         (55, 300000.0, 6200000.0, 55, 299905.0, 6205000.0), (55, 300000.0, 6200000.0, 55, 300095.0, 6205000.0),
         (55, 700000.0, 6200000.0, 55, 699905.0, 6205000.0), (55, 700000.0, 6200000.0, 55, 700095.0, 6205000.0),
         (55, 299905.0, 6205000.0, 55, 300000.0, 6200000.0), (55, 700095.0, 6205000.0, 55, 700000.0, 6200000.0)]


def _hemis(a):
    h = a.get('hemisphere')
    return [h] if h else ['south', 'north']


def utm(a):
    import geodepy.geodesy as gd
    from geodepy.convert import grid2geo, geo2grid
    import geodepy.constants as gc
    msgs = []
    for hemi in set(_hemis(a) + ['south', 'north']):
        for ell in (gc.grs80, gc.ans):
            for (z1, e1, n1, z2, e2, n2) in LINES:
                try:
                    gdist, b12, b21, lsf = gd.vincinv_utm(z1, e1, n1, z2, e2, n2, hemi, ell)
                except Exception as ex:  # noqa
                    msgs.append('vincinv_utm raised %r' % (ex,))
                    continue
                p1, p2 = grid2geo(z1, e1, n1, hemi, ell), grid2geo(z2, e2, n2, hemi, ell)
                s, a12, a21 = gd.vincinv(p1[0], p1[1], p2[0], p2[1], ell)
                L = gd.line_sf(z1, e1, n1, z2, e2, n2, hemi, ell)
                if abs(gdist - s * L) > 1e-9 * max(1, s) or abs(b12 - (a12 + p1[3])) > 1e-12 or abs(b21 - (a21 + p2[3])) > 1e-12 or lsf != L:
                    msgs.append('vincinv_utm(%s, %s) is not distance x line scale factor / azimuth + convergence of each end' % ((z1, e1, n1, z2, e2, n2), hemi))
                # the direct computation is the inverse of the inverse: reproduces point 2 in the first point's zone within 1 mm
                try:
                    zo, eo, no, bb, ll = gd.vincdir_utm(z1, e1, n1, b12, gdist, hemi, ell)
                except Exception as ex:  # noqa
                    msgs.append('vincdir_utm raised %r' % (ex,))
                    continue
                if z2 != z1:
                    h2, zz, ee, nn, _, _ = geo2grid(p2[0], p2[1], z1, ell)
                else:
                    ee, nn = e2, n2
                d = math.hypot(eo - ee, no - nn)
                if zo != z1 or d > 1e-3 + 1.5e-4:
                    msgs.append('vincdir_utm(vincinv_utm(line)) misses point 2 by %.3e m for %s, hemisphere %s' % (d, (z1, e1, n1, z2, e2, n2), hemi))
    return bool(msgs), '; '.join(sorted(set(msgs))[:3]) if msgs else 'grid geodesic computations consistent'


def linesf(a):
    import geodepy.geodesy as gd
    from geodepy.convert import grid2geo, geo2grid
    import geodepy.constants as gc
    msgs = []
    for hemi in ('south', 'north'):
        for (z1, e1, n1, z2, e2, n2) in LINES:
            L = gd.line_sf(z1, e1, n1, z2, e2, n2, hemi, gc.grs80)
            if z2 != z1:
                g = grid2geo(z2, e2, n2, hemi)
                _, _, e2, n2, _, _ = geo2grid(g[0], g[1], z1)
            ks = []
            for i in range(0, 101):
                t = i / 100
                ks.append(grid2geo(z1, e1 + t * (e2 - e1), n1 + t * (n2 - n1), hemi)[2])
            simpson = (ks[0] + 4 * ks[50] + ks[100]) / 6
            if L < min(ks) - 3e-7 or L > max(ks) + 3e-7 or abs(L - simpson) > 5e-7:
                msgs.append('line scale factor %.9f outside the point-scale range [%.9f, %.9f] / Simpson mean %.9f for %s (%s)' % (
                    L, min(ks), max(ks), simpson, (z1, e1, n1, z2, e2, n2), hemi))
    return bool(msgs), '; '.join(msgs[:2]) if msgs else 'line scale factor within the point-scale range'


def radii(a):
    import geodepy.geodesy as gd
    import geodepy.constants as gc
    env = a.get('env', {})
    msgs = []
    for ell in (gc.Ellipsoid(_f(env.get('a'), 6378160.0), _f(env.get('invf'), 298.25)), gc.intl24):
        f = 1 / ell.inversef
        e2 = f * (2 - f)
        for lat in (_f(env.get('lat'), 10.0), -90.0, -45.0, 0.0, 33.0, 90.0):
            w = 1 - e2 * math.sin(math.radians(lat)) ** 2
            if abs(gd.rho(lat, ell) - ell.semimaj * (1 - e2) / w ** 1.5) > 1e-6 or abs(gd.nu(lat, ell) - ell.semimaj / math.sqrt(w)) > 1e-6:
                msgs.append('rho/nu at lat %r differ from the closed forms on Ellipsoid(%r, %r)' % (lat, ell.semimaj, ell.inversef))
    return bool(msgs), '; '.join(msgs[:2]) if msgs else 'radii of curvature match'
