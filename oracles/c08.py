"""Replay oracle for C08/C12: the un-instrumented geodepy.angles on one concrete double, judged with exact rational arithmetic."""
import math
from fractions import Fraction as F

TOL = F(1, 10 ** 8) / 3600


def _fields13(h):
    """13-decimal reading of |h| (what 'an HP value written with 13 decimals' means): deg, mm, ss (ss in 1e-9 arc-seconds)"""
    R = round(F(abs(h)) * 10 ** 13)
    # round() on Fraction is half-even
    return R // 10 ** 13, (R // 10 ** 11) % 100, R % 10 ** 11


def _angle(deg, mm, ss):
    return F(deg) + F(mm, 60) + F(ss, 3600 * 10 ** 9)


def _dms_value(o):
    return F(o.degree) + F(o.minute) / 60 + F(o.second) / 3600


def _ddm_value(o):
    return F(o.degree) + F(o.minute) / 60


def _input(a):
    if 'q' in a:
        x = float(F(int(a['q']), 10 ** 13))
        target = None
    else:
        E = a.get('E')
        m = int(a['m'])
        x = None
    return x


def check(a):
    import geodepy.angles as A
    fn, kind = a['fn'], a.get('kind', '')
    neg = kind.endswith('-neg')
    msgs = []
    if kind.startswith('hp') and 'q' not in a:
        # no concrete value came with the witness (the path ended in an operation the F-model does not encode): stress set of
        # 13-decimal values - sub-arc-second magnitudes (scientific notation in repr), digit-boundary doubles, field limits
        valid = [5 * 10 ** 8, 1, 125, 17 * 10 ** 7, 3 * 10 ** 12, 20100000000000, 641100000000000, 5959 * 10 ** 9 + 999999999, 1795959 * 10 ** 9,
                 12 * 10 ** 13 + 3456 * 10 ** 9 + 789000000, 10 ** 9, 59 * 10 ** 11]
        invalid = [6 * 10 ** 12, 12 * 10 ** 13 + 60 * 10 ** 11, 60 * 10 ** 9, 12 * 10 ** 13 + 3460 * 10 ** 9, 99 * 10 ** 11, 5961 * 10 ** 9]
        for q in (valid if 'invalid' not in kind else invalid):
            bad, msg = check(dict(a, q=q))
            if bad:
                return bad, msg
        return False, '%s: stress set ok' % fn
    if kind.startswith('hp'):
        q = int(a.get('q', 20100000000000))
        x = float(F(q, 10 ** 13))
        deg, mm, ss = q // 10 ** 13, (q // 10 ** 11) % 100, q % 10 ** 11
        valid = mm < 60 and ss < 60 * 10 ** 9
        xs = -x if neg else x
        try:
            r = A.HPAngle(xs) if fn == 'HPAngle' else getattr(A, fn)(xs)
        except Exception as ex:  # noqa - any exception on valid input is a rejection
            if valid:
                return True, '%s(%r) raises %s: %s although %d deg %02d min %s sec is valid HP' % (fn, xs, type(ex).__name__, ex, deg, mm, float(F(ss, 10 ** 9)))
            return False, 'invalid HP rejected'
        if not valid:
            return True, '%s(%r) accepts an HP value whose fields are %d min %s sec' % (fn, xs, mm, float(F(ss, 10 ** 9)))
        t = _angle(deg, mm, ss)
        if fn == 'hp2dec':
            if abs(F(r) - (-t if neg else t)) > TOL:
                return True, 'hp2dec(%r) = %r, the fields denote %s deg (off by %.3e arc-seconds)' % (xs, r, float(t), float(abs(F(r) - (-t if neg else t)) * 3600))
        elif fn in ('hp2dms', 'hp2ddm'):
            v = _dms_value(r) if fn == 'hp2dms' else _ddm_value(r)
            lim = 60
            bad_fields = r.minute < 0 or (fn == 'hp2dms' and r.second < 0) or r.positive != (not neg)
            if bad_fields or abs(v - t) > TOL:
                return True, '%s(%r) = %r: negative field / wrong sign flag or %.3e arc-seconds from the angle the HP value denotes' % (fn, xs, r, float(abs(v - t) * 3600))
        return False, '%s(%r) ok' % (fn, xs)
    if kind.startswith('dec') and 'm' not in a:
        # no concrete double came with the witness: stress set (just below whole degrees / minutes, digit boundaries, tiny and large magnitudes)
        for x in (0.9999999999999999, 359.99999999999994, 12.582438888888887, 0.016666666666666666, 0.9833333333333333, 1e-9, 2.7777777777e-13,
                  89.99999999999999, 179.5959999999999, 0.5, 45.123456789012, 511.99999999999994):
            bad, msg = _check_dec(A, fn, -x if neg else x)
            if bad:
                return bad, msg
        return False, '%s: stress set ok' % fn
    if kind.startswith('dec'):
        m = int(a['m'])
        x = math.ldexp(m, -52)          # mantissa in [2^52, 2^53): scale by the chunk's exponent stored with the witness
        x = float(F(m) * F(2) ** int(a.get('e2', -52))) if 'e2' in a else x
        return _check_dec(A, fn, -x if neg else x)
    if kind == 'object':
        v = float(F(int(a['m'])) * F(2) ** (int(a['E']) - 52))
        d, mi = int(a['deg']), int(a['min'])
        cls, meth = fn.split('.')
        o = A.DMSAngle(d, mi, v, positive=True) if cls == 'DMSAngle' else A.DDMAngle(d, v, positive=True)
        t = (F(d) + F(mi, 60) + F(v) / 3600) if cls == 'DMSAngle' else (F(d) + F(v) / 60)
        try:
            r = getattr(o, meth)()
        except Exception as ex:  # noqa
            return True, '%r.%s() raised %r' % (o, meth, ex)
        return _judge(A, '%r.%s()' % (o, meth), r, t, False)
    return False, 'nothing to check'


def _judge(A, what, r, t, neg):
    """r: float (decimal degrees or HP) / DMSAngle / DDMAngle; t: exact angle (>= 0) it must denote"""
    if isinstance(r, A.DMSAngle):
        v = _dms_value(r)
        ok = 0 <= r.minute and 0 <= r.second and r.positive != neg
    elif isinstance(r, A.DDMAngle):
        v = _ddm_value(r)
        ok = 0 <= r.minute and r.positive != neg
    elif what.endswith('.hp()'):
        deg, mm, ss = _fields13(r)
        if mm >= 60 or ss >= 60 * 10 ** 9:
            return True, '%s = %r is not valid HP (minutes %d, seconds %s)' % (what, r, mm, float(F(ss, 10 ** 9)))
        v, ok = _angle(deg, mm, ss), (r < 0) == neg or r == 0
    elif isinstance(r, float):
        v, ok = abs(F(r)), (r < 0) == neg or r == 0
    else:
        return False, 'n/a'
    if not ok or abs(v - t) > TOL:
        return True, '%s = %r: negative field / wrong sign flag or %.3e arc-seconds off' % (what, r, float(abs(v - t) * 3600))
    return False, '%s ok' % what


def _check_dec(A, fn, x):
    t = F(abs(x))
    neg = x < 0
    try:
        r = getattr(A, fn)(x)
    except Exception as ex:  # noqa
        return True, '%s(%r) raised %r' % (fn, x, ex)
    if fn == 'dec2hp':
        deg, mm, ss = _fields13(r)
        if (r < 0) != neg and r != 0:
            return True, 'dec2hp(%r) = %r has the wrong sign' % (x, r)
        if mm >= 60 or ss >= 60 * 10 ** 9:
            return True, 'dec2hp(%r) = %r is not valid HP (minutes %d, seconds %s)' % (x, r, mm, float(F(ss, 10 ** 9)))
        if abs(_angle(deg, mm, ss) - t) > TOL:
            return True, 'dec2hp(%r) = %r denotes an angle %.3e arc-seconds away' % (x, r, float(abs(_angle(deg, mm, ss) - t) * 3600))
        try:
            A.hp2dec(r)
            A.HPAngle(r)
        except ValueError as ex:
            return True, 'dec2hp(%r) = %r is rejected by hp2dec / HPAngle: %s' % (x, r, ex)
        return False, 'dec2hp(%r) ok' % x
    if fn in ('dec2dms', 'dec2ddm'):
        return _judge(A, '%s(%r)' % (fn, x), r, t, neg)
    if fn == 'dec2gon':
        if abs(F(r) * F(9, 10) - F(x)) > TOL:
            return True, 'dec2gon(%r) = %r' % (x, r)
    if fn == 'gon2dec':
        if abs(F(r) - F(x) * F(9, 10)) > TOL:
            return True, 'gon2dec(%r) = %r' % (x, r)
    return False, '%s(%r) ok' % (fn, x)


def wiring(a):
    """a wrapper function / object method on concrete values: the result must denote the source angle within 1e-8 arc-seconds"""
    import mpmath
    import geodepy.angles as A
    mpmath.mp.dps = 40
    env, what, positive = a.get('env', {}), a['what'], a.get('positive', True)

    def f(k, d):
        try:
            return float(F(str(env[k]))) if k in env else d
        except Exception:  # noqa
            return d
    msgs = []
    vs = [f('v', 12.5), 12.582438888888887, -0.5062, 359.59599, -12.3456789, 2.01, 0.3, 64.11, -0.0001, 179.5959999999999]
    for v in vs:
        cls_or_kind = what.split('.')[0] if '.' in what else {'dec': 'dec', 'hp2': 'hp', 'gon': 'gon'}[what[:3]]
        try:
            if cls_or_kind in ('dec', 'DECAngle'):
                val, t = (A.DECAngle(v) if '.' in what else v), F(v)
            elif cls_or_kind in ('hp', 'HPAngle'):
                deg, mm, ss = _fields13(v)
                if mm >= 60 or ss >= 60 * 10 ** 9 or abs(v) >= 512:
                    continue
                val, t = (A.HPAngle(v) if '.' in what else v), _angle(deg, mm, ss) * (-1 if v < 0 else 1)
            elif cls_or_kind in ('gon', 'GONAngle'):
                val, t = (A.GONAngle(v) if '.' in what else v), F(v) * F(9, 10)
            elif cls_or_kind == 'DMSAngle':
                d, m, s = int(f('d', 12)), int(f('m', 34)), f('s', abs(v) % 60)
                val, t = A.DMSAngle(d, m, s, positive=positive), (F(d) + F(m, 60) + F(s) / 3600) * (1 if positive else -1)
            else:
                d, m = int(f('d', 12)), f('mm', abs(v) % 60)
                val, t = A.DDMAngle(d, m, positive=positive), (F(d) + F(m) / 60) * (1 if positive else -1)
            r = getattr(val, what.split('.')[1])() if '.' in what else getattr(A, what)(val)
        except Exception as ex:  # noqa
            msgs.append('%s on %r raised %r' % (what, v, ex))
            continue
        tk = what.split('.')[1] if '.' in what else WR[what]
        if abs(t) >= 512 and tk in ('hp', 'hpa'):
            continue
        if tk == 'rad':
            got = mpmath.mpf(float(r)) * 180 / mpmath.pi
            bad = abs(got - mpmath.mpf(t.numerator) / t.denominator) > mpmath.mpf(10) ** -8 / 3600
        else:
            if tk in ('hp', 'hpa'):
                h = r.hp_angle if tk == 'hpa' else r
                deg, mm, ss = _fields13(h)
                got = _angle(deg, mm, ss) * (-1 if h < 0 else 1)
                bad = mm >= 60 or ss >= 60 * 10 ** 9
            elif tk in ('gon', 'gona'):
                got, bad = F(r.gon_angle if tk == 'gona' else r) * F(9, 10), False
            elif tk in ('dec', 'deca'):
                got, bad = F(float(r)), False
            elif tk == 'dms':
                got, bad = _dms_value(r) * (1 if r.positive else -1), False
            else:
                got, bad = _ddm_value(r) * (1 if r.positive else -1), False
            bad = bad or abs(got - t) > TOL
            exp_cls = {'deca': 'DECAngle', 'hpa': 'HPAngle', 'gona': 'GONAngle', 'dms': 'DMSAngle', 'ddm': 'DDMAngle'}.get(tk)
            if exp_cls and type(r).__name__ != exp_cls:
                bad = True
        if bad:
            msgs.append('%s on %r = %r does not denote the same angle within 1e-8 arc-seconds (or is of the wrong kind)' % (what, val, r))
    return bool(msgs), '; '.join(msgs[:3]) or '%s ok' % what


WR = {'dec2hpa': 'hpa', 'dec2gona': 'gona', 'hp2deca': 'deca', 'hp2rad': 'rad', 'hp2gon': 'gon', 'hp2gona': 'gona', 'hp2dms': 'dms', 'hp2ddm': 'ddm',
      'gon2deca': 'deca', 'gon2hp': 'hp', 'gon2hpa': 'hpa', 'gon2rad': 'rad', 'gon2dms': 'dms', 'gon2ddm': 'ddm'}
