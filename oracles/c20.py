"""Replay oracle for C20: real Flask test client vs direct library calls."""
import json
from oracles.c06 import _f

INV = [(-37.57037203, 144.25295244, -37.39101561, 143.55353839), (0.0, 0.0, 10.3, 20.45), (-10.1015, 0.0, 0.0, 100.2030), (12.3, 45.1, -12.3, -45.1),
       (0.0, 10.0, 0.0, 20.0)]
DIR = [(-37.57037203, 144.25295244, 306.52053730, 54972.271), (0.0, 0.0, 45.3, 100000.0), (10.2030, 0.0, 0.0, 5000.0), (-33.3, -70.4, 200.1530, 0.0)]


def route(a):
    import api.app as app
    from geodepy.geodesy import vincinv, vincdir
    from geodepy.angles import hp2dec, dec2hp
    env = a.get('env', {})
    c = app.app.test_client()
    msgs = []
    for rt, cases, keys in (('vincinv', INV, ('lat1', 'lon1', 'lat2', 'lon2')), ('vincdir', DIR, ('lat1', 'lon1', 'azimuth1to2', 'ell_dist'))):
        cs = list(cases)
        if a.get('route') == rt and all(k in env for k in keys):
            cs.insert(0, tuple(_f(env[k]) for k in keys))
        cs.append(tuple(0.0 for _ in keys) if rt == 'vincinv' else (0.0, 0.0, 0.0, 1000.0))
        for ft in (None, 'dd', 'dms'):
            for tt in (None, 'dd', 'dms'):
                for vals in cs:
                    q = {k: repr(v) for k, v in zip(keys, vals)}
                    if ft:
                        q['from_angle_type'] = ft
                    if tt:
                        q['to_angle_type'] = tt
                    try:
                        r = c.get('/' + rt, query_string=q)
                    except Exception as ex:  # noqa
                        msgs.append('/%s %r raised %r' % (rt, q, ex))
                        continue
                    try:
                        nang = 4 if rt == 'vincinv' else 3
                        ins = [hp2dec(v) if (ft == 'dms' and i < nang) else v for i, v in enumerate(vals)]
                        lib = vincinv(*ins) if rt == 'vincinv' else vincdir(*ins)
                    except Exception:  # noqa  (library itself rejects the input, e.g. invalid HP)
                        continue
                    if r.status_code != 200:
                        msgs.append('/%s %r -> status %s' % (rt, q, r.status_code))
                        continue
                    body = json.loads(r.data)
                    conv = (lambda x: dec2hp(x)) if tt == 'dms' else (lambda x: x)
                    if rt == 'vincinv':
                        exp = {'ell_dist': lib[0], 'azimuth1to2': conv(lib[1]), 'azimuth2to1': conv(lib[2])}
                    else:
                        exp = {'lat2': conv(lib[0]), 'lon2': conv(lib[1]), 'azimuth2to1': conv(lib[2])}
                    if body != json.loads(json.dumps(exp)):
                        msgs.append('/%s %r returned %r, library gives %r' % (rt, q, body, exp))
    return bool(msgs), '; '.join(msgs[:2]) if msgs else 'API returns exactly the library values'


def index(a):
    import api.app as app
    c = app.app.test_client()
    r = c.get('/')
    body = r.data.decode()
    rules = [x.rule for x in app.app.url_map.iter_rules() if x.endpoint != 'static']
    bad = [x for x in rules if x not in body]
    return bool(bad) or r.status_code != 200, 'index route misses %s' % bad
