"""Replay oracles for C19 (un-instrumented geodepy.survey / convert vs definitions)."""
import math
import mpmath as mp
from oracles.c06 import _f

mp.mp.dps = 30


def joins(a):
    from geodepy.survey import joins as J, radiations
    env = a.get('env', {})
    pts = [(_f(env.get('e1'), 0.0), _f(env.get('n1'), 0.0), _f(env.get('e2'), 3.0), _f(env.get('n2'), 4.0))]
    for de, dn in ((0.0, 5.0), (5.0, 0.0), (0.0, -5.0), (-5.0, 0.0), (3.0, 4.0), (-3.0, 4.0), (-3.0, -4.0), (3.0, -4.0), (1e7, -1e7), (1e-3, 2e-3)):
        pts.append((1000.0, -2000.0, 1000.0 + de, -2000.0 + dn))
    msgs = []
    for e1, n1, e2, n2 in pts:
        try:
            d, b = J(e1, n1, e2, n2)
        except Exception as ex:  # noqa
            msgs.append('joins raised %r' % (ex,))
            continue
        tr = math.hypot(e2 - e1, n2 - n1)
        if abs(d - tr) > 1e-9 * max(tr, 1):
            msgs.append('distance %r vs %r' % (d, tr))
        if not (0 <= b < 360):
            msgs.append('bearing %r outside [0, 360) for offset (%r, %r)' % (b, e2 - e1, n2 - n1))
        if tr > 0:
            tb = math.degrees(math.atan2(e2 - e1, n2 - n1)) % 360
            if min(abs(b - tb), 360 - abs(b - tb)) > 1e-9:
                msgs.append('bearing %r, expected %r' % (b, tb))
            r = radiations(e1, n1, b, d)
            if math.hypot(r[0] - e2, r[1] - n2) > 1e-9 * max(tr, 1):
                msgs.append('radiations(joins) misses the second point by %.3e' % math.hypot(r[0] - e2, r[1] - n2))
            rot, k = _f(env.get('rot'), 90.0), _f(env.get('k'), 2.0)
            r2 = radiations(e1, n1, b, d, rot, k)
            ex = (e1 + k * d * math.sin(math.radians(b + rot)), n1 + k * d * math.cos(math.radians(b + rot)))
            if math.hypot(r2[0] - ex[0], r2[1] - ex[1]) > 1e-8 * max(tr, 1):
                msgs.append('rotation/scale arguments: got %r expected %r' % (r2, ex))
    return bool(msgs), '; '.join(msgs[:3]) if msgs else 'joins and radiations are inverse'


def vaconv(a):
    from geodepy.survey import va_conv
    env = a.get('env', {})
    msgs = []
    cases = [(_f(env.get('za'), 88.0), _f(env.get('sd'), 100.0), _f(env.get('hi'), 1.5), _f(env.get('ht'), 1.7))]
    cases += [(1.0, 50.0, 0.0, 0.0), (91.5, 1234.567, 1.6, 1.4), (179.0, 0.1, -5.0, 5.0), (181.0, 5e4, 5.0, -5.0), (268.5, 77.0, 1.0, 1.0), (359.0, 10.0, 0.0, 0.0)]
    for za, sd, hi, ht in cases:
        if za in (0, 180) or not 0 < za < 360:
            continue
        try:
            va, sp, hz, dh = va_conv(za, sd, hi, ht)
            va0, sp0, hz0, dh0 = va_conv(za, sd)
        except Exception as ex:  # noqa
            msgs.append('va_conv(%r) raised %r' % (za, ex))
            continue
        raw = dh - hi + ht
        if abs(hz * hz + raw * raw - sd * sd) > 1e-9 * sd * sd:
            msgs.append('Pythagoras violated at zenith %r: hz %r dh %r slope %r' % (za, hz, raw, sd))
        if abs(hz - hz0) > 1e-12 * max(1, abs(hz)) or abs(dh - (dh0 + hi - ht)) > 1e-9:
            msgs.append('heights change more than the height difference at %r' % za)
    for bad in (0, 180, 360, -10, 400):
        try:
            va_conv(bad, 100.0)
            msgs.append('zenith %r accepted' % bad)
        except ValueError:
            pass
    return bool(msgs), '; '.join(msgs[:3]) if msgs else 'va_conv consistent'


def atmosphere(a):
    from geodepy import survey as sv
    env = a.get('env', {})
    msgs = []
    base = {'d': 1000.0, 'c': 281.0, 'dd': 79.0, 't': 15.0, 'p': 1013.25, 'h': 50.0, 'tw': 10.0, 'xc': 420.0, 'wl': 0.85}
    cases = [dict(base, **{k: _f(v) for k, v in env.items() if k in base})]
    for t in (-20.0, 0.0, 45.0):
        for h in (0.0, 100.0):
            for p in (650.0, 1100.0):
                cases.append(dict(base, t=t, h=h, p=p, tw=min(t, 0.0)))
    cases += [dict(base, xc=300.0), dict(base, xc=600.0, wl=0.532)]
    for v in cases:
        try:
            r = [sv.first_vel_corrn(v['d'], (v['c'], v['dd']), v['t'], v['p'], v['h']),
                 sv.first_vel_corrn(v['d'], (v['c'], v['dd']), v['t'], v['p'], None, v['tw']),
                 sv.first_vel_corrn(v['d'], (v['c'], v['dd']), v['t'], v['p'], v['h'], None, v['xc'], v['wl'])]
            r1 = [sv.first_vel_corrn(1.0, (v['c'], v['dd']), v['t'], v['p'], v['h']),
                  sv.first_vel_corrn(1.0, (v['c'], v['dd']), v['t'], v['p'], None, v['tw']),
                  sv.first_vel_corrn(1.0, (v['c'], v['dd']), v['t'], v['p'], v['h'], None, v['xc'], v['wl'])]
        except Exception as ex:  # noqa
            msgs.append('first_vel_corrn raised %s: %s for T=%r H=%r' % (type(ex).__name__, ex, v['t'], v['h']))
            continue
        for x, y in zip(r, r1):
            if abs(x - v['d'] * y) > 1e-12 * max(1, abs(x)):
                msgs.append('correction not proportional to the distance')
        # vapour pressure, Rueger 5.27 / 5.29
        Ew = lambda tw: (1.0007 + 3.46e-6 * v['p']) * 6.1121 * math.exp(17.502 * tw / (240.94 + tw))
        e1 = sv.part_h2o_vap_press(v['t'], v['p'], v['h'])
        e2 = sv.part_h2o_vap_press(v['t'], v['p'], None, v['tw'])
        if abs(e1 - Ew(v['t']) * v['h'] / 100) > 1e-9 or abs(e2 - (Ew(v['tw']) - 0.000662 * v['p'] * (v['t'] - v['tw']))) > 1e-9:
            msgs.append('vapour pressure at T=%r H=%r Tw=%r: %r / %r, Rueger: %r / %r' % (v['t'], v['h'], v['tw'], e1, e2, Ew(v['t']) * v['h'] / 100,
                                                                                          Ew(v['tw']) - 0.000662 * v['p'] * (v['t'] - v['tw'])))
        e = sv.humidity2part_water_vapour_press(v['h'], v['t'])
        ng = 1 + sv.group_refractivity(v['wl'], v['t'], v['p'], e, v['xc']) / 1e8
        exp = ((1 + v['c'] / 1e6) / ng - 1) * v['d']
        if abs(r[2] - exp) > 1e-12 * max(1, abs(exp)):
            msgs.append('CO2-aware correction %r is not (n_ref/n_g - 1) d = %r' % (r[2], exp))
    # one atmosphere, several carrier wavelengths one after the other (both orders, two atmospheres): every call is its own closed form
    for atm, wls in (((15.0, 1013.25, 50.0, 420.0), (0.85, 0.633, 0.85, 1.55)), ((31.5, 905.0, 12.0, 380.0), (0.532, 0.91, 0.532))):
        t, p_, h, xc = atm
        for wl in wls:
            try:
                got = sv.first_vel_corrn(5000.0, (281.0, 79.0), t, p_, h, None, xc, wl)
            except Exception as ex:  # noqa
                msgs.append('first_vel_corrn raised %s: %s' % (type(ex).__name__, ex))
                continue
            e = sv.humidity2part_water_vapour_press(h, t)
            ng = 1 + sv.group_refractivity(wl, t, p_, e, xc) / 1e8
            exp = ((1 + 281.0 / 1e6) / ng - 1) * 5000.0
            if abs(got - exp) > 1e-12 * max(1, abs(exp)):
                msgs.append('CO2-aware correction for wavelength %r after other wavelengths in the same atmosphere is %r, (n_ref/n_g - 1) d = %r' % (wl, got, exp))
    c, d = sv.first_vel_params(0.85, None, 1.000281)
    if abs(c - 281.0) > 1e-6 or abs(d - 273.15 / 1013.25 * (287.6155 + 4.8866 / 0.85 ** 2 + 0.068 / 0.85 ** 4)) > 1e-9:
        msgs.append('first_vel_params %r %r' % (c, d))
    return bool(msgs), '; '.join(msgs[:3]) if msgs else 'atmospheric correction consistent'


def dispersion(a):
    from geodepy import survey as sv
    env = a.get('env', {})
    msgs = []
    base = {'wl': 0.85, 't': 15.0, 'p': 1013.25, 'e': 10.0, 'xc': 420.0}
    cases = [dict(base, **{k: _f(v) for k, v in env.items() if k in base})]
    for wl in (0.4, 0.6328, 1.6):
        for t in (-20.0, 0.0, 45.0):
            cases.append(dict(base, wl=wl, t=t, e=0.0 if t < 0 else 25.0, p=650.0 if wl < 1 else 1100.0, xc=300.0 if t else 600.0))
    for v in cases:
        g = sv.group_refractivity(v['wl'], v['t'], v['p'], v['e'], v['xc'])
        f = lambda s: mp.mpf(sv.phase_refractivity(float(1 / s), v['t'], v['p'], v['e'], v['xc']))
        s0 = 1 / mp.mpf(v['wl'])
        h = mp.mpf('1e-4')
        der = (f(s0 - 2 * h) - 8 * f(s0 - h) + 8 * f(s0 + h) - f(s0 + 2 * h)) / (12 * h)
        ref = f(s0) + s0 * der
        if abs(mp.mpf(g) - ref) > 1e-6 * abs(ref):
            msgs.append('group refractivity %r vs phase + sigma d/dsigma = %s at %r' % (g, mp.nstr(ref, 12), v))
    return bool(msgs), '; '.join(msgs[:2]) if msgs else 'dispersion relation holds'


def bearing_ieee(a):
    """a double theta = +-m * 2^(E-52) as the atan2 result: find plane coordinates whose atan2 is that double and check the bearing
    of the real joins / rect2polar"""
    import math
    from fractions import Fraction as F
    from geodepy.convert import rect2polar
    from geodepy.survey import joins
    th = float(F(int(a['m'])) * F(2) ** (int(a['E']) - 52)) * (-1 if a.get('neg') else 1)
    msgs = []
    for y in (1.0, 1e7, 6378137.0):
        x = math.tan(th) * y if abs(th) < 1.5 else math.sin(th) * y
        yy = y if abs(th) < 1.5 else math.cos(th) * y
        for fn, got in (('rect2polar(%r, %r)' % (x, yy), rect2polar(x, yy)[1]), ('joins(0, 0, %r, %r)' % (x, yy), joins(0.0, 0.0, x, yy)[1])):
            if not (0 <= got < 360):
                msgs.append('%s: bearing %r is not in [0, 360)' % (fn, got))
    return bool(msgs), '; '.join(msgs[:2]) or 'bearing in range for theta=%r' % th


def vapour(a):
    """humidity2part_water_vapour_press against the definition (Giacomo 1982 saturation vapour pressure), incl. very dry air"""
    import mpmath as mp
    from geodepy import survey as sv
    env = a.get('env', {})
    msgs = []
    pts = [(_f(env.get('h'), 50.0), _f(env.get('t'), 20.0))] + [(h, t) for h in (0.0, 0.01, 0.5, 1.0, 1.5, 37.0, 100.0) for t in (-20.0, 0.0, 20.0, 45.0)]
    for h, t in pts:
        tk = mp.mpf(t) + mp.mpf('273.15')
        svp = mp.exp(mp.mpf('1.2378847e-5') * tk * tk + mp.mpf('-1.9121316e-2') * tk + mp.mpf('33.93711047') + mp.mpf('-6.3431645e3') / tk)
        exp = mp.mpf(h) / 100 * svp / 100
        got = sv.humidity2part_water_vapour_press(h, t)
        if abs(mp.mpf(got) - exp) > mp.mpf('1e-9') * max(1, abs(exp)):
            msgs.append('humidity2part_water_vapour_press(%r %%, %r C) = %r hPa, definition gives %s' % (h, t, got, mp.nstr(exp, 12)))
    return bool(msgs), '; '.join(msgs[:3]) if msgs else 'vapour pressure follows the definition'
