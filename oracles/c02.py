"""Replay oracles for C02 (un-instrumented geodepy vs the exact-TM quadrature oracle)."""
import importlib.util
import os
import mpmath as mp
from oracles import tm_exact as T
from oracles.c06 import _f
from oracles.c01 import build, cm_of

REPO = os.environ.get('VERIF_REPLAY_REPO', '/repo')


def _pts(env, prj, zones):
    pts = []
    for zone in zones:
        pts.append((zone, _f(env.get('east'), 400000.0), _f(env.get('north'), 6000000.0)))
        for de in (-2800000.0, -1500000.0, -200000.0, 0.0, 0.001, 150000.0, 2500000.0, 3300000.0):
            for n in (1.0, 400000.0, 2500000.0, 5000000.0, 7300000.0, 9300000.0, 9999999.0, 0.0, float(prj.falsenorth)):      # incl. the equator exactly
                pts.append((zone, prj.falseeast + de, n))
    return pts


def inverse_env(a):
    import geodepy.constants as gc
    from geodepy.convert import grid2geo, geo2grid
    env, case = a.get('env', {}), a['case']
    ell, prj = build(env, case)
    isg = prj is gc.isg
    hemi = case[3]
    south = hemi.lower() == 'south'
    o = T.oracle(ell.semimaj, ell.inversef)
    zones = [int(case[2])] if case[2] != 'sym' else sorted({int(_f(env.get('zone'), 31)), 1, 31, 60})
    msgs, worst, worst_rt, n = [], 0, 0, 0
    for zone, e, nn in _pts(env, prj, zones):
        if not (-2830000 <= e <= 3830000 and 0 <= nn <= 10000000):
            continue
        x = (mp.mpf(e) - mp.mpf(prj.falseeast))
        y = (mp.mpf(nn) - mp.mpf(prj.falsenorth)) if south else mp.mpf(nn)
        try:
            elat, edl = T.inverse(o, x, y, prj.cmscale)
        except Exception:  # noqa
            continue
        cm = cm_of(prj, zone, isg)
        elon = edl + cm
        if not (-80 + 1e-6 <= elat <= 84 - 1e-6) or abs(edl) > 30 or not (-180 <= elon <= 180):
            continue
        n += 1
        try:
            lat, lon, psf, gconv = grid2geo(zone, e, nn, hemi, ell, prj)
        except Exception as ex:  # noqa
            msgs.append('grid2geo(%r, %r, %r, %r) raised %s: %s' % (zone, e, nn, hemi, type(ex).__name__, ex))
            continue
        d = max(abs(mp.mpf(lat) - elat), abs(mp.mpf(lon) - elon))
        if d > worst:
            worst, where = d, (zone, e, nn)
        try:
            h2, z2, e2, n2, _, _ = geo2grid(lat, lon, zone, ell, prj)
            if h2.lower() == hemi.lower():
                rt = max(abs(e2 - e), abs(n2 - nn))
                if rt > worst_rt:
                    worst_rt, where_rt = rt, (zone, e, nn)
        except ValueError:
            pass
    if worst > 2e-9:
        msgs.append('grid2geo differs from the exact inverse projection by %.3e deg at (zone, E, N) = %s' % (float(worst), where))
    if worst_rt > 2e-4:
        msgs.append('grid -> geographic -> grid does not close: %.3e m at %s' % (worst_rt, where_rt))
    return bool(msgs), '; '.join(msgs[:3]) if msgs else 'max deviation %.2e deg, closure %.2e m over %d points' % (float(worst), worst_rt, n)


def mirror(a):
    from geodepy.convert import grid2geo
    env = a.get('env', {})
    worst = 0
    for zone in (int(_f(env.get('zone'), 31)), 55):
        for e in (_f(env.get('east'), 400000.0), 200000.0, 500000.0, 2000000.0):
            for n in (_f(env.get('north'), 3000000.0), 1.0, 1234567.891, 8000000.0):
                try:
                    la1, lo1, _, _ = grid2geo(zone, e, n, 'north')
                    la2, lo2, _, _ = grid2geo(zone, e, 10000000 - n, 'south')
                except ValueError:
                    continue
                worst = max(worst, abs(la1 + la2), abs(lo1 - lo2))
    return worst > 2e-11, 'mirror-image grid coordinates: latitudes/longitudes differ by %.3e deg' % worst


def validation(a):
    from geodepy.convert import grid2geo
    bad = []
    for args in ((31, -2830000.1, 5e6, 'south'), (31, 3830000.1, 5e6, 'south'), (31, 5e5, -0.1, 'south'), (31, 5e5, 10000000.1, 'north'),
                 (61, 5e5, 5e6, 'south'), (-1, 5e5, 5e6, 'south'), (31, 5e5, 5e6, 'east')):
        try:
            grid2geo(*args)
            bad.append(args)
        except ValueError:
            pass
    return bool(bad), 'accepted invalid input %s' % bad


def _standalone():
    path = os.path.join(REPO, 'Standalone', 'mga2gda.py')
    spec = importlib.util.spec_from_file_location('mga2gda_replay', path)
    m = importlib.util.module_from_spec(spec)
    spec.loader.exec_module(m)
    return m


def standalone(a):
    from geodepy.convert import grid2geo
    m = _standalone()
    worst, where = 0, None
    env = a.get('env', {})
    pts = [(int(_f(env.get('zone'), 55)), _f(env.get('east'), 500000.0), _f(env.get('north'), 6000000.0))]
    for zone in (46, 50, 55, 59):
        for e in (100000.0, 232681.853, 500000.0, 899999.0, -1200000.0, 2600000.0, -2830000.0, 3830000.0, -2000000.0, 3000000.0):
            for n in (1100000.0, 3456789.123, 5828259.038, 7654321.0, 9500000.0):
                pts.append((zone, e, n))
    for zone, e, n in pts:
        if True:
            if True:
                try:
                    lat, lon, _, _ = grid2geo(zone, e, n, 'south')
                except ValueError:
                    continue
                if not -80 < lat < 0:
                    continue
                sl, so = m.grid2geo(zone, e, n)
                d = max(abs(sl - lat), abs(so - lon))
                if d > worst:
                    worst, where = d, (zone, e, n)
    return worst > 1e-10 + 1e-11, 'stand-alone converter differs from the library by %.3e deg at %s' % (worst, where)


def closure_geo(a):
    """geographic -> grid -> geographic on a sweep of the band (UTM and a second ellipsoid)"""
    import geodepy.constants as gc
    from geodepy.convert import grid2geo, geo2grid
    worst_lat = worst_lon = 0
    where = None
    for ell in (gc.grs80, gc.intl24):
        for i in range(0, 1641):
            lat = -80 + i * 0.1
            if lat > 84:
                break
            for dl in (-2.9, 0.37, 2.2):
                lon = 147.0 + dl
                h, z, e, n, _, _ = geo2grid(lat, lon, 0, ell)
                la, lo, _, _ = grid2geo(z, e, n, h, ell)
                if abs(la - lat) > worst_lat:
                    worst_lat = abs(la - lat)
                if abs(lo - lon) > worst_lon:
                    worst_lon, where = abs(lo - lon), (lat, lon)
    bad = worst_lat > 2e-9 or worst_lon > 2e-9
    return bad, 'geographic -> grid -> geographic: latitude closes to %.2e deg, longitude to %.2e deg (at %s); tolerance 2e-9' % (
        worst_lat, worst_lon, where)


def closure_grid(a):
    from geodepy.convert import grid2geo, geo2grid
    worst = 0
    for e in (100000.0, 350000.123, 500000.0, 812345.678):
        for n in (1200000.0, 4000000.5, 6543210.9, 9000000.0):
            la, lo, _, _ = grid2geo(55, e, n, 'south')
            h, z, e2, n2, _, _ = geo2grid(la, lo, 55)
            worst = max(worst, abs(e2 - e), abs(n2 - n))
    return worst > 2e-4, 'grid -> geographic -> grid closes to %.2e m' % worst
