"""Replay oracles for C01 (un-instrumented geodepy vs the exact-TM quadrature oracle)."""
import math
import mpmath as mp
from oracles import tm_exact as T
from oracles.c06 import _f

ISG_ZONES = (541, 542, 543, 551, 552, 553, 561, 562, 563, 572)


def build(env, case):
    import geodepy.constants as gc
    ell_kind, prj_kind = case[0], case[1]
    if ell_kind == 'sym':
        ell = gc.Ellipsoid(_f(env.get('a'), 6378137.0), _f(env.get('invf'), 298.257222101))
    else:
        ell = getattr(gc, ell_kind)
    if prj_kind == 'sym' or isinstance(prj_kind, (list, tuple)):
        zw = float(prj_kind[1]) if isinstance(prj_kind, (list, tuple)) else _f(env.get('zw'), 6.0)
        prj = gc.Projection(_f(env.get('FE'), 500000.0), _f(env.get('FN'), 10000000.0), _f(env.get('k0'), 0.9996),
                            zw, _f(env.get('cm1'), -177.0))
    else:
        prj = getattr(gc, prj_kind)
    return ell, prj


def cm_of(prj, zone, isg):
    if isg:
        return (zone // 10 - 1) * 6 + prj.initialcm + (zone % 10 - 2) * 2
    return prj.initialcm + (zone - 1) * prj.zonewidth


def wrap(kind, v):
    import geodepy.angles as ga
    if kind == 'DECAngle':
        return ga.DECAngle(v)
    if kind == 'GONAngle':
        return ga.GONAngle(v * 10 / 9)
    return v


LATS = (-80.0, -37.5, -1e-7, 0.0, 1e-7, 12.0, 45.0, 84.0)


def forward_env(a):
    import geodepy.constants as gc
    from geodepy.convert import geo2grid
    env, case = a.get('env', {}), a['case']
    ell, prj = build(env, case)
    isg = prj is gc.isg
    zone_kind, argkind = case[2], case[3]
    o = T.oracle(ell.semimaj, ell.inversef)
    pts = []
    if zone_kind == 'auto':
        lons = [_f(env.get('lon'), 151.0)]
        if isg:
            lons += [141.0, 142.999999, 143.0, 147.0, 150.5, 153.49]
        else:
            z1 = prj.initialcm - prj.zonewidth / 2
            lons += [z1 + 1e-9, z1 + prj.zonewidth * 0.999999, z1 + prj.zonewidth, z1 + 7.3 * prj.zonewidth, prj.initialcm,
                     -180.0, -177.0, -174.0000001, 0.0, 6.0, 93.0, 179.999999]
        for lon in lons:
            if -180 <= lon < 180:
                for lat in (_f(env.get('lat'), -33.0),) + LATS:
                    pts.append((lat, lon, 0))
    else:
        zones = [int(_f(env.get('zone'), 31))] if zone_kind == 'sym' else [int(zone_kind)]
        if zone_kind == 'sym':
            zones += [1, 31, 60]
        for zone in zones:
            cm = cm_of(prj, zone, isg)
            cands = [(_f(env.get('lat'), -33.0), _f(env.get('lon'), cm + 1.0))]
            for lat in LATS:
                for dl in (-30.0, -3.0, -1e-6, 0.0, 2.9, 29.5):
                    cands.append((lat, cm + dl))
            for lat, lon in cands:
                if -180 <= lon <= 180 and abs(lon - cm) <= 30 and -80 <= lat <= 84:
                    pts.append((lat, lon, zone))
    msgs, worst = [], 0
    for lat, lon, zone in pts:
        try:
            h, z, e, n, psf, gconv = geo2grid(wrap(argkind, lat), wrap(argkind, lon), zone, ell, prj)
        except Exception as ex:  # noqa
            msgs.append('geo2grid(%r, %r, %r) raised %s: %s' % (lat, lon, zone, type(ex).__name__, ex))
            continue
        if zone and z != zone:
            msgs.append('explicit zone %r returned as %r' % (zone, z))
        cm = cm_of(prj, z, isg)
        if not zone:
            half = 1.0 if isg else prj.zonewidth / 2
            if abs(lon - cm) > half + 1e-9 or (prj is gc.utm and not 1 <= z <= 60):
                msgs.append('automatic zone %r for lon %r: central meridian %r not within half a zone width' % (z, lon, cm))
                continue
        x, y = T.forward(o, lat, lon - cm, prj.cmscale)
        south = (lat < 0)
        if lat != 0 and ((h == 'South') != south):
            msgs.append('hemisphere label %r at latitude %r' % (h, lat))
            continue
        fn = prj.falsenorth if h == 'South' else 0
        tol_fp = 0 if argkind != 'GONAngle' else 3e-7
        d = max(abs(mp.mpf(e) - (x + prj.falseeast)), abs(mp.mpf(n) - (y + fn))) - tol_fp
        if d > worst:
            worst = d
            where = (lat, lon, z)
    if worst > 2e-4:
        msgs.append('geo2grid differs from the exact projection by %.3e m at (lat, lon, zone) = %s' % (float(worst), where))
    return bool(msgs), '; '.join(msgs[:3]) if msgs else 'max deviation %.2e m over %d points' % (float(worst), len(pts))


def coeffs(a):
    """alpha coefficients / rectifying radius against power-series values computed by quadrature: checked through the
    projection itself (amplified): 30 degrees off the central meridian on three ellipsoids"""
    import geodepy.constants as gc
    from geodepy.convert import geo2grid
    worst, where = 0, None
    for (sa, sf) in ((6378137.0, 298.257222101), (6378388.0, 297.0), (6300000.0, 150.0), (6400000.0, 400.0)):
        ell = gc.Ellipsoid(sa, sf)
        o = T.oracle(sa, sf)
        for lat in (-80.0, -20.0, 0.0, 8.0, 40.0, 84.0):
            for dl in (-30.0, -12.0, 0.0, 3.0, 29.9):
                h, z, e, n, psf, gconv = geo2grid(lat, 3.0 + dl, 31, ell)
                x, y = T.forward(o, lat, dl, 0.9996)
                fn = 10000000 if h == 'South' else 0
                d = max(abs(mp.mpf(e) - (x + 500000)), abs(mp.mpf(n) - (y + fn)))
                if d > worst:
                    worst, where = d, (sa, sf, lat, dl)
    # ellipsoids sharing 1/f but not the semi-major axis, used one after the other in this process (either order)
    for seq in (((6378160.0, 298.25), (6378145.0, 298.25)), ((6400000.0, 300.0), (6300000.0, 300.0), (6400000.0, 300.0))):
        for (sa, sf) in seq:
            ell = gc.Ellipsoid(sa, sf)
            o = T.oracle(sa, sf)
            for lat, dl in ((-35.0, 2.0), (60.0, -20.0)):
                h, z, e, n, psf, gconv = geo2grid(lat, 3.0 + dl, 31, ell)
                x, y = T.forward(o, lat, dl, 0.9996)
                fn = 10000000 if h == 'South' else 0
                d = max(abs(mp.mpf(e) - (x + 500000)), abs(mp.mpf(n) - (y + fn)))
                if d > worst:
                    worst, where = d, ('after another ellipsoid with the same 1/f', sa, sf, lat, dl)
    return worst > 2e-4, 'series coefficients: geo2grid deviates from the exact projection by %.3e m at %s' % (float(worst), where)


def validation(a):
    from geodepy.convert import geo2grid
    bad = []
    for args in ((-80.0001, 10.0, 0), (84.0001, 10.0, 0), (10.0, 180.0001, 0), (10.0, -180.0001, 0), (10.0, 10.0, 61), (10.0, 10.0, -1)):
        try:
            geo2grid(*args)
            bad.append(args)
        except ValueError:
            pass
    return bool(bad), 'accepted invalid input %s' % bad
