"""Replay oracles for C18: the un-instrumented geodepy.gnss (stub pandas) on generated SINEX files in a scratch directory."""
import datetime
import os
import shutil
import sys
import tempfile
import types

WORK = os.environ.get('VERIF_WORK', '/verif/.work')


def _gnss():
    if 'pandas' not in sys.modules:
        try:
            import pandas  # noqa
        except Exception:  # noqa
            sys.modules['pandas'] = types.ModuleType('pandas')
    import geodepy.gnss as gn
    return gn


class _cwd:
    def __enter__(self):
        os.makedirs(WORK, exist_ok=True)
        self.d = tempfile.mkdtemp(dir=WORK)
        self.old = os.getcwd()
        os.chdir(self.d)
        return self.d

    def __exit__(self, *a):
        os.chdir(self.old)
        shutil.rmtree(self.d, ignore_errors=True)


def _clock(y, yday, sec):
    base = datetime.datetime(y, 1, 1) + datetime.timedelta(days=yday - 1, seconds=sec)

    class C(datetime.datetime):
        @classmethod
        def now(cls, tz=None):
            return cls(base.year, base.month, base.day, base.hour, base.minute, base.second, base.microsecond)
    return C, base


def clock(a):
    gn = _gnss()
    msgs = []
    cases = [(int(a.get('year', 2024)), int(a.get('yday', 65)), float(a.get('sec', 0.0)))]
    cases += [(2024, 1, 0.0), (2024, 65, 999.0), (2025, 9, 9999.0), (2024, 366, 10000.0), (2031, 100, 43200.0), (2026, 200, 86399.0)]
    old = gn.datetime
    try:
        for y, d, s in cases:
            if d == 366 and not (y % 4 == 0):
                d = 365
            gn.datetime, base = _clock(y, d, s)
            t = gn.set_creation_time()
            exp = '%02d:%03d:%05d' % (y % 100, d, int(round(s)))
            if len(t) != 12 or t != exp:
                msgs.append('creation time at %s is %r (%d characters), expected %r' % (base.isoformat(), t, len(t), exp))
    finally:
        gn.datetime = old
    return bool(msgs), '; '.join(msgs[:3]) if msgs else 'creation time always YY:DDD:SSSSS'


def _run(fn_name, sh, clock_case, *args):
    from refs import sinex as SX
    gn = _gnss()
    text = SX.generate(sh)
    old = gn.datetime
    gn.datetime, base = _clock(*clock_case)
    try:
        with _cwd():
            with open('in.snx', 'w') as f:
                f.write(text)
            getattr(gn, fn_name)('in.snx', *args)
            with open('output.snx') as f:
                out = f.read()
    finally:
        gn.datetime = old
    ct = '%02d:%03d:%05d' % (clock_case[0] % 100, clock_case[1], clock_case[2])
    return text, out, ct


CLOCKS = [(2024, 65, 43200), (2024, 1, 0), (2025, 40, 999), (2024, 366, 86399)]


def remove_stations(a):
    from refs import sinex as SX
    sh = a['shape']
    msgs = []
    import itertools
    codes = SX.CODES[:sh['nstn']]
    subsets = [list(a.get('removed', []))] + [list(c) for k in range(0, sh['nstn']) for c in itertools.combinations(codes, k)]
    for ci, rem in enumerate(subsets):
        if len(rem) >= sh['nstn']:
            continue
        try:
            text, out, ct = _run('remove_stns_sinex', sh, CLOCKS[ci % len(CLOCKS)], list(rem))
        except Exception as ex:  # noqa
            msgs.append('remove_stns_sinex raised %s: %s' % (type(ex).__name__, ex))
            continue
        est, sub = SX.expected_after_removal(sh, set(rem))
        for pr in SX.check_output(out, sh, est, sub, ct, text.split('\n')[0]):
            msgs.append('removing %s: %s' % (rem, pr))
    return bool(msgs), '; '.join(sorted(set(msgs))[:3]) if msgs else 'station removal keeps exactly the remaining parameters'


def remove_velocity(a):
    from refs import sinex as SX
    sh = a['shape']
    msgs = []
    for cc in CLOCKS[:2]:
        try:
            text, out, ct = _run('remove_velocity_sinex', sh, cc)
        except BaseException as ex:  # noqa
            msgs.append('remove_velocity_sinex raised %s: %s' % (type(ex).__name__, ex))
            continue
        est, sub = SX.expected_after_velocity_removal(sh)
        msgs += SX.check_output(out, sh, est, sub, ct, text.split('\n')[0], vel_out=False)
    return bool(msgs), '; '.join(sorted(set(msgs))[:3]) if msgs else 'velocity removal keeps positions and their covariance'


def remove_zeros(a):
    from refs import sinex as SX
    sh = dict(a['shape'], zeros=True)
    msgs = []
    try:
        text, out, ct = _run('remove_matrixzeros_sinex', sh, CLOCKS[0])
    except Exception as ex:  # noqa
        return True, 'remove_matrixzeros_sinex raised %s: %s' % (type(ex).__name__, ex)
    r = SX.parse(out)
    msgs += r['problems']
    exp = []
    for ln in text.split('\n')[:-1]:
        c = ln.split()
        if ln.startswith(' ') and len(c) in (3, 4, 5) and c[0].isdigit() and c[1].isdigit() and 'e' in c[2] and all(x == '0.00000000000000e+00' for x in c[2:]):
            continue
        exp.append(ln)
    got = out.split('\n')
    if got and got[-1] == '':
        got = got[:-1]
    exp[0] = exp[0][:15] + ct + exp[0][27:]

    def nc(lines):
        o, inside = [], False
        for ln in lines:
            if ln.startswith('+FILE/COMMENT'):
                inside = True
                o.append(ln)
                continue
            if ln.startswith('-FILE/COMMENT'):
                inside = False
            if not inside:
                o.append(ln)
        return o
    got, exp = nc(got), nc(exp)
    if got != exp:
        k = next((i for i, (x, y) in enumerate(zip(got, exp)) if x != y), min(len(got), len(exp)))
        msgs.append('output differs from "every line except all-zero matrix lines" at line %d: %r' % (k, got[k][:80] if k < len(got) else None))
    return bool(msgs), '; '.join(msgs[:3]) if msgs else 'zero-line removal leaves every other line unchanged'


def readers(a):
    from refs import sinex as SX
    gn = _gnss()
    sh = a['shape']
    msgs = []
    with _cwd():
        with open('in.snx', 'w') as f:
            f.write(SX.generate(sh))
        est = gn.read_sinex_estimate('in.snx')
        mat = gn.read_sinex_matrix('in.snx')
        sites = gn.read_sinex_sites('in.snx')
    P, M = SX.params(sh), SX.matrix(sh)
    per = 6 if sh['vel'] else 3
    for i in range(sh['nstn']):
        ps = P[i * per:(i + 1) * per]
        vals = [float('%21.14e' % q[3]) for q in ps]
        sds = [float('%11.5e' % q[4]) for q in ps]
        exp = (ps[0][1], str(ps[0][2]), '24:060:43200') + tuple(vals[:3]) + tuple(sds[:3]) + ((tuple(vals[3:]) + tuple(sds[3:])) if sh['vel'] else ())
        if tuple(est[i]) != exp:
            msgs.append('read_sinex_estimate: %r, written %r' % (est[i], exp))
        b = i * per
        idx = [(0, 0), (0, 1), (0, 2), (1, 1), (1, 2), (2, 2)] if sh['tri'] == 'U' else [(0, 0), (1, 0), (1, 1), (2, 0), (2, 1), (2, 2)]
        expm = [float('%21.14e' % M[b + r][b + c]) for r, c in idx]
        if sh['vel']:
            expm += [float('%21.14e' % M[b + 3 + r][b + 3 + c]) for r, c in idx]
        if [float(x) for x in mat[i][2:]] != expm:
            msgs.append('read_sinex_matrix: %r, written %r' % (mat[i][2:], expm))
        code, lon, lat, h = SX.site_truth(sh)[i]
        s = sites[i]
        if s[0] != code or (s[5].degree, s[5].minute, s[5].second, s[5].positive) != (lon[0], lon[1], lon[2], not lon[3]) or \
                (s[6].degree, s[6].minute, s[6].second, s[6].positive) != (lat[0], lat[1], lat[2], not lat[3]) or s[7] != h:
            msgs.append('read_sinex_sites: %r, written %r' % (s, (code, lon, lat, h)))
    return bool(msgs), '; '.join(msgs[:2]) if msgs else 'readers return the written values'
