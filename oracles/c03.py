"""Replay oracles for C03 (un-instrumented geodepy vs closed forms in 40-digit arithmetic)."""
import mpmath
from fractions import Fraction as F
from oracles.c06 import mp, _f

mpmath.mp.dps = 40


def ell_def(a, invf):
    a, invf = mp(a), mp(invf)
    f = 1 / invf
    e2 = f * (2 - f)
    return {'semimaj': a, 'inversef': invf, 'f': f, 'semimin': a * (1 - f), 'ecc1sq': e2, 'ecc2sq': e2 / (1 - e2),
            'ecc1': mpmath.sqrt(e2), 'n': f / (2 - f)}


def closed_llh2xyz(a, invf, lat, lon, h):
    d = ell_def(a, invf)
    la, lo = mpmath.radians(mp(lat)), mpmath.radians(mp(lon))
    N = d['semimaj'] / mpmath.sqrt(1 - d['ecc1sq'] * mpmath.sin(la) ** 2)
    h = mp(h)
    return ((N + h) * mpmath.cos(la) * mpmath.cos(lo), (N + h) * mpmath.cos(la) * mpmath.sin(lo),
            (N * (1 - d['ecc1sq']) + h) * mpmath.sin(la))


def _ell(env):
    import geodepy.constants as gc
    a, invf = _f(env.get('a'), 6378137.0), _f(env.get('invf'), 298.257222101)
    return a, invf, gc.Ellipsoid(a, invf)


def ellipsoid_attr(a):
    av, invf, e = _ell(a.get('env', {}))
    d = ell_def(av, invf)
    k = a['attr']
    got = mp(getattr(e, k))
    bad = abs(got - d[k]) > abs(d[k]) * mp('1e-12')
    return bad, 'Ellipsoid(%r, %r).%s = %r, definition %s' % (av, invf, k, getattr(e, k), mpmath.nstr(d[k], 17))


def shipped_ellipsoid(a):
    import geodepy.constants as gc
    pub = {'grs80': (6378137, '298.257222101'), 'wgs84': (6378137, '298.257223563'), 'ans': (6378160, '298.25'), 'intl24': (6378388, '297')}
    e = getattr(gc, a['name'])
    pa, pf = pub[a['name']]
    bad = F(repr(float(e.semimaj))) != pa or F(repr(float(e.inversef))) != F(pf)
    return bad, '%s has a=%r 1/f=%r' % (a['name'], e.semimaj, e.inversef)


def _wrap(kind, v):
    import geodepy.angles as ga
    if kind == 'float':
        return v
    if kind == 'DECAngle':
        return ga.DECAngle(v)
    if kind == 'GONAngle':
        return ga.GONAngle(v * 10 / 9)
    if kind == 'DMSAngle':
        return ga.DMSAngle(0, 0, abs(v) * 3600, positive=(v >= 0))
    return ga.DDMAngle(0, abs(v) * 60, positive=(v >= 0))


def llh2xyz_env(a):
    from geodepy.convert import llh2xyz
    env = a.get('env', {})
    av, invf, e = _ell(env)
    kind = a.get('kind', 'float')
    cases = [(_f(env.get('lat'), 0.0), _f(env.get('lon'), 10.0), _f(env.get('h'), 100.0)), (0.0, 45.0, 0.0), (0.0, -170.0, 2500.0),
             (90.0, 12.0, 0.0), (-90.0, 0.0, 40000000.0), (-37.5, 144.9, -10000.0), (12.25, -359.5, 3.0)]
    worst, where = 0, None
    for lat, lon, h in cases:
        try:
            o = llh2xyz(_wrap(kind, lat), _wrap(kind, lon), h, e)
        except Exception as ex:  # noqa
            return True, 'llh2xyz raised %r at %r' % (ex, (lat, lon, h))
        r = closed_llh2xyz(av, invf, lat, lon, h)
        tol_fp = 0 if kind in ('float', 'DECAngle') else 3e-7      # notation conversion costs a few ulp of the angle
        d = max(abs(mp(o[i]) - r[i]) for i in range(3)) - tol_fp
        if d > worst:
            worst, where = d, (lat, lon, h)
    return worst > 1e-6, 'llh2xyz(%s args) on Ellipsoid(%r, %r): %.3e m from the closed form at %s' % (kind, av, invf, float(worst), where)


def xyz2llh_env(a):
    from geodepy.convert import xyz2llh
    env = a.get('env', {})
    av, invf, e = _ell(env)
    pts = []
    if 'x' in env:
        pts.append((_f(env.get('x')), _f(env.get('y')), _f(env.get('z'))))
    if pts:
        # keep the solver's point only if it lies in the property's domain (height in [-1e4, 4e7])
        x, y, z = pts[0]
        r = (mp(x) ** 2 + mp(y) ** 2 + mp(z) ** 2) ** 0.5
        if not (mp(av) * (1 - 1 / mp(invf)) - 10000 <= r <= mp(av) + 4e7) or x * x + y * y <= 1:
            pts = []
    for lat in (-89.9, -45.0, -1e-5, 0.0, 33.3, 60.0, 89.0, 89.999, 89.99999, -89.9999999, 90 - 1e-10):
        for h in (-10000.0, 0.0, 8848.0, 400000.0, 2000000.0, 20000000.0, 40000000.0):
            for lon in (-179.0, 10.0, 135.0):
                r = closed_llh2xyz(av, invf, lat, lon, h)
                pts.append(tuple(float(v) for v in r))
    worst, where, msgs = 0, None, []
    for (x, y, z) in pts:
        if x * x + y * y <= 1:
            continue
        try:
            lat, lon, h = xyz2llh(x, y, z, e)
        except Exception as ex:  # noqa
            return True, 'xyz2llh raised %r at %r' % (ex, (x, y, z))
        if not (-180 <= lon <= 180):
            msgs.append('longitude %r outside [-180, 180]' % lon)
        back = closed_llh2xyz(av, invf, lat, lon, h)
        d = max(abs(back[0] - mp(x)), abs(back[1] - mp(y)), abs(back[2] - mp(z)))
        if d > worst:
            worst, where = d, (x, y, z)
    if worst > 2e-5:
        msgs.append('xyz2llh result converts back %.3e m away from the input at %s' % (float(worst), where))
    return bool(msgs), '; '.join(msgs[:2]) if msgs else 'closure %.2e m' % float(worst)
