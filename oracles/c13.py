"""Replay oracles for C13 (un-instrumented geodepy): stepwise definition, round trip, heights, covariance."""
import numpy as np
from oracles.c06 import _f


def _stepwise(zone, e, n, h, vcv, fwd):
    from geodepy.convert import grid2geo, llh2xyz, xyz2llh, geo2grid
    from geodepy.transform import conform7
    from geodepy.statistics import vcv_local2cart, vcv_cart2local
    from geodepy.constants import gda94_to_gda2020
    T = gda94_to_gda2020 if fwd else -gda94_to_gda2020
    lat, lon, _, _ = grid2geo(zone, e, n)
    hin = 0 if h is False else h
    if vcv is not None and vcv.shape == (3, 1):
        vcv = np.diagflat(vcv)      # a column of variances denotes a diagonal covariance
    V1 = vcv_local2cart(vcv, lat, lon) if vcv is not None else None
    x, y, z = llh2xyz(lat, lon, hin)
    x2, y2, z2, V2 = conform7(x, y, z, T, V1)
    lat2, lon2, h2 = xyz2llh(x2, y2, z2)
    V3 = vcv_cart2local(V2, lat2, lon2) if V2 is not None else None
    hemi, z20, e20, n20, _, _ = geo2grid(lat2, lon2)
    return z20, e20, n20, (0 if h is False else round(h2, 4)), V3


def pipeline(a):
    from geodepy.transform import transform_mga94_to_mga2020 as f94, transform_mga2020_to_mga94 as f20
    env = a.get('env', {})
    msgs = []
    pts = [(int(_f(env.get('zone'), 55)), _f(env.get('east'), 500000.0), _f(env.get('north'), 6000000.0))]
    pts += [(55, 696053.337, 6086610.13), (50, 100000.0, 6500000.0), (56, 899999.0, 4000000.0), (46, 500000.0, 9400000.0), (59, 250000.0, 3400000.0)]
    hs = [_f(env.get('h'), 10.0), 0.0, 0, -100.0, 3000.0, False]
    A = np.array([[0.3, 0.1, 0.0], [0.0, 0.2, 0.1], [0.1, 0.0, 0.4]])
    vcvs = [None, A @ A.T * 1e-3, np.diag([1e-4, 2e-4, 0.0]), np.zeros((3, 3)), np.array([[1.0, 1.0, 0], [1.0, 1.0, 0], [0, 0, 0]]) * 1e-4,
            np.array([[1e-4], [2e-4], [3e-4]])]
    for fwd, fn, inv in ((True, f94, f20), (False, f20, f94)):
        for (zone, e, n) in pts:
            for h in hs:
                for V in vcvs:
                    args = (zone, e, n) + ((h,) if (h is not False or V is not None) else ()) + ((V,) if V is not None else ())
                    try:
                        r = fn(*args)
                    except Exception as ex:  # noqa
                        msgs.append('%s%r raised %s: %s' % (fn.__name__, (zone, e, n, h, 'vcv' if V is not None else None), type(ex).__name__, ex))
                        continue
                    ref = _stepwise(zone, e, n, h, V, fwd)
                    if tuple(r[:4]) != tuple(ref[:4]):
                        msgs.append('%s%r = %r differs from the stepwise definition %r' % (fn.__name__, (zone, e, n, h), r[:4], ref[:4]))
                    if (r[4] is None) != (ref[4] is None) or (r[4] is not None and not np.allclose(r[4], ref[4], rtol=1e-12, atol=0)):
                        msgs.append('%s: covariance differs from the stepwise definition (input %s)' % (fn.__name__, None if V is None else V.tolist()))
                    if r[4] is not None:
                        if not np.allclose(r[4], r[4].T, rtol=0, atol=1e-18) or np.linalg.eigvalsh((r[4] + r[4].T) / 2).min() < -1e-15:
                            msgs.append('%s: returned covariance not symmetric PSD' % fn.__name__)
                    if h is False and r[3] != 0:
                        msgs.append('%s without height returns height %r' % (fn.__name__, r[3]))
                    if V is None:
                        try:
                            b = inv(r[0], r[1], r[2], r[3]) if h is not False else inv(r[0], r[1], r[2])
                        except Exception as ex:  # noqa
                            msgs.append('%s raised %s: %s' % (inv.__name__, type(ex).__name__, ex))
                            continue
                        if b[0] == zone:
                            d = max(abs(b[1] - e), abs(b[2] - n))
                            if d > 3e-4:
                                msgs.append('%s then inverse: horizontal closure %.2e m at %r' % (fn.__name__, d, (zone, e, n)))
                            if h is not False and abs(b[3] - h) > 2e-4 + 1e-4:
                                msgs.append('%s then inverse: height closure %.2e m' % (fn.__name__, abs(b[3] - h)))
    return bool(msgs), '; '.join(sorted(set(msgs))[:3]) if msgs else 'transformations equal the stepwise definition and close'


def column(a):
    import geodepy.transform as tr
    fn = getattr(tr, a.get('fn', 'transform_mga94_to_mga2020'))
    col = np.array([[1e-4], [2e-4], [3e-4]])
    try:
        r = fn(55, 500000.0, 6000000.0, 10.0, col)
    except Exception as ex:  # noqa
        return True, '%s with a 3x1 variance column raises %s: %s' % (fn.__name__, type(ex).__name__, ex)
    if r[4] is None:
        return True, '%s with a 3x1 column returned %r' % (fn.__name__, r[4])
    msgs = []
    for c in (col, np.array([[1e-4], [2e-4], [9e-4]]), np.array([[4e-4], [4e-4], [4e-4]])):
        for args in ((55, 500000.0, 6000000.0, 10.0), (50, 250000.0, 7500000.0, 300.0)):
            ra = fn(*args, c)
            rb = fn(*args, np.diagflat(c))
            if np.shape(ra[4]) != (3, 3) or np.max(np.abs(np.array(ra[4], dtype=float) - np.array(rb[4], dtype=float))) > 1e-12:
                msgs.append('%s%r: variances %s as a 3x1 column give %s, as the diagonal matrix %s' % (
                    fn.__name__, args, c.ravel().tolist(), np.array(ra[4]).round(9).tolist(), np.array(rb[4]).round(9).tolist()))
    return bool(msgs), '; '.join(msgs[:2]) if msgs else '%s: 3x1 column equals the diagonal matrix' % fn.__name__
