"""Replay oracles for the two-ellipsoid call-sequence obligations of the conversion functions (C01, C02, C03).

The same inputs are converted first on one ellipsoid and then on another one in the same process (long-lived ellipsoid objects, or a new
short-lived object per call); the answers of the later calls are compared with the closed form / the exact projection of the ellipsoid
passed to THAT call. Then the other order, with other inputs (a value remembered from the first order would be stale there too)."""
import mpmath as mp
from oracles.c04 import _EllSpec, _seq_ells
from oracles.c06 import _f


def _orders(e1, e2, items):
    half = max(1, len(items) // 2)
    return ((e1, e2, items[:half]), (e2, e1, items[half:]))


def convert_sequence(a):
    from geodepy.convert import llh2xyz, xyz2llh, geo2grid, grid2geo
    from oracles.c03 import closed_llh2xyz
    from oracles import tm_exact as T
    env, what = a.get('env', {}), a['what']
    _EllSpec.temporaries = bool(a.get('temporaries'))
    e1, e2 = _seq_ells(env)
    msgs = []
    if what == 'llh2xyz':
        cases = [(-37.5, 144.9, 120.0), (0.0, 45.0, 0.0), (89.0, -12.0, 2500.0), (12.25, -59.5, 3.0), (-90.0, 0.0, 100.0), (45.0, 179.0, 20000.0)]
        if 'lat' in env:
            cases.insert(0, (_f(env.get('lat')), _f(env.get('lon'), 10.0), _f(env.get('h'), 100.0)))
        for first, second, cc in _orders(e1, e2, cases):
            for c in cc:
                llh2xyz(c[0], c[1], c[2], first.get())
            for c in cc:
                o = llh2xyz(c[0], c[1], c[2], second.get())
                r = closed_llh2xyz(second.semimaj, second.inversef, *c)
                d = max(abs(mp.mpf(o[i]) - r[i]) for i in range(3))
                if d > 1e-6:
                    msgs.append('llh2xyz%r on 1/f=%r after the same call on 1/f=%r is %.3e m from the closed form'
                                % (c, float(second.inversef), float(first.inversef), float(d)))
    elif what == 'xyz2llh':
        base = [(-37.5, 144.9, 120.0), (1e-5, 45.0, 0.0), (89.0, -12.0, 2500.0), (12.25, -59.5, 3.0), (-60.0, 0.0, 400000.0), (45.0, 179.0, 20000.0)]
        pts = [tuple(float(v) for v in closed_llh2xyz(6378137.0, 298.257222101, *c)) for c in base]
        if 'x' in env:
            p = (_f(env.get('x')), _f(env.get('y')), _f(env.get('z')))
            r = (p[0] ** 2 + p[1] ** 2 + p[2] ** 2) ** 0.5
            if 6.33e6 <= r <= 4.6e7 and p[0] ** 2 + p[1] ** 2 > 1:
                pts.insert(0, p)
        for first, second, cc in _orders(e1, e2, pts):
            for c in cc:
                xyz2llh(c[0], c[1], c[2], first.get())
            for c in cc:
                lat, lon, h = xyz2llh(c[0], c[1], c[2], second.get())
                back = closed_llh2xyz(second.semimaj, second.inversef, lat, lon, h)
                d = max(abs(back[i] - mp.mpf(c[i])) for i in range(3))
                if d > 2e-5:
                    msgs.append('xyz2llh%r on 1/f=%r after the same call on 1/f=%r converts back %.3e m away'
                                % (c, float(second.inversef), float(first.inversef), float(d)))
    elif what == 'geo2grid':
        import geodepy.constants as gc
        cases = [(-37.5, 144.9), (12.0, 9.5), (-79.0, -71.2), (60.0, 24.9), (0.5, 179.0), (83.0, -40.0)]
        if 'lat' in env and 'lon' in env:
            cases.insert(0, (_f(env.get('lat')), _f(env.get('lon'))))
        for first, second, cc in _orders(e1, e2, cases):
            o = T.oracle(second.semimaj, second.inversef)
            for c in cc:
                geo2grid(c[0], c[1], 0, first.get())
            for c in cc:
                h, z, e, n, psf, conv = geo2grid(c[0], c[1], 0, second.get())
                cm = gc.utm.initialcm + (z - 1) * gc.utm.zonewidth
                x, y = T.forward(o, c[0], c[1] - cm, gc.utm.cmscale)
                fn = gc.utm.falsenorth if h == 'South' else 0
                d = max(abs(mp.mpf(e) - (x + gc.utm.falseeast)), abs(mp.mpf(n) - (y + fn)))
                if d > 2e-4:
                    msgs.append('geo2grid%r on 1/f=%r after the same call on 1/f=%r is %.3e m from the exact projection'
                                % (c, float(second.inversef), float(first.inversef), float(d)))
    elif what == 'grid2geo':
        import geodepy.constants as gc
        cases = [(55, 321405.559, 5813614.161, 'South'), (33, 612345.678, 6123456.789, 'North'), (1, 500000.0, 1000.0, 'North'),
                 (60, 250000.25, 9000000.5, 'South'), (18, 700000.0, 2000000.0, 'North'), (31, 166021.0, 3000000.0, 'South')]
        if 'east' in env and 'north' in env:
            cases.insert(0, (int(_f(env.get('zone'), 31)), _f(env.get('east')), _f(env.get('north')), 'South'))
        for first, second, cc in _orders(e1, e2, cases):
            o = T.oracle(second.semimaj, second.inversef)
            for c in cc:
                try:
                    grid2geo(c[0], c[1], c[2], c[3], first.get())
                except ValueError:
                    pass
            for c in cc:
                try:
                    lat, lon, psf, conv = grid2geo(c[0], c[1], c[2], c[3], second.get())
                except ValueError:
                    continue
                y = (mp.mpf(c[2]) - mp.mpf(gc.utm.falsenorth)) if c[3] == 'South' else mp.mpf(c[2])
                try:
                    elat, edl = T.inverse(o, mp.mpf(c[1]) - mp.mpf(gc.utm.falseeast), y, gc.utm.cmscale)
                except Exception:  # noqa
                    continue
                cm = gc.utm.initialcm + (c[0] - 1) * gc.utm.zonewidth
                d = max(abs(mp.mpf(lat) - elat), abs(mp.mpf(lon) - (edl + cm)))
                if d > 4e-9:
                    msgs.append('grid2geo%r on 1/f=%r after the same call on 1/f=%r is %.3e deg from the exact inverse projection'
                                % (c, float(second.inversef), float(first.inversef), float(d)))
    else:
        return None, 'unknown sequence %r' % (what,)
    return bool(msgs), '; '.join(msgs[:3]) if msgs else '%s: the later ellipsoid of a call sequence gets its own result' % what


def argforms(a):
    """`what` called with its angle arguments as objects of one angle class = the call on the decimal-degree values (un-instrumented code)"""
    import geodepy.angles as A
    from geodepy import convert as cv
    what, cls = a['what'], a.get('cls')
    classes = [cls] if cls else ['HPAngle', 'GONAngle', 'DMSAngle', 'DDMAngle', 'DECAngle']
    mk = {'DECAngle': A.DECAngle, 'HPAngle': lambda v: A.HPAngle(A.dec2hp(v)), 'GONAngle': lambda v: A.GONAngle(A.dec2gon(v)), 'DMSAngle': A.dec2dms,
          'DDMAngle': A.dec2ddm}
    if what == 'geo2grid':
        fn = lambda v: cv.geo2grid(v[0], v[1], 0)
        cases = [(37.482667598, 144.581644114), (12.3456, 3.30), (45.30, 9.4530), (0.3, 0.45)]
        tol = 2e-4
    elif what == 'polar2rect':
        fn = lambda v: cv.polar2rect(1000.0, v[0])
        cases = [(45.30,), (123.4530,), (0.3030,), (299.5959,)]
        tol = 1e-6
    else:
        return None, 'unknown %r' % (what,)
    positions = a.get('positions')
    msgs = []
    for c in classes:
        for vals in cases:
            pos = positions if positions else list(range(len(vals)))
            args = list(vals)
            for k in pos:
                args[k] = mk[c](vals[k])
            decs = [x.dec() if hasattr(x, 'dec') else x for x in args]
            try:
                got = fn(args)
            except Exception as ex:  # noqa
                msgs.append('%s with %s arguments raised %s: %s' % (what, c, type(ex).__name__, ex))
                continue
            exp = fn(decs)
            for g, e in zip(got, exp):
                if isinstance(g, str) or isinstance(e, str):
                    bad = g != e
                else:
                    bad = abs(float(g) - float(e)) > tol
                if bad:
                    msgs.append('%s with %s arguments %r gives %r, with their decimal-degree values %r' % (what, c, tuple(vals), got, exp))
                    break
    return bool(msgs), '; '.join(msgs[:3]) if msgs else '%s: angle-class arguments give the result of their decimal values' % what
