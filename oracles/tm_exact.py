"""Independent exact transverse Mercator oracle (no Krueger polynomial): rectifying-minus-conformal latitude is
expanded in a Fourier sine series whose coefficients are obtained by numerical quadrature of the meridian arc and the
closed-form conformal latitude; the complex extension of that series is the exact TM (Lee / Karney). 30+ digits."""
import mpmath as mp

mp.mp.dps = 34
_CACHE = {}


def _mpf(x):
    from fractions import Fraction
    if isinstance(x, Fraction):
        return mp.mpf(x.numerator) / mp.mpf(x.denominator)
    if isinstance(x, float):
        return mp.mpf(repr(x))
    return mp.mpf(x)


def oracle(a, invf, J=14):
    a, invf = _mpf(a), _mpf(invf)
    key = (mp.nstr(a, 25), mp.nstr(invf, 25), J)
    if key in _CACHE:
        return _CACHE[key]
    f = 1 / invf
    e2 = f * (2 - f)
    e = mp.sqrt(e2)

    def M_quad(phi):
        return a * (1 - e2) * mp.quad(lambda t: (1 - e2 * mp.sin(t) ** 2) ** mp.mpf(-1.5), [0, phi])

    def M(phi):
        # meridian arc in closed form: a (E(phi | e^2) - e^2 sin phi cos phi / sqrt(1 - e^2 sin^2 phi)), E the incomplete elliptic
        # integral of the second kind (the quadrature of the definition, M_quad, is ~100 times slower; they are compared below)
        s_, c_ = mp.sin(phi), mp.cos(phi)
        return a * (mp.ellipe(phi, e2) - e2 * s_ * c_ / mp.sqrt(1 - e2 * s_ * s_))
    assert abs(M(mp.mpf(1)) - M_quad(mp.mpf(1))) < mp.mpf(10) ** -20 * a, 'meridian arc: closed form disagrees with the quadrature'
    A = 2 * M(mp.pi / 2) / mp.pi

    def chi(phi):
        return mp.atan(mp.sinh(mp.asinh(mp.tan(phi)) - e * mp.atanh(e * mp.sin(phi))))

    def taup(t):
        sg = mp.sinh(e * mp.atanh(e * t / mp.sqrt(1 + t * t)))
        return t * mp.sqrt(1 + sg * sg) - sg * mp.sqrt(1 + t * t)

    def phi_of_chi(c):
        if c == 0:
            return mp.mpf(0)
        if abs(abs(c) - mp.pi / 2) < mp.mpf(10) ** (-(mp.mp.dps - 3)):
            return mp.sign(c) * mp.pi / 2
        tp = mp.tan(c)
        t = tp / (1 - e2)
        for _ in range(100):
            tpi = taup(t)
            dt = (tp - tpi) / mp.sqrt(1 + tpi * tpi) * (1 + (1 - e2) * t * t) / ((1 - e2) * mp.sqrt(1 + t * t))
            t = t + dt
            if abs(dt) <= abs(t) * mp.mpf(10) ** (-(mp.mp.dps - 3)):
                break
        return mp.atan(t)

    def g(c):
        return M(phi_of_chi(c)) / A - c
    # Fourier sine coefficients of the odd, pi-periodic, analytic function g: the trapezoidal rule on N equal steps is exact up to
    # aliasing with the coefficient of index 2N - j (~ n^(2N-j), far below the working precision for N = 40)
    N = 40
    ck = [k * mp.pi / (2 * N) for k in range(1, N)]
    gk = [g(c) for c in ck]
    co = [2 / mp.mpf(N) * sum(gv * mp.sin(2 * j * c) for gv, c in zip(gk, ck)) for j in range(1, J + 1)]
    o = {'a': a, 'invf': invf, 'A': A, 'e': e, 'e2': e2, 'co': co, 'chi': chi, 'phi_of_chi': phi_of_chi}
    _CACHE[key] = o
    return o


def forward(o, lat, dlon, k0=1):
    """(x, y) = (east of central meridian, north of equator), metres, for latitude/longitude difference in degrees"""
    c = o['chi'](mp.radians(_mpf(lat)))
    w = mp.radians(_mpf(dlon))
    xi1 = mp.atan2(mp.tan(c), mp.cos(w))
    eta1 = mp.asinh(mp.sin(w) / mp.sqrt(mp.tan(c) ** 2 + mp.cos(w) ** 2))
    z = mp.mpc(xi1, eta1)
    zz = z + sum(aj * mp.sin(2 * (j + 1) * z) for j, aj in enumerate(o['co']))
    k0 = _mpf(k0)
    return k0 * o['A'] * zz.imag, k0 * o['A'] * zz.real


def inverse(o, x, y, k0=1):
    """latitude, longitude difference (degrees) from (x east of CM, y north of equator)"""
    k0 = _mpf(k0)
    target = mp.mpc(_mpf(y), _mpf(x)) / (k0 * o['A'])
    z = target
    for _ in range(60):
        fz = z + sum(aj * mp.sin(2 * (j + 1) * z) for j, aj in enumerate(o['co'])) - target
        dz = 1 + sum(aj * 2 * (j + 1) * mp.cos(2 * (j + 1) * z) for j, aj in enumerate(o['co']))
        step = fz / dz
        z = z - step
        if abs(step) < mp.mpf(10) ** (-(mp.mp.dps - 4)):
            break
    xi1, eta1 = z.real, z.imag
    tchi = mp.sin(xi1) / mp.sqrt(mp.sinh(eta1) ** 2 + mp.cos(xi1) ** 2)
    w = mp.atan2(mp.sinh(eta1), mp.cos(xi1))
    phi = o['phi_of_chi'](mp.atan(tchi))
    return mp.degrees(phi), mp.degrees(w)


def scale_convergence(o, lat, dlon, k0=1):
    """local length ratio along the meridian and the grid bearing of the projected meridian (degrees), by
    high-precision differentiation of the exact forward map"""
    lat, dlon = _mpf(lat), _mpf(dlon)
    h = mp.mpf(10) ** (-12)
    x1, y1 = forward(o, lat - h, dlon, k0)
    x2, y2 = forward(o, lat + h, dlon, k0)
    dx, dy = (x2 - x1), (y2 - y1)
    phi = mp.radians(lat)
    rho = o['a'] * (1 - o['e2']) / (1 - o['e2'] * mp.sin(phi) ** 2) ** mp.mpf(1.5)
    ds = rho * mp.radians(2 * h)
    k = mp.sqrt(dx * dx + dy * dy) / ds
    gamma = mp.degrees(mp.atan2(dx, dy))
    return k, gamma
