"""Replay oracle for C12: operator results of the un-instrumented angle classes vs decimal-degree arithmetic (exact rationals)."""
import itertools
import operator
from fractions import Fraction as F

TOL = F(1, 10 ** 8) / 3600


def _mk(A, cls, v):
    try:
        return {'DECAngle': lambda: A.DECAngle(v), 'HPAngle': lambda: A.dec2hpa(v), 'GONAngle': lambda: A.dec2gona(v), 'DMSAngle': lambda: A.dec2dms(v),
                'DDMAngle': lambda: A.dec2ddm(v)}[cls]()
    except ValueError:
        return None       # HP construction limits of the angle module are C08's subject


VALUES = [0.0, 2.25, -2.25, 10.75, -0.5, 0.75, 45.0, -45.0, 359.75, 180.0, -0.25, 10.5, 4.5, 90.0, -179.25]
CLASSES = ['DECAngle', 'HPAngle', 'GONAngle', 'DMSAngle', 'DDMAngle']


def ops(a):
    import geodepy.angles as A
    msgs = []
    for lc, rc in itertools.product(CLASSES, CLASSES):
        for x, y in itertools.product(VALUES, VALUES[:9]):
            p, q = _mk(A, lc, x), _mk(A, rc, y)
            if p is None or q is None:
                continue
            for nm, op in (('+', operator.add), ('-', operator.sub)):
                if abs(op(x, y)) >= 720:
                    continue
                try:
                    r = op(p, q)
                except ValueError:
                    continue
                except Exception as ex:  # noqa
                    msgs.append('%s(%r) %s %s(%r) raised %s: %s' % (lc, x, nm, rc, y, type(ex).__name__, ex))
                    continue
                if type(r).__name__ != lc or abs(F(r.dec()) - F(op(x, y))) > TOL:
                    msgs.append('%s(%r) %s %s(%r) = %r (class %s), decimal-degree result %r' % (lc, x, nm, rc, y, r, type(r).__name__, op(x, y)))
            for nm, op in (('==', operator.eq), ('!=', operator.ne), ('<', operator.lt), ('>', operator.gt)):
                try:
                    r = op(p, q)
                except Exception as ex:  # noqa
                    msgs.append('%s(%r) %s %s(%r) raised %r' % (lc, x, nm, rc, y, ex))
                    continue
                if bool(r) != op(x, y):
                    msgs.append('%s(%r) %s %s(%r) is %r, decimal-degree comparison %r' % (lc, x, nm, rc, y, r, op(x, y)))
    for lc in CLASSES:
        for x in VALUES:
            p = _mk(A, lc, x)
            if p is None:
                continue
            for k in (2, -1, 0.5, 3, 10, -2):
                for nm, f, e in (('*', lambda: p * k, x * k), ('r*', lambda: k * p, k * x), ('/', lambda: p / k, x / k)):
                    if abs(e) >= 720:
                        continue
                    try:
                        r = f()
                    except ValueError:
                        continue
                    if type(r).__name__ != lc or abs(F(r.dec()) - F(e)) > TOL:
                        msgs.append('%s(%r) %s %r = %r, decimal-degree result %r' % (lc, x, nm, k, r, e))
            try:
                n_, a_ = -p, abs(p)
                if type(n_).__name__ != lc or type(a_).__name__ != lc or abs(F(n_.dec()) + F(x)) > TOL or abs(F(a_.dec()) - abs(F(x))) > TOL:
                    msgs.append('-%s(%r) = %r, abs = %r' % (lc, x, n_, a_))
            except ValueError:
                pass
            if lc in ('DMSAngle', 'DDMAngle'):
                for m in (360, 180, 90, 10.5, 0.5, 2.25, 7):
                    r = p % m
                    if type(r).__name__ != lc or abs(F(r.dec()) - F(x % m)) > TOL:
                        msgs.append('%s(%r) %% %r = %r, decimal-degree result %r' % (lc, x, m, r, x % m))
            if lc != 'HPAngle':
                for n in (0, 2, 5):
                    r = round(p, n)
                    fld = {'DECAngle': lambda o: o.dec(), 'GONAngle': lambda o: o.gon(), 'DMSAngle': lambda o: o.second, 'DDMAngle': lambda o: o.minute}[lc]
                    unit = {'DECAngle': 1, 'GONAngle': F(9, 10), 'DMSAngle': F(1, 3600), 'DDMAngle': F(1, 60)}[lc]      # degrees per unit of the rounded field
                    if type(r).__name__ != lc or abs(F(r.dec()) - F(p.dec())) > unit * F(1, 2 * 10 ** n) + F(1, 10 ** 12) or (r.dec() < 0) != (p.dec() < 0) and r.dec() != 0:
                        msgs.append('round(%s(%r), %d) = %r' % (lc, x, n, r))
    # rounding at the carry boundaries of the sexagesimal classes (seconds / minutes that round up to 60 in minute 59)
    for sign in (True, False):
        for (d, m, sec) in ((12, 59, 59.7), (0, 59, 59.5), (12, 34, 59.96), (12, 59, 59.9999996), (359, 59, 59.999)):
            for n in (0, 2, 5):
                p = A.DMSAngle(d, m, sec, positive=sign)
                r = round(p, n)
                if type(r).__name__ != 'DMSAngle' or abs(F(r.dec()) - F(p.dec())) > F(1, 3600) * F(1, 2 * 10 ** n) + F(1, 10 ** 12) or ((r.dec() < 0) != (p.dec() < 0) and r.dec() != 0):
                    msgs.append('round(%r, %d) = %r moves the angle by %.3g arc-seconds' % (p, n, r, abs(r.dec() - p.dec()) * 3600))
                p = A.DDMAngle(d, m + sec / 60, positive=sign)
                r = round(p, n)
                if type(r).__name__ != 'DDMAngle' or abs(F(r.dec()) - F(p.dec())) > F(1, 60) * F(1, 2 * 10 ** n) + F(1, 10 ** 12) or ((r.dec() < 0) != (p.dec() < 0) and r.dec() != 0):
                    msgs.append('round(%r, %d) = %r moves the angle by %.3g arc-minutes' % (p, n, r, abs(r.dec() - p.dec()) * 60))
    return bool(msgs), '; '.join(msgs[:4]) if msgs else 'operators agree with decimal-degree arithmetic'
