"""Replay oracle for C12: operator results of the un-instrumented angle classes vs decimal-degree arithmetic (exact rationals)."""
import itertools
import operator
from fractions import Fraction as F

TOL = F(1, 10 ** 8) / 3600


def _mk(A, cls, v):
    try:
        return {'DECAngle': lambda: A.DECAngle(v), 'HPAngle': lambda: A.dec2hpa(v), 'GONAngle': lambda: A.dec2gona(v), 'DMSAngle': lambda: A.dec2dms(v),
                'DDMAngle': lambda: A.dec2ddm(v)}[cls]()
    except ValueError:
        return None       # HP construction limits of the angle module are C08's subject


VALUES = [0.0, 2.25, -2.25, 10.75, -0.5, 0.75, 45.0, -45.0, 359.75, 180.0, -0.25, 10.5, 4.5, 90.0, -179.25]
CLASSES = ['DECAngle', 'HPAngle', 'GONAngle', 'DMSAngle', 'DDMAngle']


def ops(a):
    import geodepy.angles as A
    msgs = []
    for lc, rc in itertools.product(CLASSES, CLASSES):
        for x, y in itertools.product(VALUES, VALUES[:9]):
            p, q = _mk(A, lc, x), _mk(A, rc, y)
            if p is None or q is None:
                continue
            for nm, op in (('+', operator.add), ('-', operator.sub)):
                if abs(op(x, y)) >= 720:
                    continue
                try:
                    r = op(p, q)
                except ValueError:
                    continue
                except Exception as ex:  # noqa
                    msgs.append('%s(%r) %s %s(%r) raised %s: %s' % (lc, x, nm, rc, y, type(ex).__name__, ex))
                    continue
                if type(r).__name__ != lc or abs(F(r.dec()) - F(op(x, y))) > TOL:
                    msgs.append('%s(%r) %s %s(%r) = %r (class %s), decimal-degree result %r' % (lc, x, nm, rc, y, r, type(r).__name__, op(x, y)))
            for nm, op in (('==', operator.eq), ('!=', operator.ne), ('<', operator.lt), ('>', operator.gt)):
                try:
                    r = op(p, q)
                except Exception as ex:  # noqa
                    msgs.append('%s(%r) %s %s(%r) raised %r' % (lc, x, nm, rc, y, ex))
                    continue
                if bool(r) != op(x, y):
                    msgs.append('%s(%r) %s %s(%r) is %r, decimal-degree comparison %r' % (lc, x, nm, rc, y, r, op(x, y)))
    # operands a few 1e-7 arc-seconds apart: far above the 1e-8" tolerance, so every comparison must follow the decimal-degree values
    for lc, rc in itertools.product(CLASSES, CLASSES):
        for x in (12.582438888888887, -0.5062, 179.99999999, -33.25):
            for dsec in (1e-7, 5e-7, -2e-7):
                p, q = _mk(A, lc, x), _mk(A, rc, x + dsec / 3600)
                if p is None or q is None:
                    continue
                dp, dq = F(p.dec()), F(q.dec())
                if abs(dp - dq) * 3600 < F(3, 10 ** 8):
                    continue
                for nm, op in (('==', operator.eq), ('!=', operator.ne), ('<', operator.lt), ('>', operator.gt)):
                    try:
                        r = op(p, q)
                    except Exception as ex:  # noqa
                        msgs.append('%r %s %r raised %r' % (p, nm, q, ex))
                        continue
                    if bool(r) != op(dp, dq):
                        msgs.append('%r %s %r is %r although the operands are %.1e arc-seconds apart (decimal-degree comparison: %r)'
                                    % (p, nm, q, r, float(abs(dp - dq) * 3600), op(dp, dq)))
    for lc in CLASSES:
        for x in VALUES:
            p = _mk(A, lc, x)
            if p is None:
                continue
            for k in (2, -1, 0.5, 3, 10, -2):
                for nm, f, e in (('*', lambda: p * k, x * k), ('r*', lambda: k * p, k * x), ('/', lambda: p / k, x / k)):
                    if abs(e) >= 720:
                        continue
                    try:
                        r = f()
                    except ValueError:
                        continue
                    if type(r).__name__ != lc or abs(F(r.dec()) - F(e)) > TOL:
                        msgs.append('%s(%r) %s %r = %r, decimal-degree result %r' % (lc, x, nm, k, r, e))
            try:
                n_, a_ = -p, abs(p)
                if type(n_).__name__ != lc or type(a_).__name__ != lc or abs(F(n_.dec()) + F(x)) > TOL or abs(F(a_.dec()) - abs(F(x))) > TOL:
                    msgs.append('-%s(%r) = %r, abs = %r' % (lc, x, n_, a_))
            except ValueError:
                pass
            if lc in ('DMSAngle', 'DDMAngle'):
                for m in (360, 180, 90, 10.5, 0.5, 2.25, 7):
                    r = p % m
                    if type(r).__name__ != lc or abs(F(r.dec()) - F(x % m)) > TOL:
                        msgs.append('%s(%r) %% %r = %r, decimal-degree result %r' % (lc, x, m, r, x % m))
            if lc != 'HPAngle':
                for n in (0, 2, 5):
                    r = round(p, n)
                    fld = {'DECAngle': lambda o: o.dec(), 'GONAngle': lambda o: o.gon(), 'DMSAngle': lambda o: o.second, 'DDMAngle': lambda o: o.minute}[lc]
                    unit = {'DECAngle': 1, 'GONAngle': F(9, 10), 'DMSAngle': F(1, 3600), 'DDMAngle': F(1, 60)}[lc]      # degrees per unit of the rounded field
                    if type(r).__name__ != lc or abs(F(r.dec()) - F(p.dec())) > unit * F(1, 2 * 10 ** n) + F(1, 10 ** 12) or (r.dec() < 0) != (p.dec() < 0) and r.dec() != 0:
                        msgs.append('round(%s(%r), %d) = %r' % (lc, x, n, r))
    # results that land within rounding of a whole degree / minute (float noise at a boundary): sums and divide-then-multiply round trips
    for cls in ('DMSAngle', 'DDMAngle'):
        for x in (1.0, 2.0, 13.0, 359.0, -1.0, -47.0):
            for k in (49, 7, 3, 11):
                p0 = _mk(A, cls, x)
                try:
                    r = (p0 / k) * k
                except ValueError:
                    continue
                if type(r).__name__ != cls or abs(F(r.dec()) - F(x)) > TOL:
                    msgs.append('(%r / %d) * %d = %r, decimal-degree result %r' % (p0, k, k, r, x / k * k))
        for parts in ((1 / 60, 1 / 60, 58 / 60), (0.25, 0.5, 0.25), (10 + 59 / 60, 59 / 3600, 1 / 3600)):
            p0 = _mk(A, cls, parts[0])
            for rc in CLASSES:
                q1, q2 = _mk(A, rc, parts[1]), _mk(A, rc, parts[2])
                if q1 is None or q2 is None:
                    continue
                try:
                    r = p0 + q1 + q2
                except ValueError:
                    continue
                e = F(p0.dec()) + F(q1.dec()) + F(q2.dec())
                if type(r).__name__ != cls or abs(F(r.dec()) - e) > 2 * TOL:
                    msgs.append('%r + %r + %r = %r, decimal-degree result %r' % (p0, q1, q2, r, float(e)))
    # rounding at the carry boundaries of the sexagesimal classes (seconds / minutes that round up to 60 in minute 59)
    for sign in (True, False):
        for (d, m, sec) in ((12, 59, 59.7), (0, 59, 59.5), (12, 34, 59.96), (12, 59, 59.9999996), (359, 59, 59.999)):
            for n in (0, 2, 5):
                p = A.DMSAngle(d, m, sec, positive=sign)
                r = round(p, n)
                if type(r).__name__ != 'DMSAngle' or abs(F(r.dec()) - F(p.dec())) > F(1, 3600) * F(1, 2 * 10 ** n) + F(1, 10 ** 12) or ((r.dec() < 0) != (p.dec() < 0) and r.dec() != 0):
                    msgs.append('round(%r, %d) = %r moves the angle by %.3g arc-seconds' % (p, n, r, abs(r.dec() - p.dec()) * 3600))
                p = A.DDMAngle(d, m + sec / 60, positive=sign)
                r = round(p, n)
                if type(r).__name__ != 'DDMAngle' or abs(F(r.dec()) - F(p.dec())) > F(1, 60) * F(1, 2 * 10 ** n) + F(1, 10 ** 12) or ((r.dec() < 0) != (p.dec() < 0) and r.dec() != 0):
                    msgs.append('round(%r, %d) = %r moves the angle by %.3g arc-minutes' % (p, n, r, abs(r.dec() - p.dec()) * 60))
    return bool(msgs), '; '.join(msgs[:4]) if msgs else 'operators agree with decimal-degree arithmetic'
