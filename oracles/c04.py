"""Replay oracles for C04/C05 (un-instrumented geodepy vs the exact geodesic by quadrature)."""
import mpmath as mp
from oracles import geodesic_exact as G
from oracles.c06 import _f


def _ell(env):
    import geodepy.constants as gc
    return gc.Ellipsoid(_f(env.get('a'), 6378137.0), _f(env.get('invf'), 298.257222101))


def _wrap(kind, v):
    import geodepy.angles as ga
    return ga.DECAngle(v) if kind == 'DECAngle' else v


CASES = [(-37.95103341667, 144.42486788889, 306.86815920833, 54972.271), (0.0, 0.0, 90.0, 1.9e7), (0.0, 10.0, 0.0, 1.0e7),
         (89.0, -120.0, 17.0, 500000.0), (90.0, 33.0, 140.0, 2.0e7), (-90.0, 0.0, 270.0, 123456.789), (12.5, 179.5, 88.0, 3.0e6),
         (45.0, 0.0, 0.0, 0.0), (-20.0, -179.9, 271.0, 0.0), (33.3, 20.0, 359.0, 1e-3), (0.0, 0.0, 180.0, 20000000.0),
         (-10.0, 100.0, 45.0, 15000000.0), (60.0, 5.0, 200.0, 1.0), (1e-6, 0.0, 90.0, 7777777.0)]


def direct_env(a):
    from geodepy.geodesy import vincdir
    env = a.get('env', {})
    kind = a.get('argkind', 'float')
    ell = _ell(env)
    ells = [ell]
    if 'a' not in env:
        import geodepy.constants as gc
        ells += [gc.ans, gc.intl24, gc.Ellipsoid(6378137.0, 281.0), gc.Ellipsoid(6378137.0, 319.0)]
    cases = list(CASES)
    if 'lat1' in env:
        cases.insert(0, (_f(env.get('lat1')), _f(env.get('lon1')), _f(env.get('az')), _f(env.get('s'))))
    msgs, wd, wa = [], 0, 0
    for e in ells:
        for lat1, lon1, az, s in cases:
            try:
                la, lo, az2 = vincdir(_wrap(kind, lat1), _wrap(kind, lon1), _wrap(kind, az), s, e)
            except Exception as ex:  # noqa
                msgs.append('vincdir(%r, %r, %r, %r) raised %s: %s' % (lat1, lon1, az, s, type(ex).__name__, ex))
                continue
            xa, xo, xz = G.direct(lat1, lon1, az, s, e.semimaj, e.inversef)
            d = G.surface_sep(la, lo, xa, xo, e.semimaj, e.inversef)
            if d > wd:
                wd, where = d, (lat1, lon1, az, s, float(e.inversef))
            if abs(xa) < 89:
                da = G.angdiff(az2, xz + 180)
                if da > wa:
                    wa, wherea = da, (lat1, lon1, az, s, float(e.inversef))
    if wd > 1e-3:
        msgs.append('vincdir end point is %.3e m from the exact geodesic at (lat1, lon1, az, s, 1/f) = %s' % (float(wd), where))
    if wa > 1e-8 * 1.5:
        msgs.append('vincdir reverse azimuth differs by %.3e deg at %s' % (float(wa), wherea))
    return bool(msgs), '; '.join(msgs[:3]) if msgs else 'end point within %.1e m, reverse azimuth within %.1e deg' % (float(wd), float(wa))


PAIRS = [(-37.95103341667, 144.42486788889, -37.65282113889, 143.92649552778), (0.0, 0.0, 0.0, 90.0), (0.0, 0.0, 45.0, 0.0),
         (0.0, 10.0, 10.0, 20.0), (10.0, 20.0, 0.0, 10.0), (-0.0, 5.0, 0.5, 179.0), (89.9, 0.0, 89.9, 180.0), (-90.0, 0.0, 45.0, 77.0),
         (20.0, 179.9, 21.0, -179.9), (-33.0, -179.5, -34.0, 179.5), (0.0, 0.0, 1e-8, 1e-8), (50.0, 10.0, 50.0, 10.00001),
         (1.0, 0.0, -1.5, 177.5), (0.0, 0.0, 0.3, 177.7), (30.0, -100.0, -29.0, 77.9), (40.0, 0.0, 40.0, 120.0), (0.0, 0.0, 0.0, 1e-6),
         # 2.0 - 2.3 deg from antipodal with the offset mostly in latitude: the slowest-converging part of the domain (14-20 lambda passes)
         (5.0, 0.0, -3.0, 179.0), (5.0, 0.0, -3.0, 179.5), (20.0, 0.0, -18.0, 179.0), (20.0, 0.0, -17.9, 179.8), (-20.0, 100.0, 18.0, -81.0)]


def _inverse_checks(p1, p2, e, msgs):
    from geodepy.geodesy import vincinv
    lat1, lon1, lat2, lon2 = p1[0], p1[1], p2[0], p2[1]
    try:
        s, a12, a21 = vincinv(lat1, lon1, lat2, lon2, e)
    except Exception as ex:  # noqa
        msgs.append('vincinv%r raised %s: %s' % ((lat1, lon1, lat2, lon2), type(ex).__name__, ex))
        return
    if not (0 <= a12 < 360.0000000001 and 0 <= a21 <= 360.0000000001):
        msgs.append('azimuth outside [0, 360): %r %r' % (a12, a21))
    xa, xo, xz = G.direct(lat1, lon1, a12, s, e.semimaj, e.inversef)
    d = G.surface_sep(lat2, lon2, xa, xo, e.semimaj, e.inversef)
    if d > 2e-3 + 5e-4:       # 2 mm + half a unit of the 1 mm distance rounding
        msgs.append('following the exact geodesic with vincinv%r = (%r, %r) misses point 2 by %.3e m' % ((lat1, lon1, lat2, lon2), s, a12, float(d)))
    if abs(lat2) < 89 and s > 1:
        pole = mp.radians(90 - abs(mp.mpf(lat2))) * 6.4e6
        tol = 1e-8 + float(mp.degrees(2.5e-3 / max(pole, 1))) + float(mp.degrees(2.5e-3 / max(s, 1)))
        da = G.angdiff(a21, xz + 180)
        if da > tol:
            msgs.append('reverse azimuth of vincinv%r differs by %.3e deg (allowed %.1e)' % ((lat1, lon1, lat2, lon2), float(da), tol))
    # swap symmetry and shift invariance
    try:
        s2, b12, b21 = vincinv(lat2, lon2, lat1, lon1, e)
        if abs(s2 - s) > 1e-3 + 1e-9:
            msgs.append('swapped points change the distance by %.3e m for %r' % (abs(s2 - s), (lat1, lon1, lat2, lon2)))
        lim = float(mp.degrees(1.5e-3 / max(s, 1e-3))) + 2e-9
        if s > 1e-3 and (G.angdiff(b12, a21) > lim or G.angdiff(b21, a12) > lim):
            msgs.append('swapped points do not exchange the azimuths for %r: %r %r vs %r %r' % ((lat1, lon1, lat2, lon2), a12, a21, b21, b12))
        for off in (360.0, -360.0, 37.5):
            s3, c12, c21 = vincinv(lat1, lon1 + off, lat2, lon2 + off, e)
            if abs(s3 - s) > 1e-3 + 1e-9 or (s > 1e-3 and (G.angdiff(c12, a12) > lim or G.angdiff(c21, a21) > lim)):
                msgs.append('common longitude offset %r changes the result for %r: %r -> %r' % (off, (lat1, lon1, lat2, lon2), (s, a12, a21), (s3, c12, c21)))
    except Exception as ex:  # noqa
        msgs.append('vincinv raised on swapped/shifted input: %r' % (ex,))


def inverse_env(a):
    from geodepy.geodesy import vincinv
    import geodepy.constants as gc
    env = a.get('env', {})
    ells = [_ell(env)]
    if 'a' not in env:
        ells += [gc.intl24, gc.Ellipsoid(6378137.0, 281.0)]
    pairs = list(PAIRS)
    if 'lat1' in env:
        pairs.insert(0, (_f(env.get('lat1')), _f(env.get('lon1')), _f(env.get('lat2')), _f(env.get('lon2'))))
    msgs = []
    for e in ells:
        for (la1, lo1, la2, lo2) in pairs:
            _inverse_checks((la1, lo1), (la2, lo2), e, msgs)
        r = vincinv(12.0, 34.0, 12.0, 34.0, e)
        if tuple(r) != (0, 0, 0):
            msgs.append('coincident points return %r' % (r,))
    return bool(msgs), '; '.join(msgs[:3]) if msgs else 'inverse solutions close on the exact geodesic, symmetric and shift invariant'


def _seq_ells(env):
    """(first, second) ellipsoid of a two-ellipsoid call sequence; defaults differ by much more than any tolerance"""
    import geodepy.constants as gc
    p1 = (_f(env.get('a'), 6378137.0), _f(env.get('invf'), 281.0))
    p2 = (_f(env.get('a2'), 6378388.0), _f(env.get('invf2'), 298.257222101))
    return _EllSpec(p1), _EllSpec(p2)


class _EllSpec:
    """an ellipsoid of a call sequence: `.get()` is one long-lived object, or a new short-lived object per call (TEMPORARIES)"""
    temporaries = False

    def __init__(self, p):
        import geodepy.constants as gc
        self.p = p
        self.obj = gc.Ellipsoid(*p)
        self.semimaj, self.inversef = self.obj.semimaj, self.obj.inversef
        if _EllSpec.temporaries:
            self.obj = None

    def get(self):
        import geodepy.constants as gc
        return self.obj if self.obj is not None else gc.Ellipsoid(*self.p)


def inverse_sequence(a):
    """the same point pairs solved first on one ellipsoid and then on another one in the same process: the second answers must close on
    the exact geodesic of the SECOND ellipsoid (and then the other way round with other pairs)"""
    from geodepy.geodesy import vincinv
    env = a.get('env', {})
    _EllSpec.temporaries = bool(a.get('temporaries'))
    e1, e2 = _seq_ells(env)
    pairs = list(PAIRS)
    if 'lat1' in env:
        pairs.insert(0, (_f(env.get('lat1')), _f(env.get('lon1')), _f(env.get('lat2')), _f(env.get('lon2'))))
    msgs = []
    half = max(1, len(pairs) // 2)
    for first, second, pp in ((e1, e2, pairs[:half]), (e2, e1, pairs[half:])):
        for (la1, lo1, la2, lo2) in pp:
            try:
                vincinv(la1, lo1, la2, lo2, first.get())
            except Exception:  # noqa
                pass
        for (la1, lo1, la2, lo2) in pp:
            _inverse_checks((la1, lo1), (la2, lo2), second.get(), msgs)
    msgs = ['after the same points were solved on 1/f=%r: %s' % (float(e1.inversef), m) for m in msgs]
    return bool(msgs), '; '.join(msgs[:3]) if msgs else 'second ellipsoid of a call sequence gets its own solution'


def direct_sequence(a):
    """the same lines run first on one ellipsoid and then on another one in the same process"""
    from geodepy.geodesy import vincdir
    env = a.get('env', {})
    _EllSpec.temporaries = bool(a.get('temporaries'))
    e1, e2 = _seq_ells(env)
    cases = list(CASES)
    if 'lat1' in env:
        cases.insert(0, (_f(env.get('lat1')), _f(env.get('lon1')), _f(env.get('az')), _f(env.get('s'))))
    msgs = []
    half = max(1, len(cases) // 2)
    for first, second, cc in ((e1, e2, cases[:half]), (e2, e1, cases[half:])):
        for lat1, lon1, az, s in cc:
            try:
                vincdir(lat1, lon1, az, s, first.get())
            except Exception:  # noqa
                pass
        for lat1, lon1, az, s in cc:
            try:
                la, lo, az2 = vincdir(lat1, lon1, az, s, second.get())
            except Exception as ex:  # noqa
                msgs.append('vincdir(%r, %r, %r, %r) raised %s: %s' % (lat1, lon1, az, s, type(ex).__name__, ex))
                continue
            xa, xo, xz = G.direct(lat1, lon1, az, s, second.semimaj, second.inversef)
            d = G.surface_sep(la, lo, xa, xo, second.semimaj, second.inversef)
            if d > 1e-3:
                msgs.append('vincdir on 1/f=%r after the same line on 1/f=%r ends %.3e m from the exact geodesic at %r'
                            % (float(second.inversef), float(first.inversef), float(d), (lat1, lon1, az, s)))
            elif abs(xa) < 89 and G.angdiff(az2, xz + 180) > 1.5e-8:
                msgs.append('vincdir on 1/f=%r after the same line on 1/f=%r: reverse azimuth off by %.3e deg at %r'
                            % (float(second.inversef), float(first.inversef), float(G.angdiff(az2, xz + 180)), (lat1, lon1, az, s)))
    return bool(msgs), '; '.join(msgs[:3]) if msgs else 'second ellipsoid of a call sequence gets its own solution'


def argforms(a):
    """vincdir with some arguments as angle objects of one class and the others plain numbers = vincdir on the decimal values"""
    import itertools
    import geodepy.angles as A
    from geodepy.geodesy import vincdir
    msgs = []
    classes = [a['cls']] if a.get('cls') else ['HPAngle', 'GONAngle', 'DMSAngle', 'DDMAngle', 'DECAngle']
    subsets = [tuple(a['positions'])] if a.get('positions') else [s_ for n in (1, 2, 3) for s_ in itertools.combinations((0, 1, 2), n)]
    mk = {'DECAngle': A.DECAngle, 'HPAngle': lambda v: A.HPAngle(A.dec2hp(v)), 'GONAngle': lambda v: A.GONAngle(A.dec2gon(v)), 'DMSAngle': A.dec2dms,
          'DDMAngle': A.dec2ddm}
    for cls in classes:
        for sub in subsets:
            for vals, s in (((-37.5703720, 144.2529245, 306.5205373), 54972.271), ((10.25, 20.5, 45.125), 2500000.0), ((-0.5, -170.75, 200.0), 1000.0)):
                args = list(vals)
                for k in sub:
                    args[k] = mk[cls](vals[k])
                decs = [x.dec() if hasattr(x, 'dec') else x for x in args]
                try:
                    got = vincdir(args[0], args[1], args[2], s)
                except Exception as ex:  # noqa
                    msgs.append('vincdir with positions %s as %s raised %s: %s' % (list(sub), cls, type(ex).__name__, ex))
                    continue
                exp = vincdir(decs[0], decs[1], decs[2], s)
                if max(abs(g - e) for g, e in zip(got, exp)) > 1e-10:
                    msgs.append('vincdir with positions %s as %s = %r, with the decimal-degree values %r' % (list(sub), cls, got, exp))
    return bool(msgs), '; '.join(msgs[:3]) if msgs else 'angle-class arguments give the result of their decimal values'
