"""Independent exact geodesic (direct problem) by quadrature of the auxiliary-sphere integrals (Karney 2013 eqs 7-8);
no series. Used only in replay."""
import math
import mpmath as mp

mp.mp.dps = 30


def _mpf(x):
    from fractions import Fraction
    if isinstance(x, Fraction):
        return mp.mpf(x.numerator) / mp.mpf(x.denominator)
    if isinstance(x, float):
        return mp.mpf(repr(x))
    return mp.mpf(x)


def direct(lat1, lon1, az1, s12, a, invf):
    """returns lat2, lon2 (deg, unnormalised), forward azimuth at point 2 (deg)"""
    if abs(_mpf(lat1)) == 90:
        # at a pole the azimuth selects the meridian: continue from a point 1e-18 deg off the pole on that meridian
        north = _mpf(lat1) > 0
        lon1 = _mpf(lon1) + (180 - _mpf(az1) if north else _mpf(az1))
        lat1 = (90 - mp.mpf(10) ** -18) * (1 if north else -1)
        az1 = 180 if north else 0
    a = _mpf(a)
    f = 1 / _mpf(invf)
    b = a * (1 - f)
    e2 = f * (2 - f)
    ep2 = e2 / (1 - e2)
    phi1, al1, s12 = mp.radians(_mpf(lat1)), mp.radians(_mpf(az1)), _mpf(s12)
    be1 = mp.atan((1 - f) * mp.tan(phi1)) if abs(_mpf(lat1)) != 90 else mp.sign(phi1) * mp.pi / 2
    sa0 = mp.sin(al1) * mp.cos(be1)
    ca0 = mp.sqrt(mp.cos(al1) ** 2 + (mp.sin(al1) * mp.sin(be1)) ** 2)
    sig1 = mp.atan2(mp.sin(be1), mp.cos(al1) * mp.cos(be1)) if (mp.sin(be1) != 0 or mp.cos(al1) * mp.cos(be1) != 0) else mp.mpf(0)
    k2 = ep2 * ca0 ** 2

    def I1(s):
        return mp.quad(lambda t: mp.sqrt(1 + k2 * mp.sin(t) ** 2), mp.linspace(0, s, max(2, int(abs(s) / 0.5) + 2)))

    def I3(s):
        return mp.quad(lambda t: (2 - f) / (1 + (1 - f) * mp.sqrt(1 + k2 * mp.sin(t) ** 2)), mp.linspace(0, s, max(2, int(abs(s) / 0.5) + 2)))
    s1 = b * I1(sig1)
    sig2 = sig1 + s12 / b
    for _ in range(60):
        g = b * I1(sig2) - (s1 + s12)
        dg = b * mp.sqrt(1 + k2 * mp.sin(sig2) ** 2)
        step = g / dg
        sig2 -= step
        if abs(step) < mp.mpf(10) ** -26:
            break
    be2 = mp.asin(ca0 * mp.sin(sig2))
    om1 = mp.atan2(sa0 * mp.sin(sig1), mp.cos(sig1))
    om2 = mp.atan2(sa0 * mp.sin(sig2), mp.cos(sig2))
    if abs(sa0) > 0:
        # unwrap omega to follow sigma (omega - sigma is bounded)
        om2 += 2 * mp.pi * mp.floor(((sig2 - sig1) - (om2 - om1) * mp.sign(sa0)) / (2 * mp.pi) + mp.mpf(1) / 2) * mp.sign(sa0)
    lam12 = (om2 - om1) - f * sa0 * (I3(sig2) - I3(sig1))
    phi2 = mp.atan(mp.tan(be2) / (1 - f)) if abs(be2) < mp.pi / 2 - mp.mpf(10) ** -25 else mp.sign(be2) * mp.pi / 2
    al2 = mp.atan2(sa0, ca0 * mp.cos(sig2))
    return mp.degrees(phi2), _mpf(lon1) + mp.degrees(lam12), mp.degrees(al2)


def surface_sep(lat_a, lon_a, lat_b, lon_b, a, invf):
    """chord distance between two points on the ellipsoid (metres); fine at the mm level for nearby points"""
    a = _mpf(a)
    f = 1 / _mpf(invf)
    e2 = f * (2 - f)

    def xyz(lat, lon):
        la, lo = mp.radians(_mpf(lat)), mp.radians(_mpf(lon))
        N = a / mp.sqrt(1 - e2 * mp.sin(la) ** 2)
        return N * mp.cos(la) * mp.cos(lo), N * mp.cos(la) * mp.sin(lo), N * (1 - e2) * mp.sin(la)
    p, q = xyz(lat_a, lon_a), xyz(lat_b, lon_b)
    return mp.sqrt(sum((u - v) ** 2 for u, v in zip(p, q)))


def angdiff(x, y):
    d = (_mpf(x) - _mpf(y)) % 360
    return min(d, 360 - d)
