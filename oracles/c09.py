"""Replay oracle for C09: deep snapshots of constants/arguments and repeat equality on the un-instrumented library."""
import copy
import datetime
import types
import numpy as np


def snap(v, depth=0):
    if isinstance(v, (int, float, str, bytes, bool, type(None), datetime.date)):
        return repr(v)
    if isinstance(v, (list, tuple)):
        return (type(v).__name__,) + tuple(snap(x, depth + 1) for x in v)
    if isinstance(v, dict):
        return ('dict',) + tuple(sorted((repr(k), snap(x, depth + 1)) for k, x in v.items()))
    if isinstance(v, set):
        return ('set',) + tuple(sorted(repr(x) for x in v))
    if isinstance(v, np.ndarray):
        return ('nd', v.shape, v.tobytes())
    if hasattr(v, '__dict__') and depth < 5 and not isinstance(v, (types.ModuleType, types.FunctionType, type)):
        return ('obj', type(v).__name__) + tuple((k, snap(x, depth + 1)) for k, x in sorted(vars(v).items()))
    return ('id', type(v).__name__)


def module_snapshot():
    import geodepy.constants as gc, geodepy.convert as cv, geodepy.geodesy as gd, geodepy.statistics as gs, geodepy.survey as sv, geodepy.transform as tr
    st = {}
    for m in (gc, cv, gd, gs, sv, tr):
        for k, v in vars(m).items():
            if k.startswith('__') or isinstance(v, (types.ModuleType, types.FunctionType, type, types.BuiltinFunctionType)) or callable(v):
                continue
            st[(m.__name__, k)] = snap(v)
    return st


def battery():
    import geodepy.constants as gc, geodepy.convert as cv, geodepy.geodesy as gd, geodepy.statistics as gs, geodepy.survey as sv, geodepy.transform as tr
    V = np.array([[4.0, 0.5, 0.1], [0.5, 3.0, 0.2], [0.1, 0.2, 2.0]]) * 1e-4
    col = np.array([[1e-4], [2e-4], [3e-4]])
    P = (-4052051.767, 4212836.216, -2545106.027)
    d1, d2 = datetime.date(2018, 1, 1), datetime.date(2031, 6, 30)
    va = [91.5, 92.7, 94.1, 93.2]
    agd = [gc.agd66_to_gda94, gc.agd66_to_gda94_act, gc.agd66_to_gda94_tas, gc.agd66_to_gda94_vicnsw, gc.agd66_to_gda94_nt]
    calls = [
        ('geo2grid', lambda: cv.geo2grid(-33.5, 151.2)), ('geo2grid isg', lambda: cv.geo2grid(-33.5, 151.2, 0, gc.ans, gc.isg)),
        ('grid2geo', lambda: cv.grid2geo(55, 500000.0, 6000000.0)), ('llh2xyz', lambda: cv.llh2xyz(-33.5, 151.2, 100.0, gc.ans)),
        ('xyz2llh', lambda: cv.xyz2llh(*P)), ('vincinv', lambda: gd.vincinv(-33.0, 151.0, -34.0, 150.0)), ('vincdir', lambda: gd.vincdir(-33.0, 151.0, 200.0, 54321.0)),
        ('vincinv_utm', lambda: gd.vincinv_utm(55, 300000.0, 6200000.0, 55, 320000.0, 6230000.0)),
        ('vincdir_utm', lambda: gd.vincdir_utm(55, 300000.0, 6200000.0, 33.0, 12345.0)),
        ('line_sf', lambda: gd.line_sf(55, 300000.0, 6200000.0, 56, 220000.0, 6230000.0)),
        ('conform7 vcv', lambda: tr.conform7(*P, gc.gda94_to_gda2020, V)), ('conform7', lambda: tr.conform7(*P, gc.gda2020_to_gda94)),
    ] + [('conform7 %d' % i, (lambda t: (lambda: tr.conform7(*P, t)))(t)) for i, t in enumerate(agd)] + [
        ('conform14 a', lambda: tr.conform14(*P, d1, gc.itrf2014_to_gda2020, V)), ('conform14 b', lambda: tr.conform14(*P, d2, gc.itrf2008_to_gda94, V)),
        ('conform14 c', lambda: tr.conform14(*P, d1, gc.itrf2020_to_itrf2014_vel)), ('conform14 d', lambda: tr.conform14(*P, d1, gc.itrf2020_to_itrf2014)),
        ('atrf fwd', lambda: tr.transform_atrf2014_to_gda2020(*P, d2, V)), ('atrf back', lambda: tr.transform_gda2020_to_atrf2014(*P, d2, V)),
        ('mga94->2020', lambda: tr.transform_mga94_to_mga2020(55, 500000.0, 6000000.0, 10.0, V)),
        ('mga2020->94', lambda: tr.transform_mga2020_to_mga94(55, 500000.0, 6000000.0)),
        ('vcv_cart2local', lambda: gs.vcv_cart2local(V, -33.0, 151.0)), ('vcv_local2cart col', lambda: gs.vcv_local2cart(col, -33.0, 151.0)),
        ('error_ellipse', lambda: gs.error_ellipse(V)), ('relative_error', lambda: gs.relative_error(-33.0, 151.0, V, V * 2, V * 0.1)),
        ('precise_inst_ht', lambda: sv.precise_inst_ht(va, 0.2, 0.5)), ('first_vel_corrn', lambda: sv.first_vel_corrn(1000.0, (281.0, 79.0), 20.0, 1010.0, 50.0)),
        ('add', lambda: vars(gc.itrf2014_to_gda2020 + d2)), ('neg', lambda: vars(-gc.itrf2008_to_gda94)),
    ]
    mut = {'V': V, 'col': col, 'va': va}
    return calls, mut


def purity(a):
    msgs = []
    calls, mut = battery()
    before_const = module_snapshot()
    before_args = snap(mut)
    first = {}
    for name, fn in calls:
        first[name] = snap(fn())
    for rnd in range(2):
        order = calls[::-1] if rnd == 0 else calls
        for name, fn in order:
            r = snap(fn())
            if r != first[name]:
                msgs.append('%s returns a different result when repeated after other calls' % name)
    after_const = module_snapshot()
    ch = sorted(str(k) for k in set(before_const) | set(after_const) if before_const.get(k) != after_const.get(k))
    if ch:
        msgs.append('module-level state / constants changed: %s' % ch[:5])
    if snap(mut) != before_args:
        msgs.append('an argument supplied by the caller was modified')
    # fresh process order dependence: evaluate same-labelled AGD sets in another order and compare with the formula-independent first results
    return bool(msgs), '; '.join(sorted(set(msgs))[:4]) if msgs else 'no state change, arguments intact, repeated results identical'
