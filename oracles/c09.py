"""Replay oracle for C09: deep snapshots of constants/arguments and repeat equality on the un-instrumented library."""
import copy
import datetime
import types
import numpy as np


def snap(v, depth=0):
    if isinstance(v, (int, float, str, bytes, bool, type(None), datetime.date)):
        return repr(v)
    if isinstance(v, (list, tuple)):
        return (type(v).__name__,) + tuple(snap(x, depth + 1) for x in v)
    if isinstance(v, dict):
        return ('dict',) + tuple(sorted((repr(k), snap(x, depth + 1)) for k, x in v.items()))
    if isinstance(v, set):
        return ('set',) + tuple(sorted(repr(x) for x in v))
    if isinstance(v, np.ndarray):
        return ('nd', v.shape, v.tobytes())
    if hasattr(v, '__dict__') and depth < 5 and not isinstance(v, (types.ModuleType, types.FunctionType, type)):
        return ('obj', type(v).__name__) + tuple((k, snap(x, depth + 1)) for k, x in sorted(vars(v).items()))
    return ('id', type(v).__name__)


def module_snapshot():
    import geodepy.constants as gc, geodepy.convert as cv, geodepy.geodesy as gd, geodepy.statistics as gs, geodepy.survey as sv, geodepy.transform as tr
    st = {}
    for m in (gc, cv, gd, gs, sv, tr):
        for k, v in vars(m).items():
            if k.startswith('__') or isinstance(v, (types.ModuleType, types.FunctionType, type, types.BuiltinFunctionType)) or callable(v):
                continue
            st[(m.__name__, k)] = snap(v)
    return st


def battery():
    import geodepy.constants as gc, geodepy.convert as cv, geodepy.geodesy as gd, geodepy.statistics as gs, geodepy.survey as sv, geodepy.transform as tr
    V = np.array([[4.0, 0.5, 0.1], [0.5, 3.0, 0.2], [0.1, 0.2, 2.0]]) * 1e-4
    col = np.array([[1e-4], [2e-4], [3e-4]])
    P = (-4052051.767, 4212836.216, -2545106.027)
    d1, d2 = datetime.date(2018, 1, 1), datetime.date(2031, 6, 30)
    va = [91.5, 92.7, 94.1, 93.2]
    agd = [gc.agd66_to_gda94, gc.agd66_to_gda94_act, gc.agd66_to_gda94_tas, gc.agd66_to_gda94_vicnsw, gc.agd66_to_gda94_nt]
    calls = [
        ('geo2grid', lambda: cv.geo2grid(-33.5, 151.2)), ('geo2grid isg', lambda: cv.geo2grid(-33.5, 151.2, 0, gc.ans, gc.isg)),
        ('grid2geo', lambda: cv.grid2geo(55, 500000.0, 6000000.0)), ('llh2xyz', lambda: cv.llh2xyz(-33.5, 151.2, 100.0, gc.ans)),
        ('xyz2llh', lambda: cv.xyz2llh(*P)), ('vincinv', lambda: gd.vincinv(-33.0, 151.0, -34.0, 150.0)), ('vincdir', lambda: gd.vincdir(-33.0, 151.0, 200.0, 54321.0)),
        ('vincinv_utm', lambda: gd.vincinv_utm(55, 300000.0, 6200000.0, 55, 320000.0, 6230000.0)),
        ('vincdir_utm', lambda: gd.vincdir_utm(55, 300000.0, 6200000.0, 33.0, 12345.0)),
        ('line_sf', lambda: gd.line_sf(55, 300000.0, 6200000.0, 56, 220000.0, 6230000.0)),
        ('conform7 vcv', lambda: tr.conform7(*P, gc.gda94_to_gda2020, V)), ('conform7', lambda: tr.conform7(*P, gc.gda2020_to_gda94)),
    ] + [('conform7 %d' % i, (lambda t: (lambda: tr.conform7(*P, t)))(t)) for i, t in enumerate(agd)] + [
        ('conform14 a', lambda: tr.conform14(*P, d1, gc.itrf2014_to_gda2020, V)), ('conform14 b', lambda: tr.conform14(*P, d2, gc.itrf2008_to_gda94, V)),
        ('conform14 c', lambda: tr.conform14(*P, d1, gc.itrf2020_to_itrf2014_vel)), ('conform14 d', lambda: tr.conform14(*P, d1, gc.itrf2020_to_itrf2014)),
        ('atrf fwd', lambda: tr.transform_atrf2014_to_gda2020(*P, d2, V)), ('atrf back', lambda: tr.transform_gda2020_to_atrf2014(*P, d2, V)),
        ('mga94->2020', lambda: tr.transform_mga94_to_mga2020(55, 500000.0, 6000000.0, 10.0, V)),
        ('mga2020->94', lambda: tr.transform_mga2020_to_mga94(55, 500000.0, 6000000.0)),
        ('vcv_cart2local', lambda: gs.vcv_cart2local(V, -33.0, 151.0)), ('vcv_local2cart col', lambda: gs.vcv_local2cart(col, -33.0, 151.0)),
        ('error_ellipse', lambda: gs.error_ellipse(V)), ('relative_error', lambda: gs.relative_error(-33.0, 151.0, V, V * 2, V * 0.1)),
        ('precise_inst_ht', lambda: sv.precise_inst_ht(va, 0.2, 0.5)), ('first_vel_corrn', lambda: sv.first_vel_corrn(1000.0, (281.0, 79.0), 20.0, 1010.0, 50.0)),
        ('add', lambda: vars(gc.itrf2014_to_gda2020 + d2)), ('neg', lambda: vars(-gc.itrf2008_to_gda94)),
        ('add static', lambda: vars(gc.agd84_to_gda94 + d2)), ('conform14 static', lambda: tr.conform14(*P, d1, gc.gda94_to_gda2020)),
        ('conform14 static agd', lambda: tr.conform14(*P, d2, gc.agd66_to_gda94)),
    ]
    # ellipsoids that share the inverse flattening but not the semi-major axis, and same-labelled parameter sets: results must not
    # depend on which of them was used first
    for nm, (sa, sf) in (('ANS', (6378160.0, 298.25)), ('NWL9D', (6378145.0, 298.25)), ('K300a', (6400000.0, 300.0)), ('K300b', (6300000.0, 300.0))):
        e_ = gc.Ellipsoid(sa, sf)
        calls += [('rect_radius %s' % nm, (lambda e=e_: cv.rect_radius(e))), ('geo2grid %s' % nm, (lambda e=e_: cv.geo2grid(-33.5, 151.2, 0, e))),
                  ('grid2geo %s' % nm, (lambda e=e_: cv.grid2geo(56, 300000.0, 6250000.0, 'south', e))),
                  ('vincinv %s' % nm, (lambda e=e_: gd.vincinv(-33.0, 151.0, -34.0, 150.0, e))), ('llh2xyz %s' % nm, (lambda e=e_: cv.llh2xyz(-33.5, 151.2, 10.0, e)))]
    Z = np.zeros((3, 3))
    calls += [('relative_error fixed station', lambda: gs.relative_error(-33.0, 151.0, Z, V * 2, Z)), ('vcv_cart2local null', lambda: gs.vcv_cart2local(Z, -33.0, 151.0).tolist()),
              ('relative_error fixed station again', lambda: gs.relative_error(-33.0, 151.0, Z, V * 2, Z))]
    # a station-to-station covariance block of a joint adjustment is not symmetric
    C12 = np.array([[1.0e-5, 2.0e-6, -1.0e-6], [3.0e-6, 2.0e-5, 4.0e-6], [5.0e-7, -2.0e-6, 1.5e-5]])
    calls += [('relative_error asymmetric block', lambda: gs.relative_error(-33.0, 151.0, V, V * 2, C12)),
              ('relative_error asymmetric block again', lambda: gs.relative_error(-33.0, 151.0, V, V * 2, C12))]
    mut = {'V': V, 'col': col, 'va': va, 'Z': Z, 'C12': C12}
    return calls, mut


def _digest(v):
    import hashlib
    return hashlib.sha1(repr(snap(v)).encode()).hexdigest()


def _digest_call(f):
    try:
        return _digest(f())
    except Exception as ex:  # noqa
        return 'raised %s' % type(ex).__name__


def _fresh_process_results(reverse):
    """the battery evaluated once, in a fresh interpreter, in the given order: {name: digest of the result}"""
    import json, os, subprocess, sys
    code = ('import sys, json; sys.path[:0] = json.loads(sys.argv[1]); from oracles import c09; calls, mut = c09.battery(); '
            'calls = calls[::-1] if sys.argv[2] == "1" else calls; print(json.dumps({n: c09._digest_call(f) for n, f in calls}))')
    p = subprocess.run([sys.executable, '-c', code, json.dumps(sys.path), '1' if reverse else '0'], capture_output=True, text=True, timeout=600)
    if p.returncode != 0:
        raise RuntimeError('battery child failed: %s' % p.stderr[-300:])
    return json.loads(p.stdout.strip().splitlines()[-1])


def purity(a):
    msgs = []
    calls, mut = battery()
    before_const = module_snapshot()
    before_args = snap(mut)
    def ev(fn):
        try:
            return snap(fn())
        except Exception as ex:  # noqa - an exception is an outcome too (it must then be the outcome every time)
            return ('raised', type(ex).__name__, str(ex)[:80])
    first = {}
    for name, fn in calls:
        first[name] = ev(fn)
    for rnd in range(2):
        order = calls[::-1] if rnd == 0 else calls
        for name, fn in order:
            r = ev(fn)
            if r != first[name]:
                msgs.append('%s returns a different result when repeated after other calls' % name)
    after_const = module_snapshot()
    ch = sorted(str(k) for k in set(before_const) | set(after_const) if before_const.get(k) != after_const.get(k))
    if ch:
        msgs.append('module-level state / constants changed: %s' % ch[:5])
    if snap(mut) != before_args:
        msgs.append('an argument supplied by the caller was modified')
    # order dependence: the battery in a fresh interpreter, forwards and backwards - every call must give the same result in both
    try:
        fw, bw = _fresh_process_results(False), _fresh_process_results(True)
        for name in fw:
            if fw[name] != bw.get(name):
                msgs.append('%s returns a different result depending on the calls made before it (fresh process, reversed call order)' % name)
    except Exception as ex:  # noqa
        msgs.append('order-dependence battery could not run: %s' % ex)
    return bool(msgs), '; '.join(sorted(set(msgs))[:4]) if msgs else 'no state change, arguments intact, repeated results identical'
