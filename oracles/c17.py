"""Replay oracles for C17: real synthetic .gsb files (written under /verif/.work, removed afterwards) read by the un-instrumented reader."""
import os
import shutil
import struct
import tempfile
from fractions import Fraction

WORK = os.environ.get('VERIF_WORK', '/verif/.work')


def rec_str(k, v):
    return k.ljust(8).encode() + v.ljust(8).encode()


def rec_int(k, v):
    return k.ljust(8).encode() + struct.pack('<i', v) + b'\x00' * 4


def rec_dbl(k, v):
    return k.ljust(8).encode() + struct.pack('<d', float(v))


def write_gsb(path, subgrids, overview=(6378160.0, 6356774.719, 6378137.0, 6356752.314)):
    """subgrids: dicts name,parent,s_lat,n_lat,e_long,w_long,lat_inc,long_inc,nrows,ncols,field(r, c) -> 4 floats"""
    with open(path, 'wb') as f:
        f.write(rec_int('NUM_OREC', 11) + rec_int('NUM_SREC', 11) + rec_int('NUM_FILE', len(subgrids)) + rec_str('GS_TYPE', 'SECONDS') +
                rec_str('VERSION', 'NTv2.0') + rec_str('SYSTEM_F', 'GDA94') + rec_str('SYSTEM_T', 'GDA2020') + rec_dbl('MAJOR_F', overview[0]) +
                rec_dbl('MINOR_F', overview[1]) + rec_dbl('MAJOR_T', overview[2]) + rec_dbl('MINOR_T', overview[3]))
        for g in subgrids:
            f.write(rec_str('SUB_NAME', g['name']) + rec_str('PARENT', g['parent']) + rec_str('CREATED', '01012020') + rec_str('UPDATED', '02012020') +
                    rec_dbl('S_LAT', g['s_lat']) + rec_dbl('N_LAT', g['n_lat']) + rec_dbl('E_LONG', g['e_long']) + rec_dbl('W_LONG', g['w_long']) +
                    rec_dbl('LAT_INC', g['lat_inc']) + rec_dbl('LONG_INC', g['long_inc']) + rec_int('GS_COUNT', g['nrows'] * g['ncols']))
            for r in range(g['nrows']):
                for c in range(g['ncols']):
                    f.write(struct.pack('<4f', *g['field'](r, c)))
        f.write(rec_str('END', ''))


class tmpdir:
    def __enter__(self):
        os.makedirs(WORK, exist_ok=True)
        self.d = tempfile.mkdtemp(dir=WORK)
        return self.d

    def __exit__(self, *a):
        shutil.rmtree(self.d, ignore_errors=True)


def _flat(sg, field):
    h = sg['hdr']
    return dict(name=sg['name'], parent=sg.get('parent', 'NONE'), s_lat=h['s_lat'], n_lat=h['n_lat'], e_long=h['e_long'], w_long=h['w_long'],
                lat_inc=h['lat_inc'], long_inc=h['long_inc'], nrows=sg['nrows'], ncols=sg['ncols'], field=field)


def header(a):
    from geodepy.ntv2reader import read_ntv2_file
    nsub = int(a.get('nsub', 2))
    msgs = []
    subs = []
    for k in range(nsub):
        subs.append(dict(name='SG%d' % k, parent='NONE' if k == 0 else 'SG0', s_lat=-144000.123 + k, n_lat=-108000.456 + k, e_long=-540000.789,
                         w_long=-500000.012 - k, lat_inc=3600.000125 + k, long_inc=1800.5 + k / 8, nrows=3 + k, ncols=4 + 2 * k, field=lambda r, c: (r, c, 0.0, 0.0)))
    with tmpdir() as d:
        p = os.path.join(d, 'h.gsb')
        write_gsb(p, subs, (6378160.25, 6356774.5, 6378137.125, 6356752.75))
        try:
            g = read_ntv2_file(p)
        except Exception as ex:  # noqa
            return True, 'read_ntv2_file raised %s: %s' % (type(ex).__name__, ex)
    if (g.num_orec, g.num_srec, g.num_file, g.gs_type, g.version, g.system_f, g.system_t) != (11, 11, nsub, 'SECONDS', 'NTv2.0', 'GDA94', 'GDA2020'):
        msgs.append('overview header read back as %r' % ((g.num_orec, g.num_srec, g.num_file, g.gs_type, g.version, g.system_f, g.system_t),))
    if (g.major_f, g.minor_f, g.major_t, g.minor_t) != (6378160.25, 6356774.5, 6378137.125, 6356752.75):
        msgs.append('ellipsoid axes read back as %r' % ((g.major_f, g.minor_f, g.major_t, g.minor_t),))
    for s in subs:
        sg = g.subgrids.get(s['name'])
        if sg is None:
            msgs.append('sub-grid %s missing' % s['name'])
            continue
        for f, nd in (('s_lat', 3), ('n_lat', 3), ('e_long', 3), ('w_long', 3), ('lat_inc', 6), ('long_inc', 6)):
            if abs(getattr(sg, f) - s[f]) > 0.5 * 10 ** -nd + 1e-9:
                msgs.append('%s.%s read back as %r, written %r' % (s['name'], f, getattr(sg, f), s[f]))
        if (sg.gs_count, sg.parent, sg.created, sg.updated) != (s['nrows'] * s['ncols'], s['parent'], '01/01/2020', '02/01/2020'):
            msgs.append('%s count/parent/dates read back as %r' % (s['name'], (sg.gs_count, sg.parent, sg.created, sg.updated)))
    return bool(msgs), '; '.join(msgs[:3]) if msgs else 'metadata read back as written'


def interp(a):
    """every layout of the check, fields = polynomials exactly representable in float32, all cell kinds incl. the outermost ring"""
    from checks import c17
    from geodepy.ntv2reader import read_ntv2_file, interpolate_ntv2
    method = a.get('method', 'bilinear')
    layouts = c17.SHAPES_QUICK if a.get('tier', 'quick') == 'quick' else c17.SHAPES_THOROUGH
    sgs = layouts[int(a.get('layout', 0))]
    ti = int(a.get('sub', 0))
    deg = 1 if method == 'bilinear' else 2
    msgs = []

    def mkfield(k):
        if deg == 1:
            return lambda r, c: (0.5 + 0.25 * r - 0.125 * c + 8 * k, 1.0 - 0.5 * r + 0.75 * c, 2.0 + k, -3.0)
        return lambda r, c: (0.25 * r * r + 0.5 * r * c - 0.125 * c * c + 8 * k, 0.125 * c * c * r - 0.5 * r + 0.0625 * r * r * c * c, 1.0 * r, 2.0 * c)
    with tmpdir() as d:
        p = os.path.join(d, 'i.gsb')
        write_gsb(p, [_flat(s, mkfield(k)) for k, s in enumerate(sgs)])
        g = read_ntv2_file(p)
        t = sgs[ti]
        h = t['hdr']
        f = mkfield(ti)
        pts = []
        env = a.get('env', {})
        if 'lat_s' in env:
            pts.append((Fraction(env['lat_s']), Fraction(env['lon_s'])))
        for r in sorted({0, 1, t['nrows'] // 2, t['nrows'] - 2}):
            for c in sorted({0, 1, t['ncols'] // 2, t['ncols'] - 2}):
                for fy, fx in ((0, 0), (Fraction(1, 2), Fraction(1, 4)), (Fraction(3, 4), 0), (0, Fraction(1, 8)), (Fraction(999, 1000), Fraction(999, 1000))):
                    if 0 <= r < t['nrows'] - 1 and 0 <= c < t['ncols'] - 1:
                        pts.append((h['s_lat'] + (r + fy) * h['lat_inc'], h['e_long'] + (c + fx) * h['long_inc']))
        worst, where = 0, None
        for lat_s, lon_s in pts:
            if not (h['s_lat'] <= lat_s < h['n_lat'] and h['e_long'] <= lon_s < h['w_long']):
                continue
            if any(o is not t and o['hdr']['lat_inc'] < h['lat_inc'] and o['hdr']['s_lat'] <= lat_s < o['hdr']['n_lat']
                   and o['hdr']['e_long'] <= lon_s < o['hdr']['w_long'] for o in sgs):
                continue
            rr = (Fraction(lat_s) - h['s_lat']) / h['lat_inc']
            cc = (Fraction(lon_s) - h['e_long']) / h['long_inc']
            try:
                got = interpolate_ntv2(g, float(Fraction(lat_s) / 3600), float(Fraction(lon_s) / -3600), method)
            except Exception as ex:  # noqa
                msgs.append('interpolate_ntv2 raised %s: %s at row %.3f col %.3f' % (type(ex).__name__, ex, float(rr), float(cc)))
                continue
            if got[0] is None:
                msgs.append('no value returned inside sub-grid %s at row %.3f col %.3f' % (t['name'], float(rr), float(cc)))
                continue
            ex_ = f(float(rr), float(cc))
            ring = rr < 1 or cc < 1 or rr >= t['nrows'] - 2 or cc >= t['ncols'] - 2
            for k in range(4):
                cell_change = 4.0 * (t['nrows'] + t['ncols'])
                tol = 1e-6 + 1e-6 * cell_change + (2e-5 * cell_change if method == 'bicubic' else 0)
                dd = abs(got[k] - ex_[k])
                if dd > tol and dd > worst:
                    worst, where = dd, (float(rr), float(cc), k, got[k], ex_[k], ring)
        if where:
            msgs.append('%s interpolation in sub-grid %s (%dx%d) at row %.3f col %.3f field %d returns %r, the %s field is %r%s' % (
                method, t['name'], t['nrows'], t['ncols'], where[0], where[1], where[2], where[3], 'linear' if deg == 1 else 'bi-quadratic', where[4],
                ' [outermost ring of cells: stencil leaves the sub-grid]' if where[5] else ''))
        if method == 'bilinear':
            # bilinear interpolation is the blend of the FOUR ENCLOSING nodes: on a field that is not linear, any other choice of nodes
            # (e.g. a neighbouring cell, extrapolated) gives a different value; at a node the node value is returned
            import math
            bump = lambda k: (lambda r, c: (0.25 * r * r + 0.5 * r * c - 0.125 * c * c + 8 * k, 0.125 * c * c * r - 0.5 * r, 0.5 * r * r, 0.25 * c * c))
            p2 = os.path.join(d, 'b.gsb')
            write_gsb(p2, [_flat(s, bump(k)) for k, s in enumerate(sgs)])
            g2 = read_ntv2_file(p2)
            fb = bump(ti)
            for lat_s, lon_s in pts:
                if not (h['s_lat'] <= lat_s < h['n_lat'] and h['e_long'] <= lon_s < h['w_long']):
                    continue
                if any(o is not t and o['hdr']['lat_inc'] < h['lat_inc'] and o['hdr']['s_lat'] <= lat_s < o['hdr']['n_lat']
                       and o['hdr']['e_long'] <= lon_s < o['hdr']['w_long'] for o in sgs):
                    continue
                rr = (Fraction(lat_s) - h['s_lat']) / h['lat_inc']
                cc = (Fraction(lon_s) - h['e_long']) / h['long_inc']
                r0, c0 = math.floor(rr), math.floor(cc)
                y, x = float(rr - r0), float(cc - c0)
                try:
                    got = interpolate_ntv2(g2, float(Fraction(lat_s) / 3600), float(Fraction(lon_s) / -3600), 'bilinear')
                except Exception as ex:  # noqa
                    msgs.append('interpolate_ntv2 raised %s: %s at row %.3f col %.3f' % (type(ex).__name__, ex, float(rr), float(cc)))
                    continue
                if got[0] is None:
                    continue
                for k in range(4):
                    n00, n01, n10, n11 = fb(r0, c0)[k], fb(r0, c0 + 1)[k], fb(r0 + 1, c0)[k], fb(r0 + 1, c0 + 1)[k]
                    exp = n00 * (1 - x) * (1 - y) + n01 * x * (1 - y) + n10 * (1 - x) * y + n11 * x * y
                    if abs(got[k] - exp) > 2e-6 * max(1.0, abs(exp)) + 2e-6:
                        msgs.append('bilinear interpolation in sub-grid %s (%dx%d) at row %.3f col %.3f field %d returns %r, the blend of the four '
                                    'enclosing nodes is %r' % (t['name'], t['nrows'], t['ncols'], float(rr), float(cc), k, got[k], exp))
                        break
    return bool(msgs), '; '.join(msgs[:2]) if msgs else 'interpolation reproduces the polynomial field everywhere tried'


def selection(a):
    from checks import c17
    from geodepy.ntv2reader import read_ntv2_file, interpolate_ntv2
    parent = c17.shape('PAR', 0, 0, 3600, 3600, 5, 5)
    child = c17.shape('CHI', 3600, 3600, 900, 900, 5, 5, 'PAR')
    msgs = []
    fp = lambda r, c: (1.0 + r + 2 * c, 0.5, 0.0, 0.0)
    fc = lambda r, c: (100.0 + r + 2 * c, 50.5, 0.0, 0.0)
    for order in ((parent, child), (child, parent)):
        with tmpdir() as d:
            p = os.path.join(d, 's.gsb')
            write_gsb(p, [_flat(s, fp if s is parent else fc) for s in order])
            g = read_ntv2_file(p)
            seq = [((9000, 9000), 'parent'), ((4000, 4000), 'child'), ((12000, 2000), 'parent'), ((6000, 6500), 'child'), ((16000, -100), 'none')]
            for (la, lo), exp in seq:
                r = interpolate_ntv2(g, la / 3600, lo / -3600, 'bilinear')
                if exp == 'none':
                    if any(v is not None for v in r):
                        msgs.append('value returned outside every sub-grid')
                    continue
                if r[0] is None:
                    msgs.append('no value inside %s' % exp)
                    continue
                if (exp == 'child') != (r[0] >= 100):
                    msgs.append('point (%r, %r) in file order %s answered from the %s sub-grid (expected %s)' % (
                        la, lo, [s['name'] for s in order], 'child' if r[0] >= 100 else 'parent', exp))
    return bool(msgs), '; '.join(sorted(set(msgs))[:3]) if msgs else 'finest containing sub-grid used in every sequence'


def two_d(a):
    from checks import c17
    from geodepy.ntv2reader import read_ntv2_file
    from geodepy.transform import ntv2_2d
    msgs = []
    sg = c17.shape('Z', -144000, -540000, 3600, 3600, 5, 5)
    fields = [lambda r, c: (0.5 + r, 0.25 + c, 0.125, 0.5), lambda r, c: (0.5 + r, 0.25 + c, 0.0, 0.0), lambda r, c: (r - 1.5, c - 1.5, 1.0, 1.0),
              lambda r, c: (0.0, 0.0, 0.0, 0.0)]
    for fld in fields:
        with tmpdir() as d:
            p = os.path.join(d, 't.gsb')
            write_gsb(p, [_flat(sg, fld)])
            g = read_ntv2_file(p)
            for (rr, cc) in ((1.5, 1.5), (2.0, 2.0), (1.25, 2.5)):
                lat = (sg['hdr']['s_lat'] + rr * 3600) / 3600
                lon = -(sg['hdr']['e_long'] + cc * 3600) / 3600
                for method in ('bilinear', 'bicubic'):
                    for fwd in (True, False):
                        try:
                            tl, to = ntv2_2d(g, lat, lon, fwd, method)
                        except Exception as ex:  # noqa
                            msgs.append('ntv2_2d raised %s: %s inside the grid' % (type(ex).__name__, ex))
                            continue
                        s0, s1 = fld(rr, cc)[0], fld(rr, cc)[1]
                        sgn = 1 if fwd else -1
                        if abs(tl - (lat + sgn * s0 / 3600)) > 1e-9 or abs(to - (lon - sgn * s1 / 3600)) > 1e-9:
                            msgs.append('ntv2_2d(%s, %s) = %r, expected %r' % ('forward' if fwd else 'reverse', method, (tl, to), (lat + sgn * s0 / 3600, lon - sgn * s1 / 3600)))
            try:
                ntv2_2d(g, 10.0, 10.0)
                msgs.append('no error outside the grid')
            except ValueError:
                pass
    return bool(msgs), '; '.join(sorted(set(msgs))[:3]) if msgs else 'ntv2_2d applies the shifts with the documented signs'


def selection3(a):
    """three nested sub-grids on real files: every assignment of three names to the three levels (so that whatever the hash seed,
    some file makes the set of candidate names iterate in each order); each level stores a field offset by 1000 x level"""
    import itertools
    from checks import c17
    from geodepy.ntv2reader import read_ntv2_file, interpolate_ntv2
    msgs = []
    for names in itertools.permutations(('AAAA', 'BBBB', 'CCCC')):
        parent = c17.shape(names[0], 0, 0, 3600, 3600, 5, 5)
        mid = c17.shape(names[1], 3600, 3600, 1800, 1800, 5, 5, names[0])
        child = c17.shape(names[2], 3600, 3600, 900, 900, 5, 5, names[1])
        lev = {names[0]: 0, names[1]: 1, names[2]: 2}
        for order in ((parent, mid, child), (child, parent, mid), (mid, child, parent)):
            with tmpdir() as d:
                p = os.path.join(d, 's3.gsb')
                write_gsb(p, [_flat(s, (lambda k: (lambda r, c: (1000.0 * k + r + 2 * c, 0.5, 0.0, 0.0)))(lev[s['name']])) for s in order])
                g = read_ntv2_file(p)
                for (la, lo) in ((4000, 4000), (6000, 6500), (7000, 3700)):
                    r = interpolate_ntv2(g, la / 3600, lo / -3600, 'bilinear')
                    if r[0] is None or not (2000 <= r[0] < 3000):
                        msgs.append('point (%r, %r), levels named %s, file order %s: answered with %r, not from the finest of three nested sub-grids'
                                    % (la, lo, list(names), [s['name'] for s in order], r[0]))
    return bool(msgs), '; '.join(msgs[:2]) if msgs else 'finest of three nested sub-grids used for every naming and file order'
