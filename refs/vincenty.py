"""Reference Vincenty direct / inverse as printed in the GDA2020 Technical Manual (eqs 71-102), real arithmetic."""
from vsym.mathx import sin, cos, tan, atan, atan2, asin, sqrt, radians, degrees


def series_AB(u2):
    A = 1 + u2 / 16384 * (4096 + u2 * (-768 + u2 * (320 - 175 * u2)))
    B = u2 / 1024 * (256 + u2 * (-128 + u2 * (74 - 47 * u2)))
    return A, B


def series_C(f, cos2a):
    return f / 16 * cos2a * (4 + f * (4 - 3 * cos2a))


def delta_sigma(B, sigma, c2sm):
    return B * sin(sigma) * (c2sm + B / 4 * (cos(sigma) * (-1 + 2 * c2sm ** 2)
                                             - B / 6 * c2sm * (-3 + 4 * sin(sigma) ** 2) * (-3 + 4 * c2sm ** 2)))


def direct(lat1, lon1, az1, s, a, f, b, n_iter):
    az = radians(az1)
    U1 = atan((1 - f) * tan(radians(lat1)))
    sigma1 = atan2(tan(U1), cos(az))
    alpha = asin(cos(U1) * sin(az))
    u2 = cos(alpha) ** 2 * (a ** 2 - b ** 2) / b ** 2
    A, B = series_AB(u2)
    sigma = s / (b * A)
    steps = []
    tsm = 0
    for _ in range(n_iter):
        tsm = 2 * sigma1 + sigma
        new = s / (b * A) + delta_sigma(B, sigma, cos(tsm))
        steps.append(new - sigma)
        sigma = new
    lat2 = atan2(sin(U1) * cos(sigma) + cos(U1) * sin(sigma) * cos(az),
                 (1 - f) * sqrt(sin(alpha) ** 2 + (sin(U1) * sin(sigma) - cos(U1) * cos(sigma) * cos(az)) ** 2))
    lam = atan2(sin(sigma) * sin(az), cos(U1) * cos(sigma) - sin(U1) * sin(sigma) * cos(az))
    C = series_C(f, cos(alpha) ** 2)
    c2sm = cos(tsm)
    omega = lam - (1 - C) * f * sin(alpha) * (sigma + C * sin(sigma) * (c2sm + C * cos(sigma) * (-1 + 2 * c2sm ** 2)))
    az21 = degrees(atan2(sin(alpha), -sin(U1) * sin(sigma) + cos(U1) * cos(sigma) * cos(az))) + 180
    return {'lat2': degrees(lat2), 'lon2': lon1 + degrees(omega), 'az21': az21, 'steps': steps}


def inverse(lat1, lon1, lat2, lon2, a, f, b, n_iter):
    U1 = atan((1 - f) * tan(radians(lat1)))
    U2 = atan((1 - f) * tan(radians(lat2)))
    omega = radians(lon2 - lon1)
    lam = omega
    steps = []
    sigma = alpha = c2sm = 0
    for _ in range(n_iter):
        sin_sigma = sqrt((cos(U2) * sin(lam)) ** 2 + (cos(U1) * sin(U2) - sin(U1) * cos(U2) * cos(lam)) ** 2)
        cos_sigma = sin(U1) * sin(U2) + cos(U1) * cos(U2) * cos(lam)
        sigma = atan2(sin_sigma, cos_sigma)
        alpha = asin(cos(U1) * cos(U2) * sin(lam) / sin_sigma)
        c2sm = cos(sigma) - 2 * sin(U1) * sin(U2) / cos(alpha) ** 2
        C = series_C(f, cos(alpha) ** 2)
        new = omega + (1 - C) * f * sin(alpha) * (sigma + C * sin(sigma) * (c2sm + C * cos(sigma) * (-1 + 2 * c2sm ** 2)))
        steps.append(new - lam)
        lam = new
    u2 = cos(alpha) ** 2 * (a ** 2 - b ** 2) / b ** 2
    A, B = series_AB(u2)
    s = b * A * (sigma - delta_sigma(B, sigma, c2sm))
    az12 = degrees(atan2(cos(U2) * sin(lam), cos(U1) * sin(U2) - sin(U1) * cos(U2) * cos(lam)))
    az21 = degrees(atan2(cos(U1) * sin(lam), -sin(U1) * cos(U2) + cos(U1) * sin(U2) * cos(lam))) + 180
    return {'s': s, 'az12_raw': az12, 'az21': az21, 'steps': steps}
