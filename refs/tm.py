"""Reference transverse Mercator: Karney 2011 (J. Geodesy 85) / Karney-Krueger equations, series to n^8.

alpha (eq. 35) and beta (eq. 36) tables are typed from the paper as exact rationals; they were validated once at
authoring time by power-series reversion (sympy) and are NOT derived from the repository."""
from fractions import Fraction as F
from vsym import mathx
from vsym.mathx import sin, cos, tan, atan, sinh, cosh, log, sqrt, radians, degrees

ALPHA = [
    [F(1, 2), F(-2, 3), F(5, 16), F(41, 180), F(-127, 288), F(7891, 37800), F(72161, 387072), F(-18975107, 50803200)],
    [F(13, 48), F(-3, 5), F(557, 1440), F(281, 630), F(-1983433, 1935360), F(13769, 28800), F(148003883, 174182400)],
    [F(61, 240), F(-103, 140), F(15061, 26880), F(167603, 181440), F(-67102379, 29030400), F(79682431, 79833600)],
    [F(49561, 161280), F(-179, 168), F(6601661, 7257600), F(97445, 49896), F(-40176129013, 7664025600)],
    [F(34729, 80640), F(-3418889, 1995840), F(14644087, 9123840), F(2605413599, 622702080)],
    [F(212378941, 319334400), F(-30705481, 10378368), F(175214326799, 58118860800)],
    [F(1522256789, 1383782400), F(-16759934899, 3113510400)],
    [F(1424729850961, 743921418240)],
]
BETA = [
    [F(1, 2), F(-2, 3), F(37, 96), F(-1, 360), F(-81, 512), F(96199, 604800), F(-5406467, 38707200), F(7944359, 67737600)],
    [F(1, 48), F(1, 15), F(-437, 1440), F(46, 105), F(-1118711, 3870720), F(51841, 1209600), F(24749483, 348364800)],
    [F(17, 480), F(-37, 840), F(-209, 4480), F(5569, 90720), F(9261899, 58060800), F(-6457463, 17740800)],
    [F(4397, 161280), F(-11, 504), F(-830251, 7257600), F(466511, 2494800), F(324154477, 7664025600)],
    [F(4583, 161280), F(-108847, 3991680), F(-8005831, 63866880), F(22894433, 124540416)],
    [F(20648693, 638668800), F(-16363163, 518918400), F(-2204645983, 12915302400)],
    [F(219941297, 5535129600), F(-497323811, 12454041600)],
    [F(191773887257, 3719607091200)],
]


def series(table, n):
    out = []
    for j, row in enumerate(table):
        s = 0
        for k, c in enumerate(row):
            s = s + c * n ** (j + 1 + k)
        out.append(s)
    return out


def alpha(n):
    return series(ALPHA, n)


def beta(n):
    return series(BETA, n)


def rect_radius(a, n):
    return a / (1 + n) * (1 + n ** 2 / 4 + n ** 4 / 64 + n ** 6 / 256 + 25 * n ** 8 / 16384)


def conformal_tau(t, e):
    """tau' from tau = tan(phi) (Karney eqs 7-9)"""
    sigx = e * t / sqrt(1 + t ** 2)
    sg = sinh(e * (0.5 * log((1 + sigx) / (1 - sigx))))     # sinh(e atanh(e t / sqrt(1+t^2)))
    return t * sqrt(1 + sg ** 2) - sg * sqrt(1 + t ** 2)


def forward(lat_deg, lon_deg, cm_deg, e, A, al, k0, FE, FN, south):
    """easting, northing and the intermediate quantities; al = (alpha_2 .. alpha_16); A rectifying radius"""
    phi = radians(lat_deg)
    dl = radians(lon_deg - cm_deg)
    t = tan(phi)
    tp = conformal_tau(t, e)
    chi = atan(tp)
    xi1 = atan(tan(chi) / cos(dl))
    u = sin(dl) / sqrt(tan(chi) ** 2 + cos(dl) ** 2)
    eta1 = log(u + sqrt(1 + u ** 2))                          # asinh(u)
    xi, eta = xi1, eta1
    for j in range(1, 9):
        xi = xi + al[j - 1] * sin(2 * j * xi1) * cosh(2 * j * eta1)
        eta = eta + al[j - 1] * cos(2 * j * xi1) * sinh(2 * j * eta1)
    E = k0 * A * eta + FE
    N = k0 * A * xi + (FN if south else 0)
    return {'E': E, 'N': N, 'xi': xi, 'eta': eta, 'xi1': xi1, 'eta1': eta1, 'chi': chi, 'phi': phi, 'dl': dl, 'y': A * xi}


def scale_conv(xi1, eta1, lat_deg, lon_deg, cm_deg, chi, a, e2, A, al, k0):
    """point scale factor and |grid convergence| (degrees) from the Gauss-Schreiber quantities (Karney eqs 23-26)"""
    phi = radians(lat_deg)
    dl = radians(lon_deg - cm_deg)
    p, q = 1, 0
    for r in range(1, 9):
        p = p + 2 * r * al[r - 1] * cos(2 * r * xi1) * cosh(2 * r * eta1)
        q = q + 2 * r * al[r - 1] * sin(2 * r * xi1) * sinh(2 * r * eta1)
    q = -q
    psf = k0 * (A / a) * sqrt(q ** 2 + p ** 2) * (sqrt(1 + tan(phi) ** 2) * sqrt(1 - e2 * sin(phi) ** 2)
                                                     / sqrt(tan(chi) ** 2 + cos(dl) ** 2))
    conv = degrees(atan(abs(q / p)) + atan(abs(tan(chi) * tan(dl)) / sqrt(1 + tan(chi) ** 2)))
    return psf, conv


def inverse_gs(E, N, k0, FE, FN, A, be, south):
    """Gauss-Schreiber ratios and tau' from grid coordinates (Karney eqs 15-18 with b_j = -beta_j)"""
    x = (E - FE) / k0
    y = (N - FN) / k0 if south else -(N / k0)
    xi, eta = y / A, x / A
    xi1, eta1 = xi, eta
    for r in range(1, 9):
        eta1 = eta1 - be[r - 1] * cos(2 * r * xi) * sinh(2 * r * eta)
        xi1 = xi1 - be[r - 1] * sin(2 * r * xi) * cosh(2 * r * eta)
    tp = sin(xi1) / sqrt(sinh(eta1) ** 2 + cos(xi1) ** 2)
    dl = atan(sinh(eta1) / cos(xi1))
    return {'xi': xi, 'eta': eta, 'xi1': xi1, 'eta1': eta1, 'tp': tp, 'dl_deg': degrees(dl), 'chi': atan(tp)}


def newton_tau(tp, e, e2, n_iter):
    """Newton iteration for tau from tau' (Karney eqs 19-21), n_iter steps from tau_0 = tau'"""
    def sigma(t):
        return sinh(e * 0.5 * log((1 + e * t / sqrt(1 + t ** 2)) / (1 - e * t / sqrt(1 + t ** 2))))
    t = tp
    steps = []
    for _ in range(n_iter):
        s = sigma(t)
        f = t * sqrt(1 + s ** 2) - s * sqrt(1 + t ** 2) - tp
        f1 = (sqrt(1 + s ** 2) * sqrt(1 + t ** 2) - s * t) * (((1 - e2) * sqrt(1 + t ** 2)) / (1 + (1 - e2) * t ** 2))
        new = t - f / f1
        steps.append(new - t)
        t = new
    return t, steps
