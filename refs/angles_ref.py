"""Reference semantics of HP notation over the reals (R-model), written from the definition DDD.MMSSsss...

hp2dec_real is used (a) as the summary of hp2dec inside R-model checks of other modules (the real hp2dec is decided
by the F-model check C08) and (b) as the R-model reference in C08/C12 plumbing obligations."""
from vsym import core
from vsym.core import SymReal


def hp2dec_real(hp):
    """angle in degrees denoted by the HP value rounded to 13 decimals (what the library parses); raises ValueError
    when the minutes or seconds field is >= 60"""
    neg = hp < 0
    a = abs(hp)
    r = round(a, 13)
    deg = core.sym_floor(r) if isinstance(r, SymReal) else float(int(r))
    frac = r - deg
    mm = core.sym_floor(frac * 100) if isinstance(frac, SymReal) else float(int(frac * 100 + 1e-12))
    ss = frac * 10000 - mm * 100
    if mm >= 60:
        raise ValueError('Invalid HP Notation: minutes field')
    if ss >= 60:
        raise ValueError('Invalid HP Notation: seconds field')
    dec = deg + mm / 60 + ss / 3600
    return -dec if neg else dec
