"""Reference ellipsoid quantities from (a, 1/f) - textbook definitions."""
from vsym import mathx


class RefEll:
    def __init__(self, a, invf):
        self.a = a
        self.invf = invf
        self.f = 1 / invf
        self.b = a * (1 - self.f)
        self.e2 = self.f * (2 - self.f)
        self.ep2 = self.e2 / (1 - self.e2)
        self.e = mathx.sqrt(self.e2)
        self.n = self.f / (2 - self.f)


def nu(ell, lat_rad):
    return ell.a / mathx.sqrt(1 - ell.e2 * mathx.sin(lat_rad) ** 2)


def rho(ell, lat_rad):
    w = 1 - ell.e2 * mathx.sin(lat_rad) ** 2
    return ell.a * (1 - ell.e2) / (w * mathx.sqrt(w))


def llh2xyz(ell, lat_deg, lon_deg, h):
    la, lo = mathx.radians(lat_deg), mathx.radians(lon_deg)
    N = nu(ell, la)
    return ((N + h) * mathx.cos(la) * mathx.cos(lo), (N + h) * mathx.cos(la) * mathx.sin(lo),
            (N * (1 - ell.e2) + h) * mathx.sin(la))


def xyz2llh_iter(ell, x, y, z, n_iter):
    """Bowring-start fixed-point iteration as printed in the GDA2020 technical manual, n_iter passes"""
    lon = mathx.atan2(y, x)
    p = mathx.sqrt(x * x + y * y)
    lat = mathx.atan(z * (1 + ell.ep2) / p)
    steps = []
    for _ in range(n_iter):
        N = nu(ell, lat)
        new = mathx.atan((z + N * ell.e2 * mathx.sin(lat)) / p)
        steps.append(lat - new)
        lat = new
    N = nu(ell, lat)
    h = p * mathx.cos(lat) + z * mathx.sin(lat) - ell.a * ell.a / N      # cancellation-free form
    return mathx.degrees(lat), mathx.degrees(lon), h, steps


PUBLISHED = {'grs80': (6378137, '298.257222101'), 'wgs84': (6378137, '298.257223563'), 'ans': (6378160, '298.25'),
             'intl24': (6378388, '297')}
