"""Reference 7/14-parameter similarity transformation, Australian convention (GDA2020 Technical Manual, sect. 3):
X' = T + (1 + s*1e-6) * R * X,  R = [[1, rz, -ry], [-rz, 1, rx], [ry, -rx, 1]] with rotations in radians."""
from vsym import mathx

PARAMS = ['tx', 'ty', 'tz', 'sc', 'rx', 'ry', 'rz']


def arcsec_to_rad(a):
    return mathx.radians(a / 3600)


def helmert(x, y, z, tx, ty, tz, sc_ppm, rx_rad, ry_rad, rz_rad):
    s = 1 + sc_ppm / 1000000
    xo = tx + s * (x + rz_rad * y - ry_rad * z)
    yo = ty + s * (-rz_rad * x + y + rx_rad * z)
    zo = tz + s * (ry_rad * x - rx_rad * y + z)
    return xo, yo, zo


def helmert_s(x, y, z, tx, ty, tz, s, rx_rad, ry_rad, rz_rad):
    """same with the scale given as the factor s itself"""
    xo = tx + s * (x + rz_rad * y - ry_rad * z)
    yo = ty + s * (-rz_rad * x + y + rx_rad * z)
    zo = tz + s * (ry_rad * x - rx_rad * y + z)
    return xo, yo, zo


def jacobian_cols(x, y, z, tx, ty, tz, s, rx, ry, rz):
    """Columns of d(X')/d(x, y, z, s, rx, ry, rz, tx, ty, tz): the formula is affine in each argument separately, so
    the partial derivative w.r.t. p is exactly f(p+1) - f(p)."""
    base = helmert_s(x, y, z, tx, ty, tz, s, rx, ry, rz)
    args = dict(x=x, y=y, z=z, tx=tx, ty=ty, tz=tz, s=s, rx=rx, ry=ry, rz=rz)
    cols = []
    for p in ('x', 'y', 'z', 's', 'rx', 'ry', 'rz', 'tx', 'ty', 'tz'):
        a2 = dict(args)
        a2[p] = a2[p] + 1
        f = helmert_s(a2['x'], a2['y'], a2['z'], a2['tx'], a2['ty'], a2['tz'], a2['s'], a2['rx'], a2['ry'], a2['rz'])
        cols.append(tuple(f[i] - base[i] for i in range(3)))
    return cols


def propagate(cols, qdiag_params, vcv):
    """J Q J^T with Q = blockdiag(vcv (3x3 nested list), diag(qdiag_params (7)))"""
    out = [[0, 0, 0], [0, 0, 0], [0, 0, 0]]
    for i in range(3):
        for j in range(3):
            acc = 0
            for a in range(3):
                for b in range(3):
                    acc = acc + cols[a][i] * vcv[a][b] * cols[b][j]
            for k in range(7):
                acc = acc + cols[3 + k][i] * qdiag_params[k] * cols[3 + k][j]
            out[i][j] = acc
    return out
