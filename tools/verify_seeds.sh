#!/bin/bash
# Verifies every seeded change from the sub-agents in a scratch worktree: patch applies to /repo HEAD, the repository test suite still
# passes with it, the demonstration fails with it and passes without it. Writes /tmp/seedverify/<id>.txt
mkdir -p /tmp/seedverify
for d in /tmp/seed/out/C*/m*; do
  pid=$(basename $(dirname $d)); m=$(basename $d); id=${pid}-${m}
  P=$d/patch.diff; [ -f $d/patch.rebased.diff ] && P=$d/patch.rebased.diff
  WT=$(mktemp -d /tmp/svw.XXXXXX)
  git -C /repo worktree add -q --detach $WT HEAD || continue
  ( cd $WT
    base_demo=$(cd $d && PYTHONPATH=$WT timeout 600 /venv/bin/python demo.py $WT >/dev/null 2>&1; echo $?)
    if git apply $P 2>/dev/null || patch -p1 -F3 -s < $P; then applied=yes; else applied=no; fi
    if [ $applied = yes ]; then
      git diff > /tmp/seedverify/$id.patch
      tests=$(timeout 900 /venv/bin/python -m pytest -q -p no:cacheprovider 2>&1 | tail -1)
      mut_demo=$(cd $d && PYTHONPATH=$WT timeout 600 /venv/bin/python demo.py $WT >/dev/null 2>&1; echo $?)
    fi
    echo "$id applied=$applied tests='$tests' demo_without=$base_demo demo_with=$mut_demo" > /tmp/seedverify/$id.txt
  )
  git -C /repo worktree remove --force $WT; rm -rf $WT
done
cat /tmp/seedverify/*.txt
