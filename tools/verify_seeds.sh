#!/bin/bash
# usage: tools/verify_seeds.sh [seed ids...]   (default: every directory of /tmp/seedstage)
# Verifies seeded changes in scratch worktrees of /repo (never /repo itself): the patch applies to /repo HEAD, the repository test suite
# still passes with it, the demonstration fails with it and passes without it. Writes /tmp/seedverify/<id>.txt
ST=/tmp/seedstage
mkdir -p /tmp/seedverify
ids="$@"; [ -z "$ids" ] && ids=$(ls $ST)
for id in $ids; do
  d=$ST/$id; P=$d/patch.diff
  WT=$(mktemp -d /tmp/svw.XXXXXX)
  git -C /repo worktree add -q --detach $WT HEAD || continue
  ( cd $WT
    base_demo=$(cd $d && PYTHONPATH=$WT timeout 900 /venv/bin/python demo.py $WT >/dev/null 2>&1; echo $?)
    if git apply $P 2>/dev/null || patch -p1 -F3 -s < $P; then applied=yes; else applied=no; fi
    if [ $applied = yes ]; then
      git diff > $d/patch.applied.diff
      tests=$(timeout 900 /venv/bin/python -m pytest -q -p no:cacheprovider 2>&1 | tail -1)
      mut_demo=$(cd $d && PYTHONPATH=$WT timeout 900 /venv/bin/python demo.py $WT >/dev/null 2>&1; echo $?)
    fi
    echo "$id applied=$applied tests='$tests' demo_without=$base_demo demo_with=$mut_demo" > /tmp/seedverify/$id.txt
  )
  git -C /repo worktree remove --force $WT; rm -rf $WT
  cat /tmp/seedverify/$id.txt
done
