#!/usr/bin/env python3
"""Reverses every recorded fix commit in a scratch worktree (tools/try_patch.sh commit:<hash>) and runs the check of its property on it.
Writes seeded/reversed_fixes.json."""
import json, os, re, subprocess
V = '/verif'
kf = json.load(open(os.path.join(V, 'known_findings.json')))
jobs = []
for f in kf['findings']:
    m = re.match(r'fixed: property=(C\d\d) ([0-9a-f]{7})', f['status'])
    if m:
        jobs.append((m.group(2), m.group(1)))
out = []
for commit, pid in jobs:
    p = subprocess.run([os.path.join(V, 'tools', 'try_patch.sh'), 'commit:' + commit, pid, '--jobs', '14'], capture_output=True, text=True, timeout=7200)
    o = p.stdout
    r = {'commit': commit, 'check': pid, 'violation_lines': len([l for l in o.splitlines() if l.startswith('VIOLATION')]),
         'exit': (re.findall(r'EXIT=(\d+)', o) or ['?'])[-1], 'summary': ([l for l in o.splitlines() if l.startswith('SUMMARY')] or [o[-200:]])[-1],
         'first_message': next((l.strip()[:300] for l in o.splitlines() if 'REPLAY-VIOLATED' in l), '')}
    if 'cannot reverse' in o:
        r['exit'] = 'not reversible on the current tree (later commits touch the same lines)'
    out.append(r)
    print(commit, pid, r['violation_lines'], r['exit'], flush=True)
    json.dump(out, open(os.path.join(V, 'seeded', 'reversed_fixes.json'), 'w'), indent=1)
