#!/usr/bin/env python3
"""Regenerates MANIFEST.json from tools/manifest_src.py-style data kept here (single source of truth)."""
import json, os, sys
sys.path.insert(0, os.path.dirname(os.path.abspath(__file__)))
from manifest_data import CHECKS, NOT_APPLICABLE, FIX_COMMITS

man = {
    'version': 1,
    'setup_cmd': './setup.sh',
    'hooks': {
        'guard': 'GEODEPY_VERIF',
        'enable': 'none needed: the engine instruments a private in-memory copy of /repo source on every run; /repo carries no hooks',
        'baseline_off_cmd': 'cd /repo && /venv/bin/python -m pytest -ra -q -p no:cacheprovider --timeout=900 --continue-on-collection-errors',
        'source_commits': [],
        'add_only': True,
    },
    'engines': [
        {'name': 'vsym', 'path': 'vsym/', 'serves_properties': sorted(CHECKS),
         'kind_free_text': 'bounded symbolic execution of the repository\'s own Python source (AST-instrumented import, '
                           'SymReal tracer over z3, path forking by re-execution) + SMT portfolio (z3 5.1, z3 4.8.12, cvc5); '
                           'witnesses replayed on the un-instrumented code'},
    ],
    'checks': [],
    'notes': 'Genuine defects repaired in /repo by separate "fix:" commits: ' + ', '.join(FIX_COMMITS) +
             '. See known_findings.json and DESIGN.md section 12.',
    'not_applicable': [{'property_id': k, 'reason': v} for k, v in sorted(NOT_APPLICABLE.items()) if k not in CHECKS],
}
for pid in sorted(CHECKS):
    c = CHECKS[pid]
    man['checks'].append({
        'property_id': pid,
        'quick_cmd': './vcheck %s --tier quick' % pid,
        'thorough_cmd': './vcheck %s --tier thorough' % pid,
        'evidence_file': 'evidence/%s.json' % pid,
        'replay_cmd_template': './vcheck %s --replay {path}' % pid,
        'engine': 'vsym',
        'level_claimed': {'category': c.get('category', 'other'), 'text': c['text'], 'design_ref': c['design_ref']},
        'level_note': c['note'],
        'technique': c['technique'],
    })
with open(os.path.join(os.path.dirname(os.path.abspath(__file__)), '..', 'MANIFEST.json'), 'w') as f:
    json.dump(man, f, indent=1)
print('checks:', len(man['checks']), 'not_applicable:', len(man['not_applicable']))
