#!/bin/bash
# usage: tools/try_patch.sh <patch.diff|commit:HASH> <ID> [vcheck args...]
# Applies a patch (or reverses a fix commit) in a scratch worktree of /repo (never /repo itself), points the engine
# and the replay at it (VERIF_REPO / VERIF_REPLAY_REPO), runs the check, removes the worktree.
P="$1"; ID="$2"; shift 2
WT=$(mktemp -d /tmp/vwt.XXXXXX)
git -C /repo worktree add -q --detach "$WT" HEAD || exit 9
cleanup() { git -C /repo worktree remove --force "$WT" 2>/dev/null; rm -rf "$WT"; }
trap cleanup EXIT
cd "$WT" || exit 9
if [[ "$P" == commit:* ]]; then
  git show "${P#commit:}" | git apply -R || { echo "cannot reverse ${P}"; exit 9; }
else
  git apply "$P" 2>/dev/null || patch -p1 -F3 -s < "$P" || { echo "cannot apply $P"; exit 9; }
fi
export VERIF_REPO="$WT" VERIF_REPLAY_REPO="$WT" VERIF_EVIDENCE_DIR="$WT/.evidence" VERIF_REPLAY_DIR="$WT/.replays"
cd /verif && ./vcheck "$ID" "$@"; rc=$?
echo "EXIT=$rc"
