#!/bin/bash
# usage: tools/try_patch.sh <patch.diff|commit:HASH> <ID> [vcheck args...]
# Applies a patch (or reverses a fix commit) to /repo, runs the check, and restores /repo.
P="$1"; ID="$2"; shift 2
cd /repo || exit 9
if ! git diff --quiet; then echo "/repo not clean"; exit 9; fi
if [[ "$P" == commit:* ]]; then
  git show "${P#commit:}" | git apply -R || { echo "cannot reverse ${P}"; exit 9; }
else
  git apply "$P" || { echo "cannot apply $P"; exit 9; }
fi
cd /verif && ./vcheck "$ID" "$@"; rc=$?
git -C /repo checkout -- . 
echo "EXIT=$rc"
