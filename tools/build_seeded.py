#!/usr/bin/env python3
"""Copies the verified seeded changes into /verif/seeded/<id>/ and records which check catches them.
usage: build_seeded.py [ids...]   (runs tools/try_patch.sh for each seed against the check(s) of its property)"""
import json, os, re, shutil, subprocess, sys
SRC = '/tmp/seed/out'
DST = '/verif/seeded'
EXTRA = {'C02-m2': ['C01'], 'C06-m1': ['C09'], 'C07-m1': ['C09'], 'C09-m1': ['C07'], 'C09-m2': ['C06']}
head = subprocess.check_output(['git', '-C', '/repo', 'rev-parse', '--short', 'HEAD'], text=True).strip()
ids = sys.argv[1:] or sorted(d + '-' + m for d in os.listdir(SRC) if d.startswith('C') for m in os.listdir(os.path.join(SRC, d)) if m.startswith('m'))
for sid in ids:
    pid, m = sid.split('-')
    src = os.path.join(SRC, pid, m)
    dst = os.path.join(DST, sid)
    os.makedirs(dst, exist_ok=True)
    patch = '/tmp/seedverify/%s.patch' % sid
    if not os.path.exists(patch):
        patch = os.path.join(src, 'patch.diff')
    shutil.copy(patch, os.path.join(dst, 'patch.diff'))
    for f in ('demo.py', 'notes.md', 'pandas.py'):
        if os.path.exists(os.path.join(src, f)):
            shutil.copy(os.path.join(src, f), os.path.join(dst, f))
    ver = open('/tmp/seedverify/%s.txt' % sid).read().strip() if os.path.exists('/tmp/seedverify/%s.txt' % sid) else ''
    notes = open(os.path.join(src, 'notes.md')).read() if os.path.exists(os.path.join(src, 'notes.md')) else ''
    det = {}
    for chk in [pid] + EXTRA.get(sid, []):
        p = subprocess.run(['/verif/tools/try_patch.sh', os.path.join(dst, 'patch.diff'), chk, '--jobs', '14'], capture_output=True, text=True, timeout=3600)
        out = p.stdout
        summ = [l for l in out.splitlines() if l.startswith('SUMMARY')]
        det[chk] = {'violation_lines': len([l for l in out.splitlines() if l.startswith('VIOLATION')]),
                    'exit': (re.findall(r'EXIT=(\d+)', out) or ['?'])[-1], 'summary': summ[-1] if summ else out[-300:],
                    'first_message': next((l.strip()[:400] for l in out.splitlines() if 'REPLAY-VIOLATED' in l), '')}
    meta = {'id': sid, 'property': pid, 'origin': 'independent sub-agent given only the property text and a scratch worktree',
            'needs_to_manifest': ' '.join(notes.split())[:900],
            'verified_by_me': {'what_i_ran': 'tools/verify_seeds.sh: patch applied in a scratch worktree of /repo; full repository test suite with the change; '
                                             'demo.py with and without the change', 'result': ver, 'repo_head_at_verification': head},
            'detected_by_checks': det}
    json.dump(meta, open(os.path.join(dst, 'meta.json'), 'w'), indent=1)
    print(sid, {k: (v['violation_lines'], v['exit']) for k, v in det.items()}, flush=True)
