#!/usr/bin/env python3
"""Copies verified seeded changes from /tmp/seedstage/<id>/ into /verif/seeded/<id>/ and records which check catches them.
usage: build_seeded.py [--no-run] [ids...]
For every seed it runs tools/try_patch.sh (scratch worktree of /repo, never /repo itself) against the quick check of its property
(and the extra checks listed in EXTRA) and stores the outcome in meta.json."""
import json, os, re, shutil, subprocess, sys
from concurrent.futures import ThreadPoolExecutor
SRC = '/tmp/seedstage'
DST = '/verif/seeded'
EXTRA = {'C02-m2': ['C01'], 'C06-m1': ['C09'], 'C07-m1': ['C09'], 'C09-m1': ['C07'], 'C09-m2': ['C06'], 'C09-m3': ['C01', 'C02'], 'C01-m4': ['C09'],
         'C07-m4': ['C09'], 'C10-m3': ['C15'], 'C05-m6': ['C09'], 'C10-m6': ['C09'], 'C12-m5': ['C08'], 'C07-m6': ['C09'], 'C01-m5': ['C09'],
         'C07-m7': ['C09'], 'C11-m7': ['C09'], 'C11-m8': ['C09'], 'C14-m8': ['C09'], 'C16-m7': ['C09'], 'C12-m8': ['C08']}
args = [a for a in sys.argv[1:] if not a.startswith('--')]
norun = '--no-run' in sys.argv
head = subprocess.check_output(['git', '-C', '/repo', 'rev-parse', '--short', 'HEAD'], text=True).strip()
ids = args or sorted(os.listdir(SRC))


def one(sid):
    pid = sid.split('-')[0]
    src, dst = os.path.join(SRC, sid), os.path.join(DST, sid)
    ver = open('/tmp/seedverify/%s.txt' % sid).read().strip() if os.path.exists('/tmp/seedverify/%s.txt' % sid) else ''
    if "applied=yes tests='75 passed" not in ver or 'demo_without=0 demo_with=1' not in ver:
        return sid, 'NOT VERIFIED: %s' % ver
    os.makedirs(dst, exist_ok=True)
    patch = os.path.join(src, 'patch.applied.diff')
    if not (os.path.exists(patch) and os.path.getsize(patch) > 0):
        patch = os.path.join(src, 'patch.diff')
    shutil.copy(patch, os.path.join(dst, 'patch.diff'))
    for f in ('demo.py', 'notes.md', 'pandas.py'):
        if os.path.exists(os.path.join(src, f)):
            shutil.copy(os.path.join(src, f), os.path.join(dst, f))
    notes = open(os.path.join(src, 'notes.md')).read() if os.path.exists(os.path.join(src, 'notes.md')) else ''
    old = json.load(open(os.path.join(dst, 'meta.json'))) if os.path.exists(os.path.join(dst, 'meta.json')) else {}
    det = old.get('detected_by_checks', {})
    if not norun:
        for chk in [pid] + EXTRA.get(sid, []):
            p = subprocess.run(['/verif/tools/try_patch.sh', os.path.join(dst, 'patch.diff'), chk, '--jobs', '8'], capture_output=True, text=True, timeout=7200)
            out = p.stdout
            summ = [l for l in out.splitlines() if l.startswith('SUMMARY')]
            det[chk] = {'violation_lines': len([l for l in out.splitlines() if l.startswith('VIOLATION')]),
                        'exit': (re.findall(r'EXIT=(\d+)', out) or ['?'])[-1], 'summary': summ[-1] if summ else out[-300:],
                        'first_message': next((l.strip()[:400] for l in out.splitlines() if 'REPLAY-VIOLATED' in l), ''), 'repo_head': head}
    meta = {'id': sid, 'property': pid, 'origin': 'independent sub-agent given only the property text and a private scratch worktree of /repo',
            'needs_to_manifest': ' '.join(notes.split())[:1200],
            'verified_by_me': {'what_i_ran': 'tools/verify_seeds.sh: patch applied in a scratch worktree of /repo HEAD; full repository test suite with the '
                                             'change; demo.py against the worktree with and without the change', 'result': ver, 'repo_head_at_verification': head},
            'detected_by_checks': det}
    json.dump(meta, open(os.path.join(dst, 'meta.json'), 'w'), indent=1)
    return sid, {k: (v['violation_lines'], v['exit']) for k, v in det.items()}


with ThreadPoolExecutor(max_workers=int(os.environ.get("SEED_WORKERS", "2"))) as ex:
    for sid, r in ex.map(one, ids):
        print(sid, r, flush=True)
