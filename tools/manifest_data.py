FIX_COMMITS = ['ee63c4e', '8e72bfe', 'fac3c39', '803947b', '012bab8', 'dbf4700', '19f97fb', '925775e', 'cbd12ec', 'f843f54', '7a5e3b3', '35d5997']
TODO = 'check not built yet in this revision (work in progress; see DESIGN.md section 7 for the planned solver-based check)'
NOT_APPLICABLE = {('C%02d' % i): TODO for i in range(1, 21)}
R_NOTE = ('R-model: floats are mathematical reals, float literals are the decimal rationals written in the source, '
          'transcendental functions are uninterpreted with sound axiom instances; IEEE rounding is outside the claim. ')
CHECKS = {
    'C03': {
        'text': 'Bounded symbolic execution + SMT: Ellipsoid.__init__, llh2xyz (float and angle-object arguments, both branches of '
                'the equator test) and xyz2llh (latitude loop unrolled to K=4/6 passes) run on a symbolic ellipsoid (a, 1/f), '
                'position, height and Cartesian point; every returning path is proved identical to the closed form / the published '
                'fixed-point algorithm (cancellation-free height), every exit is proved to bound the last latitude step by 1.1e-10 rad, '
                'longitude range follows from the atan2 axioms. Failing or undecided queries go to a witness search and are replayed '
                'on the un-instrumented code against a 40-digit closed-form oracle (which includes near-pole and 40 000 km points).',
        'design_ref': 'DESIGN.md section 7 C03',
        'note': R_NOTE + 'Convergence of the latitude iteration within K passes and all IEEE effects (including the near-pole '
                'cancellation repaired in 35d5997, which only the replay oracle can see) are outside the solver claim.',
        'technique': 'symbolic execution of the real Python source + SMT (z3 NRA with uninterpreted sin/cos/atan/sqrt), witness replay',
    },
    'C07': {
        'text': 'Bounded symbolic execution + SMT: conform14, Transformation.__add__/__neg__ and the ATRF2014<->GDA2020 wrappers '
                '(real source) run with the epoch a symbolic date (integer day offset in [-30000, 30000]), a symbolic point '
                '(|X| <= 1e7) and symbolic or shipped parameter sets (two same-labelled sets in sequence); results are proved '
                'identical to the 7-parameter formula on round8(p + rate*days/365.25); NRA lemmas bound the 8-decimal rounding '
                'by < 2 um and the set-then-negation residual of the plate-motion wrappers by 5 um for 1980..2060; identity '
                'at 2020-01-01 is proved exactly.',
        'design_ref': 'DESIGN.md section 7 C07',
        'note': R_NOTE + 'The claim composes separately proved obligations (structure identity, rounding lemma, rotation bound, '
                'second-order polynomial lemma); datetime.date arithmetic is represented by the symbolic day difference.',
        'technique': 'symbolic execution of the real Python source + SMT (z3 NRA/LRA with uninterpreted rounding), witness replay',
    },
    'C06': {
        'text': 'Bounded symbolic execution + SMT: conform7 (real source) runs on a symbolic point, symbolic parameter set '
                '(|t|<=1000 m, |s|<=100 ppm, |r|<=59.9"), symbolic uncertainties and symbolic symmetric covariance, also as a '
                '3-call sequence with two different same-labelled sets; outputs are proved identical to the Technical-Manual '
                'formula and to J Q J^T derived from the reference formula (z3, unsat of the negation); rounding lemmas '
                '(13-decimal HP parsing, <1 um) are separate LIRA/NRA queries; all 120 shipped sets are executed concretely on a '
                'symbolic point in catalogue order and reversed, their affine coefficients and set-then-negation closure decided as QF_LRA.',
        'design_ref': 'DESIGN.md section 7 C06',
        'note': R_NOTE + 'hp2dec is summarised by an uninterpreted function for symbolic sets (its own correctness is C08); '
                'PSD follows from the proved J Q J^T form.',
        'technique': 'symbolic execution of the real Python source + SMT (z3 NRA/LRA/LIRA), witness replay',
    },
    'C11': {
        'text': 'Bounded symbolic execution + SMT: Transformation.__neg__, __add__ and iers2trans are executed on fully '
                'symbolic parameter sets (arbitrary reals) and a symbolic day offset; the 120 catalogue constants are lifted '
                'to exact rationals and every forward/reverse pair and every ordered ITRF triple is discharged as a QF_LRA '
                'validity query with the common epoch a real variable over the hull of catalogue epochs. unsat = holds for '
                'every value in the bounds; any sat/failed query is replayed on the un-instrumented code before it is reported.',
        'design_ref': 'DESIGN.md section 7 C11',
        'note': 'R-model: floats are reals, a concrete float denotes its shortest-repr decimal; round(x,8) within 0.5e-8. '
                'Day offset bounded to +-30000; label check is a ground comparison.',
        'technique': 'symbolic execution of the real Python source + SMT (z3 QF_LRA/NRA), witness replay',
    },
}
