FIX_COMMITS = []
TODO = 'check not built yet in this revision (work in progress; see DESIGN.md section 7 for the planned solver-based check)'
NOT_APPLICABLE = {('C%02d' % i): TODO for i in range(1, 21)}
R_NOTE = ('R-model: floats are mathematical reals, float literals are the decimal rationals written in the source, '
          'transcendental functions are uninterpreted with sound axiom instances; IEEE rounding is outside the claim. ')
CHECKS = {
    'C07': {
        'text': 'Bounded symbolic execution + SMT: conform14, Transformation.__add__/__neg__ and the ATRF2014<->GDA2020 wrappers '
                '(real source) run with the epoch a symbolic date (integer day offset in [-30000, 30000]), a symbolic point '
                '(|X| <= 1e7) and symbolic or shipped parameter sets (two same-labelled sets in sequence); results are proved '
                'identical to the 7-parameter formula on round8(p + rate*days/365.25); NRA lemmas bound the 8-decimal rounding '
                'by < 2 um and the set-then-negation residual of the plate-motion wrappers by 5 um for 1980..2060; identity '
                'at 2020-01-01 is proved exactly.',
        'design_ref': 'DESIGN.md section 7 C07',
        'note': R_NOTE + 'The claim composes separately proved obligations (structure identity, rounding lemma, rotation bound, '
                'second-order polynomial lemma); datetime.date arithmetic is represented by the symbolic day difference.',
        'technique': 'symbolic execution of the real Python source + SMT (z3 NRA/LRA with uninterpreted rounding), witness replay',
    },
    'C06': {
        'text': 'Bounded symbolic execution + SMT: conform7 (real source) runs on a symbolic point, symbolic parameter set '
                '(|t|<=1000 m, |s|<=100 ppm, |r|<=59.9"), symbolic uncertainties and symbolic symmetric covariance, also as a '
                '3-call sequence with two different same-labelled sets; outputs are proved identical to the Technical-Manual '
                'formula and to J Q J^T derived from the reference formula (z3, unsat of the negation); rounding lemmas '
                '(13-decimal HP parsing, <1 um) are separate LIRA/NRA queries; all 120 shipped sets are executed concretely on a '
                'symbolic point in catalogue order and reversed, their affine coefficients and set-then-negation closure decided as QF_LRA.',
        'design_ref': 'DESIGN.md section 7 C06',
        'note': R_NOTE + 'hp2dec is summarised by an uninterpreted function for symbolic sets (its own correctness is C08); '
                'PSD follows from the proved J Q J^T form.',
        'technique': 'symbolic execution of the real Python source + SMT (z3 NRA/LRA/LIRA), witness replay',
    },
    'C11': {
        'text': 'Bounded symbolic execution + SMT: Transformation.__neg__, __add__ and iers2trans are executed on fully '
                'symbolic parameter sets (arbitrary reals) and a symbolic day offset; the 120 catalogue constants are lifted '
                'to exact rationals and every forward/reverse pair and every ordered ITRF triple is discharged as a QF_LRA '
                'validity query with the common epoch a real variable over the hull of catalogue epochs. unsat = holds for '
                'every value in the bounds; any sat/failed query is replayed on the un-instrumented code before it is reported.',
        'design_ref': 'DESIGN.md section 7 C11',
        'note': 'R-model: floats are reals, a concrete float denotes its shortest-repr decimal; round(x,8) within 0.5e-8. '
                'Day offset bounded to +-30000; label check is a ground comparison.',
        'technique': 'symbolic execution of the real Python source + SMT (z3 QF_LRA/NRA), witness replay',
    },
}
