FIX_COMMITS = ['ee63c4e', '8e72bfe', 'fac3c39', '803947b', '012bab8', 'dbf4700', '19f97fb', '925775e', 'cbd12ec', 'f843f54', '7a5e3b3', '35d5997', 'bbada35', '867f25c', '1e6d046', '9e14f80', '7c4e0e1', 'ac89fd3', '40778ed', 'f2148c8', '76eaf85', '9bcb695', '52e6b5d']
TODO = 'check not built yet in this revision (work in progress; see DESIGN.md section 7 for the planned solver-based check)'
NOT_APPLICABLE = {('C%02d' % i): TODO for i in range(1, 21)}
R_NOTE = ('R-model: floats are mathematical reals, float literals are the decimal rationals written in the source, '
          'transcendental functions are uninterpreted with sound axiom instances; IEEE rounding is outside the claim. ')
CHECKS = {
    'C08': {
        'text': 'Bounded symbolic execution of the real geodepy/angles.py in an exact IEEE-754 model (F-model) + SMT (QF_LIA): every float is an exact '
                'double (integer mantissa, concrete binade; each rounding a linear integer constraint), f-strings / slicing / float(text) are '
                'decimal-text objects with digit variables. Per chunk of [2^-20, 720) deg the solver decides for EVERY double of the chunk '
                '(dec2hp, dec2dms, dec2ddm, dec2gon, gon2dec) or every 13-decimal HP value of the chunk (hp2dec, HPAngle): valid input never '
                'raises, invalid HP always raises, the result denotes the same angle within 2.5e-9 arc-seconds with the same sign, produced HP '
                'values read as valid HP. DMS/DDM object methods on symbolic integer degrees/minutes and a symbolic double seconds field. All '
                '14 wrapper functions and all object methods of the five classes are proved equal to the composition of the leaf conversions '
                '(leaf calls as uninterpreted summaries). Lemmas (13-decimal reading of the double = the decimal text, below 512 deg) are '
                'themselves solver queries on the same path.',
        'design_ref': 'DESIGN.md sections 7 (C08) and 12',
        'note': 'quick: chunks of [0.25, 720) (all below 8 deg, every fourth 4-degree chunk above, rotating with VERIF_SEED) and whole-arc-second '
                'HP inputs; thorough: all 201 chunks from 2^-20 deg and all 13-decimal HP inputs. radians()/degrees() (libm), the numpy-vectorised '
                'variants, NaN/inf/-0.0 and chains as such are outside (chains follow from the per-function claims: 4 x 2.5e-9 = 1e-8 arc-seconds). '
                'Known findings: HP values of magnitude 512..720 (double spacing above 1e-13).',
        'technique': 'symbolic execution of the real Python source in an exact IEEE-double model + SMT (z3/cvc5 QF_LIA portfolio), lemma queries, '
                     'witness replay on the un-instrumented module with exact rational arithmetic',
    },
    'C12': {
        'text': 'Bounded symbolic execution + SMT (R-model) of the operator methods of DECAngle, HPAngle, GONAngle, DMSAngle, DDMAngle (real source) on '
                'operands with symbolic fields, for every ordered pair of classes and every operator the classes define (+, -, unary -, abs, * and / '
                'by a number, reflected forms, %, ==, !=, <, >, round): the result has the class of the left operand and is exactly the functional '
                'conversion of (left.dec() op right.dec()) into that class; comparisons equal the comparison of the decimal-degree values on every '
                'path; neg/abs keep the sign conventions incl. angles in (-1, 0) deg; rounding moves the value by at most half a unit.',
        'design_ref': 'DESIGN.md sections 7 (C12) and 12',
        'note': 'One operator application per query; expressions of any depth follow by structural induction while magnitudes stay below 720 deg. '
                'dec2hp / hp2dec / HPAngle validation are summarised here: that HP results are constructible and denote the right angle on every '
                'double is C08 (F-model). IEEE rounding of the decimal-degree arithmetic itself is outside (R-model).',
        'technique': 'symbolic execution of the real Python source with callee summaries + SMT (z3 LIRA/EUF), witness replay',
    },
    'C18': {
        'text': 'geodepy.gnss (real source, pandas stubbed, in-memory files): set_creation_time runs with the clock a symbolic instant and its '
                'formatted fields as decimal-text objects whose lengths are integer terms - the solver decides the result is always YY:DDD:SSSSS; '
                'remove_stns_sinex runs on generated SINEX 2.02 files (1..3 stations quick, 1..6 thorough, solution numbers 1..3, with/without velocities, L/U) with the '
                'removal set a symbolic membership predicate so every subset is a path; outputs are parsed independently and compared with the '
                'remaining estimates (renumbered), sub-matrix, header count, block structure; remove_velocity_sinex, remove_matrixzeros_sinex and '
                'the estimate/matrix/site readers on the same shapes (sites include -0 degree fields).',
        'design_ref': 'DESIGN.md section 7 C18',
        'note': 'Parts (b)/(c) are bounded exhaustive path exploration over file shapes with concrete payloads; the solver contributes the clock claim '
                'and path feasibility. Larger files, comment contents and malformed input are outside.',
        'technique': 'symbolic execution of the real Python source (symbolic clock and removal set) + SMT (z3 LIA), witness replay on generated files',
    },
    'C17': {
        'text': 'Bounded symbolic execution + SMT over a position-tracking virtual file: read_ntv2_file, interpolate_ntv2, ntv2_bilinear/ntv2_bicubic, '
                'the interpolation kernels and transform.ntv2_2d (real source); header cells typed at the offsets the NTv2 format defines (symbolic '
                'values), node values an uninterpreted function of the absolute byte offset, query point symbolic inside the selected sub-grid. '
                'LIA/NRA queries decide: header fields read from their offsets and returned rounded as specified; every node read lies in the '
                'selected sub-grid and the nodes read are exactly the intended neighbours; bilinear = exact blend; the bicubic routine passes the 16 '
                'intended nodes in their roles; the kernels reproduce linear / bi-quadratic fields (pure polynomial identities); finest containing '
                'sub-grid chosen also in call sequences; None outside; ntv2_2d signs, units, errors.',
        'design_ref': 'DESIGN.md section 7 C17',
        'note': 'Byte decoding (struct, int.from_bytes) is replaced by typed cells; float32 quantisation and IEEE rounding are outside (R-model). '
                'Known finding: bicubic stencil leaves the sub-grid in the outermost ring of cells.',
        'technique': 'symbolic execution of the real Python source over a symbolic file model + SMT (z3/cvc5 LIA+NRA), witness replay on synthetic .gsb files',
    },
    'C15': {
        'text': 'Wiring by bounded symbolic execution + SMT: CoordCart.geo/tm, CoordGeo.cart/tm/notation, CoordTM.geo/cart (real source) on symbolic '
                'coordinates, heights (present incl. exactly 0.0 / absent in every combination), symbolic ellipsoid, UTM/ISG/symbolic projection '
                'and the six notations, with xyz2llh/llh2xyz/grid2geo/geo2grid (hemisphere label an uninterpreted predicate) and dec2hp/hp2dec as '
                'argument-recording summaries: every conversion returns exactly the functional conversion for the same ellipsoid, projection and '
                'notation, heights preserved geo<->tm, N = h - H to/from Cartesian, hemisphere flag = returned label, notation() correct for all '
                '36 source/target pairs.',
        'design_ref': 'DESIGN.md section 7 C15',
        'note': '0.3 mm chain closure is a derived bound (C02/C03), not a query; HP conversion internals are summarised (C08).',
        'technique': 'symbolic execution of the real Python source with callee summaries + SMT (z3 EUF/LIRA), witness replay',
    },
    'C14': {
        'text': 'Wiring + formula by bounded symbolic execution + SMT: vincinv_utm, vincdir_utm (loop unrolled K=2), line_sf (same and cross zone), rho, '
                'nu (real source) on symbolic grid coordinates, zones, both hemispheres and a symbolic ellipsoid with grid2geo/geo2grid/vincinv/'
                'vincdir(/line_sf) as argument-recording uninterpreted summaries: grid distance = distance x line scale factor, bearings = '
                'azimuth + convergence of each end in its own zone, hemisphere/ellipsoid forwarded everywhere, direct computation = bearing - '
                'convergence, distance / lsf, re-projection in zone 1; line_sf = Deakin eq. 13 with r^2 = rho nu k0^2 at the mean latitude; rho, nu '
                '= closed forms.',
        'design_ref': 'DESIGN.md section 7 C14',
        'note': 'NOT claimed by a query (approximation-size statements over transcendental maps): direct reproduces the second point within 1 mm; '
                'line scale factor within 3e-7 / 5e-7 of the point-scale range / Simpson mean. The replay oracle measures both on real lines.',
        'technique': 'symbolic execution of the real Python source with callee summaries + SMT (z3 EUF/NRA), witness replay',
    },
    'C13': {
        'text': 'Wiring by bounded symbolic execution + SMT: transform_mga94_to_mga2020 / transform_mga2020_to_mga94 (real source) on symbolic zone, '
                'easting, northing, height (symbolic incl. 0, absent) and covariance (opaque 3x3, absent) with the seven callees replaced by '
                'uninterpreted summaries recording every argument (defaults included); on every path zone/easting/northing/height/covariance are '
                'proved equal to the stated composition with gda94_to_gda2020 or its negation, natural zone, zero height without input height, '
                'covariance rotated at the input position and back at the output position; the 3x1 variance column runs through the real '
                'statistics/conform7 code. Failures are replayed against the stepwise definition, the round trip and PSD checks.',
        'design_ref': 'DESIGN.md section 7 C13',
        'note': 'The 0.3 mm / 0.2 mm closure is a derived bound from C02, C03, C06 (not a query); callees are represented by summaries '
                '(their own properties: C02, C03, C06, C16; purity: C09).',
        'technique': 'symbolic execution of the real Python source with callee summaries + SMT (z3 EUF/LRA), witness replay',
    },
    'C09': {
        'text': 'Frame conditions by bounded symbolic execution + SMT: 56 call specifications covering every public function of convert, geodesy, '
                'statistics, survey, transform and the Transformation operators (real source) are executed twice in a row on symbolic arguments '
                'along every explored path (<= 8/40 paths each, loops unrolled once; two different same-labelled parameter sets, covariance given) '
                'under a write barrier on all shipped constants, a deep snapshot of every module-level mutable object, tracked arguments, and a '
                'solver query that the repeated call returns identical terms. Absence of writes plus results depending on arguments only is '
                'inductive over call sequences and interleavings.',
        'design_ref': 'DESIGN.md section 7 C09',
        'note': 'Thread-safety of CPython/numpy internals and file-I/O functions are outside; heavy composite functions run on concrete '
                'arguments in the quick tier (their callees are explored symbolically on their own); paths beyond the budget are counted.',
        'technique': 'symbolic execution of the real Python source with write barrier and state snapshots + SMT equality of repeated results',
    },
    'C20': {
        'text': 'Bounded symbolic execution + SMT: the two Flask handlers of api/app.py (real source) run with a request stub whose numeric '
                'query fields are symbolic reals (zero and negatives included) and whose angle-type fields range over {absent, dd, dms}^2; '
                'vincinv/vincdir/hp2dec/dec2hp are uninterpreted summaries, jsonify the identity: on every path of all 18 route/type '
                'combinations the status is 200 and every field is proved equal to the library value with HP conversion exactly when dms is '
                'requested; the index route is compared with the URL map. Failures are replayed through the real Flask test client.',
        'design_ref': 'DESIGN.md section 7 C20',
        'note': 'Werkzeug parsing and JSON float text are outside the solver model (exercised only in replay); library functions are '
                'represented by summaries (their own properties: C04, C05, C08).',
        'technique': 'symbolic execution of the real Python source with callee summaries + SMT (z3 EUF/LRA), witness replay',
    },
    'C19': {
        'text': 'Bounded symbolic execution + SMT: joins/radiations/polar2rect/rect2polar, va_conv, first_vel_params, part_h2o_vap_press, '
                'first_vel_corrn (three input forms), phase/group_refractivity (real source) on symbolic inputs over the physical box: '
                'closure of radiations(joins) from the atan2 polar axiom, bearing in [0, 360), rotation/scale arguments, Pythagoras and '
                'height shift of va_conv on both zenith branches, rejected invalid angles, no exception outcome and every division '
                'defined over the atmosphere box including 0 C and 0 %, proportionality to the distance, Rueger vapour-pressure formulae, '
                'CO2 form = (n_ref/n_g - 1) d with correct argument order (callee summaries), and group = phase + sigma d/dsigma by '
                'forward-mode differentiation of the traced phase term (rational identity, exact literals).',
        'design_ref': 'DESIGN.md section 7 C19',
        'note': R_NOTE + 'NOT claimed: 1 ppm agreement of the closed-form and Ciddor branches (needs values of exp). In the CO2 branch '
                'the saturation pressure is a bounded uninterpreted function (0..100 hPa).',
        'technique': 'symbolic execution of the real Python source + SMT (z3 NRA, uninterpreted exp/atan2/sqrt with axiom instances), witness replay',
    },
    'C16': {
        'text': 'Bounded symbolic execution + SMT: rotation_matrix, enu2xyz/xyz2enu, vcv_cart2local/vcv_local2cart (3x3 and 3x1 column), '
                'error_ellipse, relative_error and k_val95 (real source, numpy facade) on symbolic latitude/longitude, vectors and '
                'covariances; outputs proved entry-wise equal to the textbook east-north-up frame and the congruences R^T V R / R V R^T; '
                'orthonormality, det = +1, inverse and length preservation, invariance of symmetry/trace/principal minors/determinant, round '
                'trip, ellipse trace/determinant/ordering/eigenvector relations are NRA lemmas modulo sin^2+cos^2 = 1 (portfolio); k_val95 '
                'branch structure on a symbolic integer plus all 120 table indices.',
        'design_ref': 'DESIGN.md section 7 C16',
        'note': R_NOTE + 'NOT claimed: equality of the tabulated coverage factors with Student-t quantiles (no solver theory).',
        'technique': 'symbolic execution of the real Python source + SMT (z3 QF_NRA portfolio), witness replay',
    },
    'C01': {
        'text': 'Bounded symbolic execution + SMT: geo2grid, alpha_coeff, rect_radius and Ellipsoid.__init__ (real source) run on a symbolic '
                'ellipsoid (a, 1/f), symbolic Projection, symbolic latitude/longitude (float and angle-object arguments) with explicit '
                'symbolic, ISG and automatic zones; on every path easting and northing are proved equal to the Karney-Krueger reference '
                'within the 4-decimal rounding (z3, unsat of the negation), the automatic zone is proved to be in 1..60 with its central '
                'meridian within half a zone width, hemisphere label/false northing follow the sign of the projected y, out-of-range input '
                'is rejected on all paths; alpha_j(n) and the rectifying radius are compared with the published tables as 1-variable NRA '
                'with a 0.05 mm amplification budget.',
        'design_ref': 'DESIGN.md section 7 C01',
        'note': R_NOTE + 'Series truncation vs the exact projection is a trusted remainder (<= 0.1 mm) that only the replay oracle '
                '(quadrature exact TM) can see; zone-rule obligation uses concrete zone widths {2,6} (quick) / {1,2,3,6,10} (thorough).',
        'technique': 'symbolic execution of the real Python source + SMT (z3 NRA/LIRA with uninterpreted transcendentals), witness replay',
    },
    'C02': {
        'text': 'Bounded symbolic execution + SMT: grid2geo, beta_coeff and the stand-alone Standalone/mga2gda.py run on symbolic grid '
                'coordinates, ellipsoid and projection with the Newton loop unrolled (K=2/3; stand-alone: its 3 fixed steps); every path is '
                'proved equal to the Karney-Krueger inverse built on the same conformal map as the forward conversion, exits bound the last '
                'Newton step, mirror-image coordinates give identical terms with opposite latitude, invalid input is rejected on all paths, '
                'beta_j(n) vs the published table as 1-variable NRA; the explicit output roundings are read off the result terms and their '
                'first-order effect on the closures is decided as NRA queries (this yields the known finding on longitude closure above 77 deg).',
        'design_ref': 'DESIGN.md section 7 C02',
        'note': R_NOTE + 'That beta reverts alpha to 0.2 mm / 2e-9 deg and that Newton converges is trusted (validated by the quadrature '
                'oracle in replay).',
        'technique': 'symbolic execution of the real Python source + SMT (z3 NRA with uninterpreted transcendentals), witness replay',
    },
    'C04': {
        'text': 'Bounded symbolic execution + SMT: vincdir (real source) on a symbolic ellipsoid, start point, azimuth and distance with the '
                'sigma loop unrolled to K=3/5 passes; every returning path is proved identical to Vincenty\'s direct formulae of the GDA2020 '
                'Technical Manual within the output rounding, every exit bounds the last step by 1e-11, a forced non-converging run shows '
                'the loop admits >= 20 passes, angle-object arguments give the same terms.',
        'design_ref': 'DESIGN.md section 7 C04',
        'note': R_NOTE + 'Accuracy of Vincenty\'s series against the exact geodesic is trusted (<= 0.5 mm); the replay oracle integrates '
                'the exact geodesic by quadrature and is what confirms or refutes a witness.',
        'technique': 'symbolic execution of the real Python source + SMT (z3 with uninterpreted transcendentals), witness replay',
    },
    'C05': {
        'text': 'Bounded symbolic execution + SMT: vincinv (real source) on a symbolic ellipsoid and two symbolic points with the lambda loop '
                'unrolled to K=3/5 passes; every returning path is proved identical to Vincenty\'s inverse formulae within the output '
                'rounding, the forward azimuth is wrapped to [0, 360), exits bound the last step by 1e-11, the loop admits >= 100 passes, '
                'the coincidence shortcut is taken exactly below 1e-10 deg and returns zeros, a common longitude offset gives identical terms.',
        'design_ref': 'DESIGN.md section 7 C05',
        'note': R_NOTE + 'Swap symmetry of the converged result and closure on the exact geodesic are decided only by the replay oracle '
                '(quadrature geodesic), not by a solver query.',
        'technique': 'symbolic execution of the real Python source + SMT (z3 with uninterpreted transcendentals), witness replay',
    },
    'C10': {
        'text': 'Bounded symbolic execution + SMT: geo2grid, grid2geo and psfandgridconv (real source) on a symbolic ellipsoid and projection; '
                'on every path the returned point scale factor and grid convergence are proved equal to the published Karney-Krueger '
                'expressions for THAT ellipsoid and projection (8-decimal rounding), the convergence sign is proved from the path conditions '
                'in all four quadrants (grid bearing = azimuth + convergence) and proved to vanish on the central meridian and the equator.',
        'design_ref': 'DESIGN.md section 7 C10',
        'note': R_NOTE + 'Agreement of the published expressions with the derivative of the exact projection (2e-8, 1e-9 deg) is trusted; '
                'the replay oracle differentiates the exact quadrature projection.',
        'technique': 'symbolic execution of the real Python source + SMT (z3 with uninterpreted transcendentals), witness replay',
    },
    'C03': {
        'text': 'Bounded symbolic execution + SMT: Ellipsoid.__init__, llh2xyz (float and angle-object arguments, both branches of '
                'the equator test) and xyz2llh (latitude loop unrolled to K=4/6 passes) run on a symbolic ellipsoid (a, 1/f), '
                'position, height and Cartesian point; every returning path is proved identical to the closed form / the published '
                'fixed-point algorithm (cancellation-free height), every exit is proved to bound the last latitude step by 1.1e-10 rad, '
                'longitude range follows from the atan2 axioms. Failing or undecided queries go to a witness search and are replayed '
                'on the un-instrumented code against a 40-digit closed-form oracle (which includes near-pole and 40 000 km points).',
        'design_ref': 'DESIGN.md section 7 C03',
        'note': R_NOTE + 'Convergence of the latitude iteration within K passes and all IEEE effects (including the near-pole '
                'cancellation repaired in 35d5997, which only the replay oracle can see) are outside the solver claim.',
        'technique': 'symbolic execution of the real Python source + SMT (z3 NRA with uninterpreted sin/cos/atan/sqrt), witness replay',
    },
    'C07': {
        'text': 'Bounded symbolic execution + SMT: conform14, Transformation.__add__/__neg__ and the ATRF2014<->GDA2020 wrappers '
                '(real source) run with the epoch a symbolic date (integer day offset in [-30000, 30000]), a symbolic point '
                '(|X| <= 1e7) and symbolic or shipped parameter sets (two same-labelled sets in sequence); results are proved '
                'identical to the 7-parameter formula on round8(p + rate*days/365.25); NRA lemmas bound the 8-decimal rounding '
                'by < 2 um and the set-then-negation residual of the plate-motion wrappers by 5 um for 1980..2060; identity '
                'at 2020-01-01 is proved exactly.',
        'design_ref': 'DESIGN.md section 7 C07',
        'note': R_NOTE + 'The claim composes separately proved obligations (structure identity, rounding lemma, rotation bound, '
                'second-order polynomial lemma); datetime.date arithmetic is represented by the symbolic day difference.',
        'technique': 'symbolic execution of the real Python source + SMT (z3 NRA/LRA with uninterpreted rounding), witness replay',
    },
    'C06': {
        'text': 'Bounded symbolic execution + SMT: conform7 (real source) runs on a symbolic point, symbolic parameter set '
                '(|t|<=1000 m, |s|<=100 ppm, |r|<=59.9"), symbolic uncertainties and symbolic symmetric covariance, also as a '
                '3-call sequence with two different same-labelled sets; outputs are proved identical to the Technical-Manual '
                'formula and to J Q J^T derived from the reference formula (z3, unsat of the negation); rounding lemmas '
                '(13-decimal HP parsing, <1 um) are separate LIRA/NRA queries; all 120 shipped sets are executed concretely on a '
                'symbolic point in catalogue order and reversed, their affine coefficients and set-then-negation closure decided as QF_LRA.',
        'design_ref': 'DESIGN.md section 7 C06',
        'note': R_NOTE + 'hp2dec is summarised by an uninterpreted function for symbolic sets (its own correctness is C08); '
                'PSD follows from the proved J Q J^T form.',
        'technique': 'symbolic execution of the real Python source + SMT (z3 NRA/LRA/LIRA), witness replay',
    },
    'C11': {
        'text': 'Bounded symbolic execution + SMT: Transformation.__neg__, __add__ and iers2trans are executed on fully '
                'symbolic parameter sets (arbitrary reals) and a symbolic day offset; the 120 catalogue constants are lifted '
                'to exact rationals and every forward/reverse pair and every ordered ITRF triple is discharged as a QF_LRA '
                'validity query with the common epoch a real variable over the hull of catalogue epochs. unsat = holds for '
                'every value in the bounds; any sat/failed query is replayed on the un-instrumented code before it is reported.',
        'design_ref': 'DESIGN.md section 7 C11',
        'note': 'R-model: floats are reals, a concrete float denotes its shortest-repr decimal; round(x,8) within 0.5e-8. '
                'Day offset bounded to +-30000; label check is a ground comparison.',
        'technique': 'symbolic execution of the real Python source + SMT (z3 QF_LRA/NRA), witness replay',
    },
}

SEQ_NOTE = (' Call sequences (session 4): one symbolic run calls the function on ellipsoid (a, 1/f), then on (a2, 1/f2), then on the first one '
            'again with the same symbolic input (long-lived objects, and short-lived objects under an identity model in which id() of an '
            'object may equal that of a dead predecessor); result 3 = result 1 and result 2 = result 1 with the ellipsoid replaced are '
            'decided as identities, together with the branch conditions.')
ARG_NOTE = (' Angle-class arguments: the function is run on objects of each of the five angle classes and on their own dec() values in one '
            'path; outputs are proved to be identical terms.')
for _k in ('C01', 'C02', 'C03', 'C04', 'C05'):
    CHECKS[_k]['text'] += SEQ_NOTE
for _k in ('C01', 'C19'):
    CHECKS[_k]['text'] += ARG_NOTE
CHECKS['C13']['text'] += (' Height sequence: one grid position, four calls in one run (no height, 0.0, no height, integer 0; both orders), each '
                          'proved equal to the stepwise definition of its own request.')
CHECKS['C14']['text'] += ' The direct computation is decided for grid bearings in [-5, 365] (the unwrapped values the inverse returns).'
CHECKS['C19']['text'] += (' The CO2-aware correction is decided for three calls in one run (one atmosphere, two symbolic wavelengths, the first '
                          'again).')
CHECKS['C09']['text'] += (' A call that ends in an exception is an outcome: argument and state snapshots are compared after it (specs for static '
                          'reference-epoch-0 parameter sets).')
