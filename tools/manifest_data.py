FIX_COMMITS = []
TODO = 'check not built yet in this revision (work in progress; see DESIGN.md section 7 for the planned solver-based check)'
NOT_APPLICABLE = {('C%02d' % i): TODO for i in range(1, 21)}
CHECKS = {
    'C11': {
        'text': 'Bounded symbolic execution + SMT: Transformation.__neg__, __add__ and iers2trans are executed on fully '
                'symbolic parameter sets (arbitrary reals) and a symbolic day offset; the 120 catalogue constants are lifted '
                'to exact rationals and every forward/reverse pair and every ordered ITRF triple is discharged as a QF_LRA '
                'validity query with the common epoch a real variable over the hull of catalogue epochs. unsat = holds for '
                'every value in the bounds; any sat/failed query is replayed on the un-instrumented code before it is reported.',
        'design_ref': 'DESIGN.md section 7 C11',
        'note': 'R-model: floats are reals, a concrete float denotes its shortest-repr decimal; round(x,8) within 0.5e-8. '
                'Day offset bounded to +-30000; label check is a ground comparison.',
        'technique': 'symbolic execution of the real Python source + SMT (z3 QF_LRA/NRA), witness replay',
    },
}
