#!/bin/bash
# usage: tools/seedrun.sh <ID> <patchspec>...   runs try_patch sequentially, logs to /tmp/seedlogs/<ID>_<n>.log, prints a summary line each
mkdir -p /tmp/seedlogs
ID="$1"; shift
n=0
for P in "$@"; do
  n=$((n+1))
  L=/tmp/seedlogs/${ID}_$(echo "$P" | tr '/:' '__').log
  timeout 2400 /verif/tools/try_patch.sh "$P" "$ID" --jobs 7 > "$L" 2>&1
  echo "$ID $P :: $(grep -c '^VIOLATION' $L) violations; $(grep '^SUMMARY' $L | cut -c1-160); $(grep '^EXIT' $L)"
done
