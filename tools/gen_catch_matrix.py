#!/usr/bin/env python3
"""Builds seeded/CATCH_MATRIX.md (and the generated block of DESIGN.md) from seeded/*/meta.json and seeded/reversed_fixes.json."""
import json, os, re
V = os.path.join(os.path.dirname(os.path.abspath(__file__)), '..')
rows = []
for sid in sorted(os.listdir(os.path.join(V, 'seeded'))):
    mp = os.path.join(V, 'seeded', sid, 'meta.json')
    if not os.path.exists(mp):
        continue
    m = json.load(open(mp))
    det = m.get('detected_by_checks', {})
    cells = []
    for chk, d in sorted(det.items()):
        ok = d.get('exit') == '1' and d.get('violation_lines', 0) > 0
        cells.append('%s: %s' % (chk, ('**caught** (%d VIOLATION lines)' % d['violation_lines']) if ok else ('missed (exit %s)' % d.get('exit'))))
    first = next((d.get('first_message', '') for _, d in sorted(det.items()) if d.get('first_message')), '')
    first = re.sub(r'\s+', ' ', first)
    first = re.sub(r'^.*?REPLAY-VIOLATED \S+ \S+ ', '', first)[:150].replace('|', '/')
    what = ' '.join(m.get('needs_to_manifest', '').split())[:160].replace('|', '/')
    rows.append('| %s | %s | %s | %s |' % (sid, what, '; '.join(cells), first))
out = ['| seeded change | what it is (from the author\'s notes) | checks run on it | first replayed violation |', '|---|---|---|---|'] + rows
rf = os.path.join(V, 'seeded', 'reversed_fixes.json')
if os.path.exists(rf):
    out += ['', '| reversed fix commit | check | outcome | first replayed violation |', '|---|---|---|---|']
    for r in json.load(open(rf)):
        out.append('| %s | %s | %s | %s |' % (r['commit'], r['check'], '**caught** (%d VIOLATION lines)' % r['violation_lines'] if r['exit'] == '1' and r['violation_lines'] else 'missed (exit %s)' % r['exit'],
                                               re.sub(r'\s+', ' ', r.get('first_message', ''))[:150].replace('|', '/')))
txt = '\n'.join(out) + '\n'
open(os.path.join(V, 'seeded', 'CATCH_MATRIX.md'), 'w').write('# Which check catches which change\n\n' + txt)
dp = os.path.join(V, 'DESIGN.md')
s = open(dp).read()
a, b = '<!-- BEGIN GENERATED catch-matrix -->', '<!-- END GENERATED catch-matrix -->'
i, j = s.index(a) + len(a), s.index(b)
open(dp, 'w').write(s[:i] + '\n' + txt + s[j:])
print('rows', len(rows))
