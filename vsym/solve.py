"""Discharging obligations: solver portfolio, numeric evaluation of terms (for witness search only)."""
import os
import subprocess
import tempfile
import time
import z3
import mpmath

from .core import Fraction, ratval
from . import mathx

mpmath.mp.dps = 40
WORK = os.environ.get('VERIF_WORK', '/verif/.work')


class Verdict:
    def __init__(self, status, solver, seconds, model=None, tried=None):
        self.status = status      # 'unsat' | 'sat' | 'unknown'
        self.solver = solver
        self.seconds = seconds
        self.model = model
        self.tried = tried or []

    def __repr__(self):
        return 'Verdict(%s by %s in %.2fs)' % (self.status, self.solver, self.seconds)


def _z3_default(fs, timeout_ms, seed=0):
    s = z3.Solver()
    s.set('timeout', int(timeout_ms))
    if seed:
        s.set('random_seed', seed)
    s.add(*fs)
    r = s.check()
    return str(r), (s.model() if r == z3.sat else None)


def _z3_nlsat(fs, timeout_ms, seed):
    t = z3.Tactic('qfnra-nlsat')
    s = t.solver()
    s.set('timeout', int(timeout_ms))
    try:
        s.set('nlsat.seed', seed)
        s.set('nlsat.shuffle_vars', bool(seed))
    except Exception:  # noqa
        pass
    s.add(*fs)
    r = s.check()
    return str(r), (s.model() if r == z3.sat else None)


def _has_uf(fs):
    seen = set()
    todo = list(fs)
    while todo:
        e = todo.pop()
        if e.get_id() in seen:
            continue
        seen.add(e.get_id())
        if z3.is_app(e):
            d = e.decl()
            if d.kind() == z3.Z3_OP_UNINTERPRETED and e.num_args() > 0:
                return True
            todo.extend(e.children())
    return False


def to_smt2(fs, logic=None):
    s = z3.Solver()
    s.add(*fs)
    txt = s.to_smt2()
    if logic:
        txt = '(set-logic %s)\n' % logic + txt
    return txt


def _external(cmd, smt2, timeout_s):
    os.makedirs(WORK, exist_ok=True)
    fd, path = tempfile.mkstemp(suffix='.smt2', dir=WORK)
    try:
        with os.fdopen(fd, 'w') as f:
            f.write(smt2)
        try:
            p = subprocess.run(cmd + [path], capture_output=True, text=True, timeout=timeout_s + 5)
        except subprocess.TimeoutExpired:
            return 'unknown'
        out = p.stdout.strip().splitlines()
        if any('(error' in l for l in out) or not out:
            return 'unknown'
        return out[0].strip() if out[0].strip() in ('sat', 'unsat', 'unknown') else 'unknown'
    finally:
        try:
            os.unlink(path)
        except OSError:
            pass


class _EnvModel:
    """model returned by a forked solver process: values of the free variables as Fractions"""

    def __init__(self, env):
        self.env = env


def _forked(fn, fs, timeout_s, *args):
    """Run fn(fs, ...) in a forked child with a hard wall-clock limit (z3's own timeout is not always honoured
    inside the non-linear core). Returns (status, env or None)."""
    import json
    import select
    import signal
    r, w = os.pipe()
    pid = os.fork()
    if pid == 0:
        try:
            os.close(r)
            try:
                st, m = fn(fs, *args)
                env = None
                if st == 'sat' and m is not None:
                    e = model_env(m, free_vars(fs))
                    env = {k: ([str(v.numerator), str(v.denominator)] if isinstance(v, Fraction) else v) for k, v in e.items()}
                os.write(w, json.dumps([st, env]).encode())
            except BaseException as ex:  # noqa
                os.write(w, json.dumps(['unknown', None]).encode())
        finally:
            os._exit(0)
    os.close(w)
    buf = b''
    deadline = time.time() + timeout_s + 2
    try:
        while True:
            left = deadline - time.time()
            if left <= 0:
                break
            rl, _, _ = select.select([r], [], [], left)
            if not rl:
                break
            chunk = os.read(r, 1 << 16)
            if not chunk:
                break
            buf += chunk
    finally:
        os.close(r)
        try:
            os.kill(pid, signal.SIGKILL)
        except OSError:
            pass
        try:
            os.waitpid(pid, 0)
        except OSError:
            pass
    if not buf:
        return 'unknown', None
    try:
        st, env = json.loads(buf.decode())
    except ValueError:
        return 'unknown', None
    if env is not None:
        env = {k: (Fraction(int(v[0]), int(v[1])) if isinstance(v, list) else v) for k, v in env.items()}
        return st, _EnvModel(env)
    return st, None


def check_sat(fs, timeout_s=30, portfolio=True, seed=0):
    """Satisfiability of the conjunction fs with a solver portfolio. Only 'unsat' and 'sat' are conclusive.
    portfolio=False: in-process z3 only (for ground / linear queries)."""
    t0 = time.time()
    tried = []
    fs = [f for f in fs]
    if not portfolio:
        r, m = _z3_default(fs, timeout_s * 1000, seed)
        tried.append(('z3-%s' % z3.get_version_string(), r, round(time.time() - t0, 3)))
        return Verdict(r, tried[-1][0], time.time() - t0, m, tried)
    budget = timeout_s
    timeout_s = max(2, budget / 2)
    r, m = _forked(_z3_default, fs, timeout_s, timeout_s * 1000, seed)
    tried.append(('z3-%s' % z3.get_version_string(), r, round(time.time() - t0, 3)))
    if r != 'unknown':
        return Verdict(r, tried[-1][0], time.time() - t0, m, tried)
    uf = _has_uf(fs)
    if not uf:
        for sd in (0, 1, 2):
            t1 = time.time()
            tl = max(2, budget / 12)
            r, m = _forked(_z3_nlsat, fs, tl, tl * 1000, sd)
            tried.append(('z3-nlsat-seed%d' % sd, r, round(time.time() - t1, 3)))
            if r != 'unknown':
                return Verdict(r, tried[-1][0], time.time() - t0, m, tried)
    smt2 = to_smt2(fs)
    t1 = time.time()
    timeout_s = max(2, budget / 8)
    r = _external(['/usr/bin/z3', '-T:%d' % max(2, int(timeout_s))], smt2, timeout_s)
    tried.append(('z3-4.8.12', r, round(time.time() - t1, 3)))
    if r != 'unknown':
        return Verdict(r, 'z3-4.8.12', time.time() - t0, None, tried)
    t1 = time.time()
    r = _external(['cvc5', '--tlimit=%d' % int(timeout_s * 1000)], '(set-logic ALL)\n' + smt2, timeout_s)
    tried.append(('cvc5', r, round(time.time() - t1, 3)))
    if r != 'unknown':
        return Verdict(r, 'cvc5', time.time() - t0, None, tried)
    return Verdict('unknown', 'portfolio', time.time() - t0, None, tried)


def prove(conds, goal, timeout_s=30, portfolio=True, seed=0):
    """Validity of (AND conds) => goal. 'unsat' of the negation means proved."""
    return check_sat(list(conds) + [z3.Not(goal)], timeout_s, portfolio, seed)


# --- numeric evaluation of terms (true functions, 40 digits) ----------------------------------
_TRUE = {
    'sin': mpmath.sin, 'cos': mpmath.cos, 'tan': mpmath.tan, 'asin': mpmath.asin, 'acos': mpmath.acos,
    'atan': mpmath.atan, 'sinh': mpmath.sinh, 'cosh': mpmath.cosh, 'log': mpmath.log, 'exp': mpmath.exp,
    'sqrt': mpmath.sqrt,
}


def register_fn(name, fn):
    """numeric meaning of an extra uninterpreted function (used only by the witness search)"""
    _TRUE[name] = fn


class NumEvalError(Exception):
    pass


def to_mp(x):
    if isinstance(x, Fraction):
        return mpmath.mpf(x.numerator) / mpmath.mpf(x.denominator)
    return mpmath.mpf(x)


def _round_half_even(x, n):
    q = mpmath.mpf(10) ** n
    y = x * q
    f = mpmath.floor(y)
    d = y - f
    if d > 0.5 or (d == 0.5 and int(f) % 2 == 1):
        f += 1
    return f / q


def neval(e, env, cache=None):
    """Evaluate a z3 Real/Bool term with true functions. env: {var name: number}. Extra UFs may be given in env
    as callables under their name."""
    if cache is None:
        cache = {}
    k = e.get_id()
    if k in cache:
        return cache[k]
    r = _neval(e, env, cache)
    cache[k] = r
    return r


def _neval(e, env, cache):
    if z3.is_rational_value(e):
        return mpmath.mpf(e.numerator_as_long()) / mpmath.mpf(e.denominator_as_long())
    if z3.is_int_value(e):
        return mpmath.mpf(e.as_long())
    if z3.is_true(e):
        return True
    if z3.is_false(e):
        return False
    if not z3.is_app(e):
        raise NumEvalError('not an application: %s' % e)
    d = e.decl()
    kind = d.kind()
    ch = e.children()
    if kind == z3.Z3_OP_UNINTERPRETED:
        name = d.name()
        if not ch:
            if name == 'PI':
                return mpmath.pi
            if name in env:
                return env[name] if isinstance(env[name], bool) else to_mp(env[name])
            raise NumEvalError('free variable %s' % name)
        args = [neval(c, env, cache) for c in ch]
        if name in env and callable(env[name]):
            return env[name](*args)
        if name in _TRUE:
            try:
                v = _TRUE[name](*args)
            except Exception as ex:  # noqa
                raise NumEvalError('%s(%s): %s' % (name, args[0], ex))
            if isinstance(v, mpmath.mpc):
                raise NumEvalError('%s(%s) complex' % (name, args[0]))
            return v
        if name == 'atan2':
            return mpmath.atan2(args[0], args[1])
        if name.startswith('round_'):
            return _round_half_even(args[0], int(name[6:]))
        raise NumEvalError('uninterpreted %s' % name)
    if kind == z3.Z3_OP_ADD:
        return sum((neval(c, env, cache) for c in ch), mpmath.mpf(0))
    if kind == z3.Z3_OP_MUL:
        r = mpmath.mpf(1)
        for c in ch:
            r = r * neval(c, env, cache)
        return r
    if kind == z3.Z3_OP_SUB:
        r = neval(ch[0], env, cache)
        for c in ch[1:]:
            r = r - neval(c, env, cache)
        return r
    if kind == z3.Z3_OP_UMINUS:
        return -neval(ch[0], env, cache)
    if kind in (z3.Z3_OP_DIV, z3.Z3_OP_IDIV):
        a, b = neval(ch[0], env, cache), neval(ch[1], env, cache)
        if b == 0:
            raise NumEvalError('division by zero')
        return a / b if kind == z3.Z3_OP_DIV else mpmath.floor(a / b)
    if kind == z3.Z3_OP_MOD:
        a, b = neval(ch[0], env, cache), neval(ch[1], env, cache)
        return a - b * mpmath.floor(a / b)
    if kind == z3.Z3_OP_POWER:
        return neval(ch[0], env, cache) ** neval(ch[1], env, cache)
    if kind == z3.Z3_OP_TO_REAL:
        return neval(ch[0], env, cache)
    if kind == z3.Z3_OP_TO_INT:
        return mpmath.floor(neval(ch[0], env, cache))
    if kind == z3.Z3_OP_IS_INT:
        v = neval(ch[0], env, cache)
        return v == mpmath.floor(v)
    if kind == z3.Z3_OP_ITE:
        return neval(ch[1], env, cache) if neval(ch[0], env, cache) else neval(ch[2], env, cache)
    if kind == z3.Z3_OP_LE:
        return neval(ch[0], env, cache) <= neval(ch[1], env, cache)
    if kind == z3.Z3_OP_LT:
        return neval(ch[0], env, cache) < neval(ch[1], env, cache)
    if kind == z3.Z3_OP_GE:
        return neval(ch[0], env, cache) >= neval(ch[1], env, cache)
    if kind == z3.Z3_OP_GT:
        return neval(ch[0], env, cache) > neval(ch[1], env, cache)
    if kind == z3.Z3_OP_EQ:
        return neval(ch[0], env, cache) == neval(ch[1], env, cache)
    if kind == z3.Z3_OP_DISTINCT:
        vs = [neval(c, env, cache) for c in ch]
        return len(set(vs)) == len(vs)
    if kind == z3.Z3_OP_NOT:
        return not neval(ch[0], env, cache)
    if kind == z3.Z3_OP_AND:
        return all(neval(c, env, cache) for c in ch)
    if kind == z3.Z3_OP_OR:
        return any(neval(c, env, cache) for c in ch)
    if kind == z3.Z3_OP_IMPLIES:
        return (not neval(ch[0], env, cache)) or neval(ch[1], env, cache)
    if kind == z3.Z3_OP_XOR:
        return bool(neval(ch[0], env, cache)) != bool(neval(ch[1], env, cache))
    raise NumEvalError('unsupported op %s' % d.name())


def free_vars(es):
    seen, out, todo = set(), {}, list(es)
    while todo:
        e = todo.pop()
        if e.get_id() in seen:
            continue
        seen.add(e.get_id())
        if z3.is_app(e):
            if e.num_args() == 0 and e.decl().kind() == z3.Z3_OP_UNINTERPRETED and e.decl().name() != 'PI':
                out[e.decl().name()] = e
            todo.extend(e.children())
    return out


def model_env(model, vars_):
    if isinstance(model, _EnvModel):
        return dict(model.env)
    env = {}
    for name, v in vars_.items():
        mv = model.eval(v, model_completion=True)
        if z3.is_int_value(mv):
            env[name] = Fraction(mv.as_long())
        elif z3.is_rational_value(mv):
            env[name] = Fraction(mv.numerator_as_long(), mv.denominator_as_long())
        elif z3.is_algebraic_value(mv):
            a = mv.approx(30)
            env[name] = Fraction(a.numerator_as_long(), a.denominator_as_long())
        elif z3.is_true(mv) or z3.is_false(mv):
            env[name] = z3.is_true(mv)
        else:
            env[name] = Fraction(0)
    return env
