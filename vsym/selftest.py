"""Harness self-test (setup_cmd): numpy-facade conformance and translator validation
(the repository's own test-suite executed through the instrumented importer in pass-through mode)."""
import os
import subprocess
import sys

VERIF = os.path.dirname(os.path.dirname(os.path.abspath(__file__)))


def translator_validation(quiet=True):
    env = dict(os.environ)
    env['PYTHONPATH'] = VERIF + os.pathsep + os.path.join(VERIF, '.deps')
    p = subprocess.run(['/venv/bin/python', '-m', 'pytest', '-q', '-p', 'no:cacheprovider', '-p', 'vsym.pytest_plugin',
                        '-x', '--timeout=900'], cwd=os.environ.get('VERIF_REPO', '/repo'), env=env,
                       capture_output=True, text=True)
    tail = '\n'.join((p.stdout or '').strip().splitlines()[-6:])
    return p.returncode == 0, tail


def main():
    from vsym import npx
    bad = npx.selftest()
    if bad:
        print('HARNESS-ERROR numpy facade does not conform to the installed numpy:', bad)
        sys.exit(3)
    print('numpy facade conformance: ok (seq-to-cell raises: %s)' % (npx.SEQ_TO_CELL_EXC.__name__ if npx.SEQ_TO_CELL_EXC else 'no'))
    ok, tail = translator_validation()
    print(tail)
    if not ok:
        print('HARNESS-ERROR translator validation failed (repository tests through instrumented modules)')
        sys.exit(3)
    print('translator validation: ok')


if __name__ == '__main__':
    main()
