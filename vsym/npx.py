"""numpy facade for symbolic execution: object-dtype arrays that behave like the installed numpy's float arrays
for the operations the library uses (exceptions included). A conformance self-test compares the facade
with the real numpy on concrete inputs at start-up."""
import numpy as _np
from . import core
from .core import SymReal, SymBool


def _contains_sym(obj):
    if isinstance(obj, (SymReal, SymBool)):
        return True
    if isinstance(obj, _np.ndarray):
        return obj.dtype == object
    if isinstance(obj, (list, tuple)):
        return any(_contains_sym(o) for o in obj)
    return False


def _learn_seq_to_cell():
    """Does the installed numpy reject assigning a shape-(1,) array into a float cell?"""
    a = _np.zeros((2, 2))
    try:
        import warnings
        with warnings.catch_warnings():
            warnings.simplefilter('error')
            a[0, 1] = _np.ones(1)
        return None
    except Exception as e:  # noqa
        return type(e)


SEQ_TO_CELL_EXC = _learn_seq_to_cell()


class FArr(_np.ndarray):
    """object-dtype array with float-array cell semantics"""

    def __new__(cls, data):
        a = _np.asarray(data, dtype=object).view(cls)
        return a

    def __setitem__(self, key, value):
        single = isinstance(key, tuple) and len(key) == self.ndim and all(
            isinstance(k, (int, _np.integer)) for k in key) or (self.ndim == 1 and isinstance(key, (int, _np.integer)))
        if single and isinstance(value, (_np.ndarray, list, tuple)):
            v = _np.asarray(value, dtype=object)
            if v.ndim > 0:
                if SEQ_TO_CELL_EXC is not None or v.size != 1:
                    raise (SEQ_TO_CELL_EXC or ValueError)('setting an array element with a sequence.')
                value = v.reshape(-1)[0]
        _np.ndarray.__setitem__(self, key, value)

    def __array_finalize__(self, obj):
        pass


def _active():
    return core.CTX is not None


class Facade:
    """Stands in for the `numpy` module inside instrumented modules."""
    ndarray = _np.ndarray

    def __getattr__(self, name):
        return getattr(_np, name)

    @staticmethod
    def array(obj, *a, **k):
        if _contains_sym(obj) or (_active() and not a and not k):
            try:
                r = _np.array(obj)
                if r.dtype != object and not _active():
                    return r
                if r.dtype != object and r.dtype.kind not in 'fiu':
                    return r
            except Exception:  # noqa
                pass
            return FArr(_np.array(obj, dtype=object))
        return _np.array(obj, *a, **k)

    @staticmethod
    def zeros(shape, *a, **k):
        if _active():
            r = _np.empty(shape, dtype=object)
            r.fill(0.0)
            return r.view(FArr)
        return _np.zeros(shape, *a, **k)

    @staticmethod
    def matmul(a, b):
        return _np.matmul(a, b)

    @staticmethod
    def delete(arr, obj, axis=None):
        r = _np.delete(arr, obj, axis)
        return r.view(FArr) if isinstance(arr, FArr) else r


facade = Facade()
NP_FUNC_SHADOWS = {_np.array: Facade.array, _np.zeros: Facade.zeros, _np.matmul: Facade.matmul, _np.delete: Facade.delete}


def selftest():
    """Compare facade arrays with real float arrays on the operations the library performs."""
    bad = []
    import warnings
    rng = _np.random.default_rng(1)
    A = rng.normal(size=(3, 3))
    B = rng.normal(size=(3, 1))
    fa, fb = FArr(A.tolist()), FArr(B.tolist())

    def same(x, y, what):
        try:
            ok = _np.allclose(_np.asarray(x, dtype=float), _np.asarray(y, dtype=float), rtol=1e-13, atol=0)
        except Exception as e:  # noqa
            ok = False
        if not ok:
            bad.append(what)
    same(fa @ fb, A @ B, 'matmul')
    same(fa.transpose() @ fa @ fa, A.transpose() @ A @ A, 'transpose/matmul chain')
    same(2.5 * fa + fa, 2.5 * A + A, 'scalar ops')
    same(fb + 3.0 * (fa @ fb), B + 3.0 * (A @ B), 'column ops')
    same((fa @ fb)[0], (A @ B)[0], 'row view')
    same(_np.matmul(fa, fb), _np.matmul(A, B), 'np.matmul')
    # cell assignment semantics
    for val, what in ((B[0], 'shape-(1,) array into cell'), (3.0 * B[1], 'scaled shape-(1,) into cell'),
                      (1.5, 'scalar into cell'), (A[0], 'row into cell')):
        zr = _np.zeros((3, 4))
        zf = _np.empty((3, 4), dtype=object); zf.fill(0.0); zf = zf.view(FArr)
        er = ef = None
        with warnings.catch_warnings():
            warnings.simplefilter('error')
            try:
                zr[1, 2] = val
            except Exception as e:  # noqa
                er = type(e)
            try:
                zf[1, 2] = FArr(_np.asarray(val).tolist()) if isinstance(val, _np.ndarray) else val
            except Exception as e:  # noqa
                ef = type(e)
        if (er is None) != (ef is None) or (er is not None and not issubclass(ef, er) and not issubclass(er, ef)):
            bad.append('cell assignment: %s (numpy %s, facade %s)' % (what, er, ef))
        elif er is None:
            same(zf, zr, 'cell assignment value: ' + what)
    # indexing errors
    for idx in ((0, 1), (2, 0)):
        col = FArr(B.tolist())
        er = ef = None
        try:
            B[idx]
        except Exception as e:  # noqa
            er = type(e)
        try:
            col[idx]
        except Exception as e:  # noqa
            ef = type(e)
        if er != ef:
            bad.append('index %s: numpy %s facade %s' % (idx, er, ef))
    return bad
