"""vsym core: symbolic reals/ints/bools over z3, path exploration by re-execution.

R-model: Python float == mathematical real, int == mathematical integer, transcendental functions are
uninterpreted (see mathx.py). Every truthiness test of a SymBool forks the path.
"""
import fractions
import os
import math
import z3
import time as _time

Fraction = fractions.Fraction


class PathAbort(BaseException):
    """Infeasible path (both branches unsat)."""


class PathCut(BaseException):
    """Path abandoned because a bound (loop unrolling / decision budget) was exceeded."""


class LitFloat(float):
    """A float that remembers the exact decimal rational it was written as in the source."""
    __slots__ = ('frac',)

    def __new__(cls, value, frac=None):
        o = float.__new__(cls, value)
        o.frac = frac if frac is not None else Fraction(repr(float(value)))
        return o

    @staticmethod
    def _fr(o):
        if isinstance(o, LitFloat):
            return o.frac
        if isinstance(o, bool):
            return None
        if isinstance(o, int):
            return Fraction(o)
        return None

    def _bin(self, o, op, rev=False):
        fo = LitFloat._fr(o)
        if fo is None:
            return NotImplemented
        a, b = (fo, self.frac) if rev else (self.frac, fo)
        try:
            fr = op(a, b)
        except ZeroDivisionError:
            raise ZeroDivisionError('float division by zero')
        return LitFloat(float(fr), fr)

    def __add__(self, o):
        r = self._bin(o, lambda a, b: a + b)
        return float.__add__(self, o) if r is NotImplemented else r

    def __radd__(self, o):
        r = self._bin(o, lambda a, b: a + b, True)
        return float.__radd__(self, o) if r is NotImplemented else r

    def __sub__(self, o):
        r = self._bin(o, lambda a, b: a - b)
        return float.__sub__(self, o) if r is NotImplemented else r

    def __rsub__(self, o):
        r = self._bin(o, lambda a, b: a - b, True)
        return float.__rsub__(self, o) if r is NotImplemented else r

    def __mul__(self, o):
        r = self._bin(o, lambda a, b: a * b)
        return float.__mul__(self, o) if r is NotImplemented else r

    def __rmul__(self, o):
        r = self._bin(o, lambda a, b: a * b, True)
        return float.__rmul__(self, o) if r is NotImplemented else r

    def __truediv__(self, o):
        r = self._bin(o, lambda a, b: a / b)
        return float.__truediv__(self, o) if r is NotImplemented else r

    def __rtruediv__(self, o):
        r = self._bin(o, lambda a, b: a / b, True)
        return float.__rtruediv__(self, o) if r is NotImplemented else r

    def __neg__(self):
        return LitFloat(-float(self), -self.frac)

    def __pos__(self):
        return self

    def __abs__(self):
        return LitFloat(abs(float(self)), abs(self.frac))

    def __pow__(self, o, mod=None):
        if isinstance(o, int) and not isinstance(o, bool) and abs(o) <= 16 and (o >= 0 or self.frac != 0):
            fr = self.frac ** o
            return LitFloat(float(fr), fr)
        return float.__pow__(self, o)

    def __reduce__(self):
        return (LitFloat, (float(self), self.frac))


def exact_fraction(x):
    """The rational the R-model attaches to a concrete Python number."""
    if isinstance(x, LitFloat):
        return x.frac
    if isinstance(x, bool):
        return Fraction(int(x))
    if isinstance(x, int):
        return Fraction(x)
    if isinstance(x, Fraction):
        return x
    if isinstance(x, float):
        if x != x or x in (math.inf, -math.inf):
            raise ValueError('non-finite float in R-model')
        return Fraction(repr(x))  # shortest decimal that round-trips
    raise TypeError(type(x))


def ratval(fr):
    fr = Fraction(fr)
    if fr.denominator == 1:
        return z3.RealVal(fr.numerator)
    return z3.RealVal(str(fr.numerator) + '/' + str(fr.denominator))


# ---------------------------------------------------------------------------------------------
class Ctx:
    """State of one path execution."""

    def __init__(self, prefix=(), feas_timeout_ms=300, max_decisions=60, loop_bound=2, assumptions=()):
        self.decisions = list(prefix)
        self.pos = 0
        self.pc = []                 # z3 bool terms (path condition, excluding assumptions)
        self.assumptions = list(assumptions)   # z3 bool terms assumed from the start
        self.forks = []              # indices in decisions where the other branch is feasible too
        self.facts = []              # axiom instances recorded while executing (z3 bools)
        self.fact_keys = set()
        self.defined = []            # (z3 bool that must hold, description) definedness obligations
        self.solver = z3.Solver()
        self.solver.set('timeout', feas_timeout_ms)
        # z3's wall-clock timeout is not always honoured inside non-linear arithmetic; the resource limit is (deterministic counter)
        try:
            self.solver.set('rlimit', int(os.environ.get('VERIF_FEAS_RLIMIT', '0')) or feas_timeout_ms * 20000)
        except Exception:  # noqa
            pass
        for a in self.assumptions:
            self.solver.add(a)
        self.max_decisions = max_decisions
        self.loop_bound = loop_bound
        self.loops = {}              # loop id -> [iterations, decisions at entry]
        self.cut_reason = None
        self.log = []                # free-form events (writes, reads, ...)
        self.n_feas_unknown = 0

    def add_fact(self, f, key=None):
        k = key if key is not None else f.get_id()
        if k in self.fact_keys:
            return
        self.fact_keys.add(k)
        self.facts.append(f)
        self.solver.add(f)

    def assume(self, b):
        """Add a constraint to the path (precondition placed before the code it constrains)."""
        zb = b.z if isinstance(b, SymBool) else (z3.BoolVal(bool(b)))
        self.assumptions.append(zb)
        self.solver.add(zb)

    def decide(self, zb):
        # a condition already decided on this path (the very same term) keeps its value: no solver call, no new decision
        kid = zb.get_id()
        seen = self.__dict__.setdefault('_decided', {})
        if kid in seen:
            return seen[kid]
        d = self._decide(zb)
        seen[kid] = d
        return d

    def _decide(self, zb):
        if self.pos < len(self.decisions):
            d = self.decisions[self.pos]
        else:
            if len(self.decisions) >= self.max_decisions:
                self.cut_reason = 'decision budget'
                raise PathCut('decision budget')
            if DEADLINE[0] and _time.time() > DEADLINE[0]:
                self.cut_reason = 'time budget'
                raise PathCut('group time budget used up during path exploration')
            s = self.solver
            s.push(); s.add(zb); rt = s.check(); s.pop()
            s.push(); s.add(z3.Not(zb)); rf = s.check(); s.pop()
            if rt == z3.unknown or rf == z3.unknown:
                self.n_feas_unknown += 1
            if rt != z3.unsat and rf != z3.unsat:
                d = True
                self.decisions.append(True)
                self.forks.append(len(self.decisions) - 1)
            elif rt != z3.unsat:
                d = True
                self.decisions.append(True)
            elif rf != z3.unsat:
                d = False
                self.decisions.append(False)
            else:
                raise PathAbort()
        self.pos += 1
        c = zb if d else z3.Not(zb)
        self.pc.append(c)
        self.solver.add(c)
        return d

    def loop_iter(self, loop_id):
        st = self.loops.get(loop_id)
        if st is None:
            self.loops[loop_id] = [1, self.pos]
            return
        st[0] += 1
        if st[0] > self.loop_bound and self.pos > st[1]:
            self.cut_reason = 'loop bound %d at %s' % (self.loop_bound, loop_id)
            raise PathCut(self.cut_reason)
        if st[0] > 5000:
            self.cut_reason = 'concrete loop > 5000 at %s' % (loop_id,)
            raise PathCut(self.cut_reason)

    def loop_reset(self, loop_id):
        self.loops.pop(loop_id, None)


CTX = None


def ctx():
    return CTX


def is_sym(x):
    return isinstance(x, (SymReal, SymBool))


def toz(x):
    """z3 Real term for a number-like Python value."""
    if isinstance(x, SymReal):
        return x.z
    if isinstance(x, SymBool):
        return z3.If(x.z, z3.RealVal(1), z3.RealVal(0))
    if isinstance(x, float) and hasattr(x, 'dec_angle') and type(x) is not float:
        return toz(x.dec_angle)          # DECAngle (a float subclass whose value lives in .dec_angle)
    if isinstance(x, (bool, int, float, Fraction)):
        return ratval(exact_fraction(x))
    raise TypeError(type(x))


def tozb(x):
    if isinstance(x, SymBool):
        return x.z
    if isinstance(x, SymReal):
        return x.z != 0
    return z3.BoolVal(bool(x))


class SymBool:
    __slots__ = ('z',)

    def __init__(self, z):
        self.z = z

    def __bool__(self):
        zs = z3.simplify(self.z)
        if z3.is_true(zs):
            return True
        if z3.is_false(zs):
            return False
        if CTX is None:
            raise RuntimeError('SymBool truth value outside exploration')
        return CTX.decide(self.z)

    def __and__(s, o):
        return SymBool(z3.And(s.z, tozb(o)))

    __rand__ = __and__

    def __or__(s, o):
        return SymBool(z3.Or(s.z, tozb(o)))

    __ror__ = __or__

    def __invert__(s):
        return SymBool(z3.Not(s.z))

    def __eq__(s, o):
        return SymBool(s.z == tozb(o))

    def __ne__(s, o):
        return SymBool(s.z != tozb(o))

    __hash__ = None

    def __repr__(s):
        return 'SymBool(%s)' % s.z


def _round_uf(n):
    return z3.Function('round_%s' % n, z3.RealSort(), z3.RealSort())


class SymReal:
    """Symbolic real (is_int=True: value known to be an integer; still Real-sorted)."""
    __slots__ = ('z', 'is_int', 'tag')

    def __init__(self, z, is_int=False, tag=None):
        self.z = z
        self.is_int = is_int
        self.tag = tag      # ('rad_of', x) / ('deg_of', x): lets degrees(radians(x)) collapse to x exactly

    # arithmetic -----------------------------------------------------------------------------
    def _b(self, o, f, intres=None):
        try:
            oz = toz(o)
        except TypeError:
            return NotImplemented
        ii = False
        if intres is not None:
            oi = (isinstance(o, SymReal) and o.is_int) or (isinstance(o, int) and not isinstance(o, bool))
            ii = self.is_int and oi and intres
        return SymReal(f(self.z, oz), ii)

    def _off(s, r, o, sign):
        # degrees(t) + c keeps the tag ('deg_of', t, offset) so that sin(radians(degrees(t) + 360)) can use periodicity
        if r is not NotImplemented and s.tag is not None and s.tag[0] == 'deg_of' and not isinstance(o, (SymReal, SymBool)):
            try:
                off = (s.tag[2] if len(s.tag) > 2 else 0) + sign * exact_fraction(o)
                r.tag = ('deg_of', s.tag[1], off)
            except (TypeError, ValueError):
                pass
        return r

    def __add__(s, o): return s._off(s._b(o, lambda a, b: a + b, True), o, 1)
    def __radd__(s, o): return s._off(s._b(o, lambda a, b: b + a, True), o, 1)
    def __sub__(s, o): return s._off(s._b(o, lambda a, b: a - b, True), o, -1)
    def __rsub__(s, o): return s._b(o, lambda a, b: b - a, True)
    def __mul__(s, o): return s._b(o, lambda a, b: a * b, True)
    def __rmul__(s, o): return s._b(o, lambda a, b: b * a, True)

    def __truediv__(s, o):
        try:
            oz = toz(o)
        except TypeError:
            return NotImplemented
        _need_nonzero(oz, 'division')
        return SymReal(s.z / oz)

    def __rtruediv__(s, o):
        try:
            oz = toz(o)
        except TypeError:
            return NotImplemented
        _need_nonzero(s.z, 'division')
        return SymReal(oz / s.z)

    def __floordiv__(s, o):
        q = s / o
        if q is NotImplemented:
            return q
        return sym_floor(q)

    def __mod__(s, o):
        try:
            oz = toz(o)
        except TypeError:
            return NotImplemented
        q = sym_floor(s / o)
        return SymReal(s.z - q.z * oz, s.is_int and isinstance(o, int))

    def __divmod__(s, o):
        q = sym_floor(s / o)
        return q, SymReal(s.z - q.z * toz(o), s.is_int and isinstance(o, int))

    def __neg__(s): return SymReal(-s.z, s.is_int)
    def __pos__(s): return s
    def __abs__(s): return SymReal(z3.If(s.z >= 0, s.z, -s.z), s.is_int)

    def __pow__(s, o, mod=None):
        if isinstance(o, SymReal):
            raise TypeError('symbolic exponent')
        if isinstance(o, int) and not isinstance(o, bool):
            if o >= 0:
                r = z3.RealVal(1)
                for _ in range(o):
                    r = r * s.z
                return SymReal(r, s.is_int)
            _need_nonzero(s.z, 'negative power')
            r = z3.RealVal(1)
            for _ in range(-o):
                r = r * s.z
            return SymReal(1 / r)
        fo = exact_fraction(o)
        if fo == Fraction(1, 2):
            from . import mathx
            return mathx.sqrt(s)
        if fo == Fraction(3, 2):
            from . import mathx
            return s * mathx.sqrt(s)
        if fo.denominator == 1:
            return s.__pow__(int(fo))
        raise TypeError('unsupported power %r' % (o,))

    def __rpow__(s, o):
        raise TypeError('symbolic exponent')

    # comparison -----------------------------------------------------------------------------
    def _c(self, o, f):
        try:
            oz = toz(o)
        except TypeError:
            return NotImplemented
        return SymBool(f(self.z, oz))

    def __lt__(s, o): return s._c(o, lambda a, b: a < b)
    def __le__(s, o): return s._c(o, lambda a, b: a <= b)
    def __gt__(s, o): return s._c(o, lambda a, b: a > b)
    def __ge__(s, o): return s._c(o, lambda a, b: a >= b)

    def __eq__(s, o):
        r = s._c(o, lambda a, b: a == b)
        return SymBool(z3.BoolVal(False)) if r is NotImplemented else r

    def __ne__(s, o):
        r = s._c(o, lambda a, b: a != b)
        return SymBool(z3.BoolVal(True)) if r is NotImplemented else r

    def __hash__(s):
        # hash of the term: syntactically identical symbolic values collide (and compare equal), as equal floats would in a cache key
        return hash(('SymReal', s.z.hash()))

    def __bool__(s):
        return bool(SymBool(s.z != 0))

    def __round__(s, n=None):
        if s.is_int:
            return s
        if n is None:
            n = 0
        r = _round_uf(n)(s.z)
        c = CTX
        if c is not None:
            half = ratval(Fraction(1, 2 * 10 ** n) if n >= 0 else Fraction(10 ** (-n), 2))
            c.add_fact(z3.And(r - s.z <= half, s.z - r <= half, z3.Implies(s.z >= 0, r >= 0), z3.Implies(s.z <= 0, r <= 0),
                              _round_uf(n)(-s.z) == -r))
        return SymReal(r)

    def __float__(s):
        raise TypeError('SymReal cannot be realised as float (use the float shadow)')

    def __int__(s):
        raise TypeError('SymReal cannot be realised as int (use the int shadow)')

    def __index__(s):
        # a symbolic integer used as a sequence index / range bound: concretise by forking on the values the solver proposes
        c = CTX
        if c is None or not s.is_int:
            raise TypeError('SymReal used as index')
        for _ in range(64):
            c.solver.push()
            r = c.solver.check()
            v = c.solver.model().eval(s.z, model_completion=True) if r == z3.sat else None
            c.solver.pop()
            if v is None:
                raise PathCut('symbolic index: no model')
            try:
                k = int(v.as_long()) if z3.is_int_value(v) else int(v.as_fraction())
            except Exception:      # noqa
                raise PathCut('symbolic index: non-numeric model value')
            if c.decide(s.z == k):
                return k
        raise PathCut('symbolic index: too many candidate values')

    def __repr__(s):
        t = str(s.z)
        return 'SymReal(%s)' % (t if len(t) < 120 else t[:117] + '...')


def _need_nonzero(oz, what):
    c = CTX
    if c is None:
        return
    zs = z3.simplify(oz)
    if z3.is_rational_value(zs):
        if zs.numerator_as_long() == 0:
            raise ZeroDivisionError('float division by zero')
        return
    c.defined.append((oz != 0, what))


def require(cond_z, what):
    """Record a definedness obligation (argument in the function's domain)."""
    c = CTX
    if c is not None:
        c.defined.append((cond_z, what))


def sym_floor(x):
    """floor of a SymReal as an integer-valued SymReal."""
    if not isinstance(x, SymReal):
        return math.floor(x)
    if x.is_int:
        return x
    return SymReal(z3.ToReal(z3.ToInt(x.z)), True)


def sym_trunc(x):
    """int(x): truncation toward zero."""
    if not isinstance(x, SymReal):
        return int(x)
    if x.is_int:
        return x
    fl = z3.ToReal(z3.ToInt(x.z))
    ce = -z3.ToReal(z3.ToInt(-x.z))
    return SymReal(z3.If(x.z >= 0, fl, ce), True)


_fresh = [0]


def fresh_real(name, lo=None, hi=None, is_int=False):
    """A new symbolic input; bounds are added as assumptions of the current path."""
    _fresh[0] += 1
    v = z3.Real(name)
    s = SymReal(v, is_int)
    c = CTX
    if c is not None:
        if is_int:
            c.assume(SymBool(v == z3.ToReal(z3.ToInt(v))))
        if lo is not None:
            c.assume(SymBool(v >= toz(lo)))
        if hi is not None:
            c.assume(SymBool(v <= toz(hi)))
    return s


# ---------------------------------------------------------------------------------------------
class Path:
    def __init__(self, kind, value, c):
        self.kind = kind            # 'return' | 'raise' | 'cut'
        self.value = value          # return value, or exception instance, or cut reason
        self.pc = list(c.pc)
        self.assumptions = list(c.assumptions)
        self.facts = list(c.facts)
        self.defined = list(c.defined)
        self.decisions = list(c.decisions[:c.pos])
        self.log = list(c.log)
        self.feas_unknown = c.n_feas_unknown

    def conds(self):
        return self.assumptions + self.pc

    def __repr__(self):
        return 'Path(%s, %r, |pc|=%d)' % (self.kind, self.value if self.kind != 'return' else '...', len(self.pc))


DEADLINE = [0.0]      # wall-clock limit for path exploration, set per obligation group by ob.start_budget


def explore(fn, max_paths=400, loop_bound=2, max_decisions=60, feas_timeout_ms=300, setup=None):
    """Run fn() under every feasible decision sequence. Returns (paths, stats)."""
    global CTX
    work = [[]]
    out = []
    stats = {'paths': 0, 'aborted': 0, 'cut': 0, 'raised': 0, 'returned': 0, 'budget_exceeded': False}
    while work:
        if len(out) >= max_paths:
            stats['budget_exceeded'] = True
            break
        if DEADLINE[0] and _time.time() > DEADLINE[0] + 30:
            # the group's wall budget is gone: report what is left as cut (inconclusive), never as held
            stats['budget_exceeded'] = True
            c = Ctx([], feas_timeout_ms=feas_timeout_ms, max_decisions=max_decisions, loop_bound=loop_bound)
            out.append(Path('cut', 'group time budget used up: %d unexplored path prefixes' % len(work), c))
            break
        pref = work.pop()
        c = Ctx(pref, feas_timeout_ms=feas_timeout_ms, max_decisions=max_decisions, loop_bound=loop_bound)
        CTX = c
        try:
            try:
                if setup is not None:
                    setup()
                r = fn()
                p = Path('return', r, c)
                stats['returned'] += 1
            except PathAbort:
                p = None
                stats['aborted'] += 1
            except PathCut as e:
                p = Path('cut', str(e), c)
                stats['cut'] += 1
            except Exception as e:      # noqa - exception outcome of the code under test
                p = Path('raise', e, c)
                stats['raised'] += 1
        finally:
            CTX = None
        if p is not None:
            out.append(p)
        for i in c.forks:
            if i >= len(pref):
                work.append(c.decisions[:i] + [False])
    stats['paths'] = len(out)
    return out, stats
