"""F-model: exact IEEE-754 binary64 semantics of the float operations used by geodepy/angles.py, encoded as linear integer
arithmetic (QF_LIA) over the real source executed through the instrumented importer.

A symbolic double is an exact rational num/den with `num` a z3 Int term (linear in the input mantissa and in auxiliary integer
variables) and `den` a concrete positive integer, together with concrete outward bounds lo <= value <= hi (Fractions) that
are used to choose result binades. Every float operation is exact-rational-then-round-to-nearest-even:
    RN(N/D) = m * 2^(E-52),  2^52 <= m <= 2^53,  |N/D - m 2^(E-52)| <= 2^(E-53)  (ties: m even)
which is linear because D and E are concrete; when the bounds span several binades the path forks on E.
Supported: + - with symbolic or concrete operands, * and / by concrete numbers, abs, unary minus, comparisons, divmod by a
positive integer constant (exact in CPython), int(), round(x, n), '%.nf'-style formatting into decimal text objects, slicing /
concatenation / int() / float() of such text. Anything else raises PathCut('unsupported').
"""
import math
import z3
from . import core
from .core import Fraction, SymBool, PathCut

F = Fraction
_cnt = [0]


def _ctx():
    c = core.CTX
    if c is None:
        raise RuntimeError('F-model value used outside exploration')
    return c


def _next():
    _cnt[0] += 1
    return _cnt[0]


def fresh_int(name):
    _cnt[0] += 1
    return z3.Int('%s_%d' % (name, _cnt[0]))


def assume(*cs):
    c = _ctx()
    for x in cs:
        c.assumptions.append(x)
        c.solver.add(x)


def sb(zb):
    zs = z3.simplify(zb)
    if z3.is_true(zs):
        return True
    if z3.is_false(zs):
        return False
    return SymBool(zb)


def log2floor(q):
    q = F(q)
    k = q.numerator.bit_length() - q.denominator.bit_length()
    if F(2) ** k > q:
        k -= 1
    if F(2) ** (k + 1) <= q:
        k += 1
    return k


def pow2(k):
    return F(2) ** k


# ---------------------------------------------------------------------------------------------------------
class XI:
    """symbolic Python int"""

    def __init__(self, z, lo=None, hi=None):
        self.z = z if z3.is_expr(z) else z3.IntVal(int(z))
        self.lo, self.hi = lo, hi
        if z3.is_int_value(self.z):
            self.lo = self.hi = self.z.as_long()

    @staticmethod
    def lift(o):
        if isinstance(o, XI):
            return o
        if isinstance(o, bool):
            return XI(int(o))
        if isinstance(o, int):
            return XI(o)
        return None

    def _bin(self, o, f, fb):
        o2 = XI.lift(o)
        if o2 is None:
            return NotImplemented
        lo = hi = None
        if None not in (self.lo, self.hi, o2.lo, o2.hi):
            lo, hi = fb(self.lo, self.hi, o2.lo, o2.hi)
        return XI(f(self.z, o2.z), lo, hi)

    def __add__(s, o):
        if isinstance(o, (XF, float)):
            return XF.of(s) + o
        return s._bin(o, lambda a, b: a + b, lambda al, ah, bl, bh: (al + bl, ah + bh))
    __radd__ = __add__

    def __sub__(s, o):
        if isinstance(o, (XF, float)):
            return XF.of(s) - o
        return s._bin(o, lambda a, b: a - b, lambda al, ah, bl, bh: (al - bh, ah - bl))

    def __rsub__(s, o):
        if isinstance(o, (XF, float)):
            return o - XF.of(s)
        return XI.lift(o) - s

    def __mul__(s, o):
        if isinstance(o, (XF, float)):
            return XF.of(s) * o
        if isinstance(o, int) and not isinstance(o, bool):
            b = sorted((s.lo * o, s.hi * o)) if None not in (s.lo, s.hi) else (None, None)
            return XI(s.z * o, b[0], b[1])
        raise PathCut('unsupported: symbolic int * symbolic')
    __rmul__ = __mul__

    def __truediv__(s, o):
        return XF.of(s) / o

    def __rtruediv__(s, o):
        raise PathCut('unsupported: division by a symbolic int')

    def __neg__(s):
        return XI(-s.z, None if s.hi is None else -s.hi, None if s.lo is None else -s.lo)

    def __abs__(s):
        if s.lo is not None and s.lo >= 0:
            return s
        if s.hi is not None and s.hi <= 0:
            return -s
        if bool(s >= 0):
            return XI(s.z, 0, s.hi)
        return XI(-s.z, 0, None if s.lo is None else -s.lo)

    def _cmp(s, o, f):
        if isinstance(o, (XF, float)):
            return XF.of(s)._cmp(o, f)
        o2 = XI.lift(o)
        if o2 is None:
            return NotImplemented
        return sb(f(s.z, o2.z))

    def __lt__(s, o): return s._cmp(o, lambda a, b: a < b)
    def __le__(s, o): return s._cmp(o, lambda a, b: a <= b)
    def __gt__(s, o): return s._cmp(o, lambda a, b: a > b)
    def __ge__(s, o): return s._cmp(o, lambda a, b: a >= b)
    def __eq__(s, o):
        r = s._cmp(o, lambda a, b: a == b)
        return False if r is NotImplemented else r
    def __ne__(s, o):
        r = s._cmp(o, lambda a, b: a != b)
        return True if r is NotImplemented else r
    __hash__ = None

    def __bool__(s):
        return bool(sb(s.z != 0))

    def __index__(s):
        raise PathCut('unsupported: symbolic int used as index')

    def __repr__(s):
        return 'XI(%s)' % s.z


class XF:
    """symbolic double = num/den exactly (num: z3 Int term, den: int > 0), lo <= value <= hi"""

    def __init__(self, num, den, lo, hi, err=0, pend=False):
        self.num = num if z3.is_expr(num) else z3.IntVal(int(num))
        self.den = int(den)
        self.lo, self.hi = lo, hi
        self.err = F(err)      # the double differs from num/den by at most err (accumulated roundings kept un-materialised)
        self.pend = pend       # the double is exactly RN(num/den): one pending rounding (err == 0)
        self.nn = False        # the double itself is known to be >= 0 (rounding is monotone and RN(0) == 0), whatever err says

    def known_nonneg(self):
        return self.nn or (self.lo is not None and self.lo >= 0)

    def mark_nn(self, flag=True):
        self.nn = bool(flag)
        return self

    def slack(self):
        """bound on |double - num/den|"""
        if self.pend:
            return half_ulp(self)
        return self.err

    def settled(self):
        """same value with a pending rounding turned into an error bound"""
        if self.pend:
            e = half_ulp(self)
            return XF(self.num, self.den, None if self.lo is None else self.lo - e, None if self.hi is None else self.hi + e, e, False).mark_nn(self.known_nonneg())
        return self

    # --- construction ---------------------------------------------------------------------------
    @staticmethod
    def const(x):
        q = F(x) if not isinstance(x, core.LitFloat) else F(float(x))
        return XF(q.numerator, q.denominator, q, q)

    @staticmethod
    def of(o):
        if isinstance(o, XF):
            return o
        if isinstance(o, XI):
            return rn(XF(o.z, 1, None if o.lo is None else F(o.lo), None if o.hi is None else F(o.hi)))
        if isinstance(o, bool):
            raise TypeError('bool')
        if isinstance(o, int):
            return XF.const(float(o)) if abs(o) < 2 ** 53 else rn(XF(o, 1, F(o), F(o)))
        if isinstance(o, float):
            return XF.const(o)
        raise TypeError(type(o))

    @staticmethod
    def rat(o):
        """exact rational view of an operand (no rounding)"""
        if isinstance(o, XF):
            return o
        if isinstance(o, XI):
            return XF(o.z, 1, None if o.lo is None else F(o.lo), None if o.hi is None else F(o.hi))
        if isinstance(o, bool):
            raise TypeError('bool')
        if isinstance(o, int):
            return XF(o, 1, F(o), F(o))
        if isinstance(o, float):
            q = F(float(o))
            return XF(q.numerator, q.denominator, q, q)
        raise TypeError(type(o))

    def is_const(self):
        return z3.is_int_value(z3.simplify(self.num))

    def const_value(self):
        return F(z3.simplify(self.num).as_long(), self.den)

    # --- exact helpers -----------------------------------------------------------------------------
    def _lin(self, o, sign):
        o = XF.rat(o).settled()
        self = self.settled()
        den = self.den * o.den // math.gcd(self.den, o.den)
        num = self.num * (den // self.den) + sign * o.num * (den // o.den)
        lo = hi = None
        if None not in (self.lo, self.hi, o.lo, o.hi):
            lo, hi = (self.lo + o.lo, self.hi + o.hi) if sign > 0 else (self.lo - o.hi, self.hi - o.lo)
        return XF(num, den, lo, hi, self.err + o.err).mark_nn(sign > 0 and self.known_nonneg() and o.known_nonneg())

    def _scale(self, q):
        q = F(q)
        self = self.settled()
        if q == 0:
            return XF(0, 1, F(0), F(0))
        num, den = self.num * q.numerator, self.den * q.denominator
        if den < 0:
            num, den = -num, -den
        g = math.gcd(abs(q.numerator), self.den)   # keep denominators small where trivially possible
        lo = hi = None
        if None not in (self.lo, self.hi):
            lo, hi = sorted((self.lo * q, self.hi * q))
        return XF(num, den, lo, hi, self.err * abs(q)).mark_nn(q > 0 and self.known_nonneg())

    # --- float arithmetic (rounded) ------------------------------------------------------------------
    def __add__(s, o):
        try:
            return rn(s._lin(o, 1))
        except TypeError:
            return NotImplemented
    __radd__ = __add__

    def __sub__(s, o):
        try:
            return rn(s._lin(o, -1))
        except TypeError:
            return NotImplemented

    def __rsub__(s, o):
        try:
            return rn(XF.rat(o)._lin(s, -1))
        except TypeError:
            return NotImplemented

    def __mul__(s, o):
        if isinstance(o, (int, float)) and not isinstance(o, bool):
            return rn(s._scale(F(float(o)) if isinstance(o, float) else F(o)))
        if isinstance(o, (XF, XI)):
            oc = XF.rat(o)
            if oc.is_const():
                return rn(s._scale(oc.const_value()))
            if s.is_const():
                return rn(oc._scale(s.const_value()))
            raise PathCut('unsupported: symbolic * symbolic')
        return NotImplemented
    __rmul__ = __mul__

    def __truediv__(s, o):
        if isinstance(o, (int, float)) and not isinstance(o, bool):
            if o == 0:
                raise ZeroDivisionError('float division by zero')
            return rn(s._scale(1 / (F(float(o)) if isinstance(o, float) else F(o))))
        if isinstance(o, (XF, XI)):
            oc = XF.rat(o)
            if oc.is_const():
                return rn(s._scale(1 / oc.const_value()))
        raise PathCut('unsupported: division by a symbolic value')

    def __rtruediv__(s, o):
        raise PathCut('unsupported: division by a symbolic value')

    def __neg__(s):
        return XF(-s.num, s.den, None if s.hi is None else -s.hi, None if s.lo is None else -s.lo, s.err, s.pend)

    def __pos__(s):
        return s

    def __abs__(s):
        if s.known_nonneg():
            return s
        if s.hi is not None and s.hi <= 0:
            return -s
        if bool(s >= 0):
            return XF(s.num, s.den, F(0), s.hi, s.err, s.pend)
        return XF(-s.num, s.den, F(0), None if s.lo is None else -s.lo, s.err, s.pend)

    def _cmp(s, o, f):
        try:
            o = XF.rat(o)
        except TypeError:
            return NotImplemented
        if s.known_nonneg() and s.slack() > 0 and o.is_const() and o.slack() == 0 and o.const_value() == 0:
            w = z3.simplify(f(z3.IntVal(0), z3.IntVal(0))), z3.simplify(f(z3.IntVal(1), z3.IntVal(0)))
            if z3.is_true(w[0]) and z3.is_true(w[1]):            # x >= 0
                return True
            if z3.is_false(w[0]) and z3.is_false(w[1]):          # x < 0
                return False
        if s.pend and o.is_const() and not o.pend and o.err == 0:
            return sb(_cmp_pending_const(s, o.const_value(), f))
        if o.pend and s.is_const() and not s.pend and s.err == 0:
            return sb(_cmp_pending_const(o, s.const_value(), lambda a, b: f(b, a)))
        E = s.slack() + o.slack()
        if E == 0:
            return sb(f(s.num * o.den, o.num * s.den))
        # values known only up to E: the outcome is decided outside the band and free inside it (sound over-approximation)
        diff = s.num * o.den - o.num * s.den
        Ei = int(math.ceil(E * s.den * o.den))
        lo_t, hi_t = f(z3.IntVal(-Ei - 1), z3.IntVal(0)), f(z3.IntVal(Ei + 1), z3.IntVal(0))
        b = z3.Bool('band_%d' % _next())
        cs = []
        for (cond, val) in ((diff < -Ei, f(z3.IntVal(-1), z3.IntVal(0))), (diff > Ei, f(z3.IntVal(1), z3.IntVal(0)))):
            v = z3.simplify(val)
            if z3.is_true(v):
                cs.append(z3.Implies(cond, b))
            elif z3.is_false(v):
                cs.append(z3.Implies(cond, z3.Not(b)))
        assume(*cs)
        return sb(b)

    def __lt__(s, o): return s._cmp(o, lambda a, b: a < b)
    def __le__(s, o): return s._cmp(o, lambda a, b: a <= b)
    def __gt__(s, o): return s._cmp(o, lambda a, b: a > b)
    def __ge__(s, o): return s._cmp(o, lambda a, b: a >= b)
    def __eq__(s, o):
        r = s._cmp(o, lambda a, b: a == b)
        return False if r is NotImplemented else r
    def __ne__(s, o):
        r = s._cmp(o, lambda a, b: a != b)
        return True if r is NotImplemented else r
    __hash__ = None

    def __bool__(s):
        return bool(sb(s.num != 0))

    def __divmod__(s, c):
        """CPython float divmod for value >= 0 and a positive integer constant c: remainder exact (fmod), quotient the exact
        integer floor (representable below 2^53)"""
        if isinstance(c, float) and c == int(c):
            c = int(c)
        if not (isinstance(c, int) and not isinstance(c, bool) and c > 0):
            raise PathCut('unsupported: divmod by %r' % (c,))
        if not s.known_nonneg():
            if not bool(s >= 0):
                raise PathCut('unsupported: divmod of a negative value')
        if s.hi is None or s.hi / c >= 2 ** 53:
            raise PathCut('unsupported: divmod quotient range')
        s = s.settled()
        Ei = int(math.ceil(s.err * s.den))
        k = fresh_int('q')
        assume(k >= 0, s.num - c * s.den * k >= -Ei, s.num - c * s.den * k < c * s.den + Ei)
        qlo, qhi = (F(int(max(s.lo, 0) // c)) if s.lo is not None else F(0)), F(int(s.hi // c))
        rlo = max(F(0), (s.lo if s.lo is not None else F(0)) - c * qhi) - s.err
        rhi = min(F(c), s.hi - c * qlo) + s.err
        r = XF(s.num - c * s.den * k, s.den, rlo, rhi, s.err).mark_nn()
        return XF(k, 1, qlo, qhi).mark_nn(), r

    def __rdivmod__(s, o):
        raise PathCut('unsupported: divmod by a symbolic value')

    def __mod__(s, c):
        return s.__divmod__(c)[1]

    def __floordiv__(s, c):
        return s.__divmod__(c)[0]

    def __round__(s, n=None):
        if n is None:
            R = rnint(s, 1)
            lo = None if s.lo is None else math.floor(s.lo) - 1
            hi = None if s.hi is None else math.ceil(s.hi) + 1
            return XI(R, lo, hi)
        T = 10 ** n
        R = rnint(s, T)
        lo = None if s.lo is None else s.lo - F(1, T)
        hi = None if s.hi is None else s.hi + F(1, T)
        return rn(XF(R, T, lo, hi))

    def __int__(s):
        raise TypeError('use the int shadow')

    def __float__(s):
        raise TypeError('use the float shadow')

    def __repr__(s):
        t = str(s.num)
        return 'XF(%s / %d in [%s, %s])' % (t if len(t) < 60 else t[:57] + '...', s.den,
                                           None if s.lo is None else float(s.lo), None if s.hi is None else float(s.hi))


def trunc(x):
    """int(x) for a symbolic double"""
    if isinstance(x, XI):
        return x
    if isinstance(x, XF):
        if x.den == 1:
            return XI(x.num, None if x.lo is None else math.floor(x.lo), None if x.hi is None else math.ceil(x.hi))
        if x.lo is not None and x.lo >= 0:
            x = x.settled()
            Ei = int(math.ceil(x.err * x.den))
            k = fresh_int('t')
            assume(k >= 0, k * x.den <= x.num + Ei, x.num - Ei < (k + 1) * x.den)
            return XI(k, max(0, math.floor(x.lo)), None if x.hi is None else math.floor(x.hi))
        if x.hi is not None and x.hi <= 0:
            return -trunc(-x)
        if bool(x >= 0):
            return trunc(XF(x.num, x.den, F(0), x.hi))
        return -trunc(XF(-x.num, x.den, F(0), None if x.lo is None else -x.lo))
    return int(x)


def rnint(x, T):
    """Int R = round-half-even(x * T), exact"""
    x = x.settled()
    R = fresh_int('R')
    d = R * x.den - x.num * T          # (R - xT) * den
    if x.err == 0:
        assume(2 * d <= x.den, 2 * d >= -x.den, z3.Implies(z3.Or(2 * d == x.den, 2 * d == -x.den), R % 2 == 0))
    else:
        Ei = int(math.ceil(2 * x.err * T * x.den))
        assume(2 * d <= x.den + Ei, 2 * d >= -x.den - Ei)
    return R


def materialise(x):
    """turn a pending rounding into an explicit double (forks on the result binade; only inside an exploration)"""
    if not isinstance(x, XF) or not x.pend:
        return x
    c = _ctx()
    y = XF(x.num, x.den, x.lo, x.hi)
    if x.lo is not None and x.lo > 0 or (x.lo is not None and x.lo >= 0 and bool(sb(x.num > 0))):
        return _rn_pos(XF(y.num, y.den, y.lo if y.lo > 0 else None, y.hi), c)
    if x.hi is not None and x.hi <= 0:
        if bool(sb(x.num < 0)):
            return -_rn_pos(XF(-y.num, y.den, -y.hi if y.hi < 0 else None, -y.lo), c)
        return XF(0, 1, F(0), F(0))
    if bool(sb(x.num == 0)):
        return XF(0, 1, F(0), F(0))
    if bool(sb(x.num > 0)):
        return _rn_pos(XF(y.num, y.den, None, y.hi), c)
    return -_rn_pos(XF(-y.num, y.den, None, -y.lo), c)


def half_ulp(x):
    """half an ulp of the largest magnitude in x's bounds"""
    m = max(abs(x.lo), abs(x.hi))
    if m == 0:
        return F(0)
    return pow2(log2floor(m) - 53)


def rn(x):
    """round the rational x to the nearest double (ties to even). Narrow positive/negative ranges are materialised exactly
    (binade fork); ranges spanning several binades keep the exact rational with a pending rounding (exact, lazy) or, when
    earlier roundings are already pending, an accumulated error bound."""
    c = _ctx()
    if x.is_const() and x.err == 0 and not x.pend:
        q = x.const_value()
        fq = F(float(q))
        return XF(fq.numerator, fq.denominator, fq, fq)
    if x.lo is None or x.hi is None:
        raise PathCut('unsupported: rounding a value without bounds')
    nn = x.known_nonneg()
    x = x.settled()
    if x.err == 0:
        # exactly representable already? dyadic denominator and small numerator
        if x.den & (x.den - 1) == 0:
            m = max(abs(x.lo), abs(x.hi)) * x.den
            if m < 2 ** 53:
                return x
        if x.lo > 0 and log2floor(x.hi) - log2floor(x.lo) <= 1:
            return _rn_pos(x, c)
        if x.hi < 0 and log2floor(-x.lo) - log2floor(-x.hi) <= 1:
            return -_rn_pos(XF(-x.num, x.den, -x.hi, -x.lo), c)
        return XF(x.num, x.den, x.lo, x.hi, 0, True).mark_nn(nn)
    e = half_ulp(XF(x.num, x.den, x.lo - x.err, x.hi + x.err))
    return XF(x.num, x.den, x.lo - e, x.hi + e, x.err + e).mark_nn(nn)


def rounding_interval(cq):
    """(lo, lo_closed, hi, hi_closed): the reals that round to the double cq"""
    cq = F(cq)
    f = float(cq)
    assert F(f) == cq, 'constant is not a double'
    up, dn = F(math.nextafter(f, math.inf)), F(math.nextafter(f, -math.inf))
    m, e = math.frexp(f)
    even = (int(m * 2 ** 53) % 2 == 0)
    return (cq + dn) / 2, even, (cq + up) / 2, even


def _cmp_pending_const(s, cq, f):
    """exact comparison of RN(num/den) with the double constant cq"""
    lo, lo_c, hi, hi_c = rounding_interval(cq)
    N, D = s.num, s.den
    below = (N * lo.denominator < lo.numerator * D) if lo_c else (N * lo.denominator <= lo.numerator * D)     # RN(x) < c
    above = (N * hi.denominator > hi.numerator * D) if hi_c else (N * hi.denominator >= hi.numerator * D)     # RN(x) > c
    eq = z3.And(z3.Not(below), z3.Not(above))
    t = z3.simplify(f(z3.IntVal(0), z3.IntVal(1)))     # outcome when RN(x) < c
    e_ = z3.simplify(f(z3.IntVal(0), z3.IntVal(0)))    # outcome when equal
    g = z3.simplify(f(z3.IntVal(1), z3.IntVal(0)))     # outcome when RN(x) > c
    parts = []
    for cond, val in ((below, t), (eq, e_), (above, g)):
        if z3.is_true(val):
            parts.append(cond)
    return z3.Or(*parts) if parts else z3.BoolVal(False)


MIN_BINADE = -40


def _rn_pos(x, c):
    """x > 0 on this path"""
    k1 = log2floor(x.hi)
    k0 = log2floor(x.lo) if (x.lo is not None and x.lo > 0) else MIN_BINADE
    if k1 - k0 > 70:
        raise PathCut('unsupported: value range spans too many binades')

    def ge(kk):        # x >= 2^kk
        return x.num >= (2 ** kk) * x.den if kk >= 0 else x.num * (2 ** -kk) >= x.den
    for k in range(k1, k0 - 1, -1):
        last = (k == k0)
        inb = z3.And(ge(k), z3.Not(ge(k + 1))) if not last else z3.Not(ge(k + 1))
        take = True if last else bool(sb(inb))
        if not take:
            continue
        if last:
            if x.lo is None or x.lo <= 0:
                assume(inb)
                if not _below_ok(x, k, c):
                    raise PathCut('unsupported: value may fall below 2^%d (tiny magnitudes are outside the F-model bounds)' % MIN_BINADE)
            assume(z3.And(ge(k), z3.Not(ge(k + 1))))
        m = fresh_int('m')
        # y = m * 2^(k-52); (x - y) scaled by den*2^(52-k) (or by 2^(k-52) on the other side)
        if k <= 52:
            P = 2 ** (52 - k)
            d = x.num * P - m * x.den
            unit = x.den
            res = XF(m, P, pow2(k), pow2(k + 1))
        else:
            Q = 2 ** (k - 52)
            d = x.num - m * Q * x.den
            unit = x.den * Q
            res = XF(m * Q, 1, pow2(k), pow2(k + 1))
        assume(m >= 2 ** 52, m <= 2 ** 53, 2 * d <= unit, 2 * d >= -unit, z3.Implies(z3.Or(2 * d == unit, 2 * d == -unit), m % 2 == 0))
        return res
    raise core.PathAbort()


def _below_ok(x, k, c):
    s = c.solver
    s.push()
    s.add(x.num * (2 ** -k) < x.den if k < 0 else x.num < (2 ** k) * x.den)
    r = s.check()
    s.pop()
    return r == z3.unsat


# --- decimal text ------------------------------------------------------------------------------------------
PARSED = []      # (numerator term, power of ten) of every decimal literal turned into a double on the current path


class DText:
    """decimal text: optional sign flag + segments ('lit', str) | ('dig', z3 Int value, width) | ('int', z3 Int value >= 0)"""

    def __init__(self, segs, neg=False):
        self.segs = list(segs)
        self.neg = neg        # False | True | z3 Bool

    # formatting ------------------------------------------------------------------------------------------
    @staticmethod
    def fixed(x, ndec, width=0, zero_pad=False):
        """'{:.<ndec>f}' (optionally zero padded to `width`) of a symbolic double"""
        x = XF.rat(x)
        neg = False
        if not (x.lo is not None and x.lo >= 0):
            if x.hi is not None and x.hi < 0:
                neg, x = True, -x
            elif bool(x < 0):
                neg, x = True, XF(-x.num, x.den, F(0) if x.hi is None else max(F(0), -x.hi), None if x.lo is None else -x.lo)
            else:
                x = XF(x.num, x.den, F(0), x.hi)
        T = 10 ** ndec
        R = rnint(x, T)
        c0 = _ctx()
        memo0 = getattr(c0, 'fm_memo', None)
        if memo0 is None:
            memo0 = c0.fm_memo = {}
        k0 = ('ipfr', R.get_id(), T)
        if k0 not in memo0:
            ip, fr = fresh_int('ip'), fresh_int('fr')
            assume(R == ip * T + fr, fr >= 0, fr < T, ip >= 0)
            memo0[k0] = (ip, fr)
        ip, fr = memo0[k0]
        segs = []
        if zero_pad and width:
            w = width - ndec - 1
            if x.hi is None or x.hi + 1 >= 10 ** w:
                raise PathCut('unsupported: zero-padded field may overflow its width')
            segs.append(('dig', ip, w, None if x.lo is None else max(0, math.floor(x.lo) - 1), None if x.hi is None else math.floor(x.hi) + 1))
        else:
            segs.append(('int', ip, None if x.hi is None else math.floor(x.hi) + 1))
        if ndec:
            # the fractional part as individual decimal digits: slices and int()/float() of slices are then linear combinations of the
            # same digit variables (no new div/mod constraints per slice)
            c = _ctx()
            memo = getattr(c, 'fm_memo', None)
            if memo is None:
                memo = c.fm_memo = {}
            key = ('digits', fr.get_id(), ndec)
            if key not in memo:
                ds = [fresh_int('d') for _ in range(ndec)]
                assume(*[z3.And(d >= 0, d <= 9) for d in ds])
                assume(fr == sum(d * 10 ** (ndec - 1 - i) for i, d in enumerate(ds)))
                memo[key] = ds
            segs += [('lit', '.'), ('digs', list(memo[key]))]
        t = DText(segs, neg)
        t.ipart_hi = None if x.hi is None else math.floor(x.hi) + 1
        return t

    @staticmethod
    def of_int(i, width=0):
        i = XI.lift(i)
        if i.lo is None or i.lo < 0:
            if not bool(i >= 0):
                if width:
                    raise PathCut('unsupported: padded negative integer')
                return DText([('int', (-i).z, None if i.lo is None else -i.lo)], True)
        if width:
            if i.hi is None or i.hi >= 10 ** width:
                if not _prove(i.z < 10 ** width):
                    raise PathCut('unsupported: padded integer may overflow its width')
            return DText([('dig', i.z, width, i.lo, i.hi)])
        return DText([('int', i.z, i.hi, i.lo)])

    # str protocol ------------------------------------------------------------------------------------------
    def split(self, sep=None):
        if sep != '.':
            raise PathCut('unsupported: split(%r) of symbolic text' % (sep,))
        for j, p in enumerate(self.segs):
            if p == ('lit', '.'):
                return [DText(self.segs[:j], self.neg), DText(self.segs[j + 1:])]
        return [self]

    def _digit_list(self):
        """list of single-digit terms if the text consists of digit variables / literal digits only, else None"""
        out = []
        for p in self.segs:
            if p[0] == 'digs':
                out += list(p[1])
            elif p[0] == 'lit' and p[1].isdigit():
                out += [z3.IntVal(int(ch)) for ch in p[1]]
            else:
                return None
        return out

    def _digits(self):
        out = []
        for p in self.segs:
            if p[0] == 'digs':
                out += [(d, 1) for d in p[1]]
            elif p[0] == 'dig':
                out.append((p[1], p[2]))
            elif p[0] == 'lit' and p[1].isdigit():
                out.append((z3.IntVal(int(p[1])), len(p[1])))
            else:
                raise PathCut('unsupported: digit access into text with a variable-width or non-digit part')
        return out

    def __len__(self):
        return sum(w for _, w in self._digits())

    def __getitem__(self, ix):
        dl = self._digit_list()
        if dl is not None:
            sub = dl[ix] if isinstance(ix, slice) else [dl[ix]]
            if not sub:
                raise PathCut('unsupported: empty slice of symbolic text')
            return DText([('digs', sub)])
        ds = self._digits()
        W = sum(w for _, w in ds)
        val = z3.IntVal(0)
        for e, w in ds:
            val = val * 10 ** w + e
        if isinstance(ix, int):
            if ix < 0:
                ix += W
            a, b = ix, ix + 1
        else:
            a = 0 if ix.start is None else ix.start
            b = W if ix.stop is None else min(ix.stop, W)
        if not 0 <= a < b <= W:
            raise PathCut('unsupported: empty or out-of-range slice of symbolic text')
        hi_part, sub = fresh_int('hi'), fresh_int('sl')
        lo_w = W - b
        rest = fresh_int('lo')
        assume(val == (hi_part * 10 ** (b - a) + sub) * 10 ** lo_w + rest, rest >= 0, rest < 10 ** lo_w, sub >= 0, sub < 10 ** (b - a), hi_part >= 0)
        return DText([('dig', sub, b - a)])

    def __add__(self, o):
        o = DText([('lit', o)]) if isinstance(o, str) else o
        return DText(self.segs + o.segs, self.neg)

    def __radd__(self, o):
        return DText([('lit', o)] + self.segs, False)

    def rstrip(self, ch=None):
        if ch != '0' or ('lit', '.') not in self.segs:
            raise PathCut('unsupported: rstrip(%r)' % (ch,))
        t = DText(self.segs, self.neg)      # trailing zeros after the decimal point do not change the value
        t.stripped = True
        return t

    def replace(self, a, b):
        if (a, b) != ('.', ''):
            raise PathCut('unsupported: replace(%r, %r)' % (a, b))
        t = DText([p for p in self.segs if p != ('lit', '.')], self.neg)
        t.dot_removed_after = sum(1 for p in self.segs[:self.segs.index(('lit', '.'))]) if ('lit', '.') in self.segs else None
        t.stripped = getattr(self, 'stripped', False)
        return t

    def to_int(self):
        if any(p == ('lit', '.') for p in self.segs):
            raise ValueError('invalid literal for int()')
        val = z3.IntVal(0)
        lo, hi = 0, 0
        for p in self.segs:
            if p[0] == 'digs':
                for d in p[1]:
                    val = val * 10 + d
                    lo, hi = (None if lo is None else lo * 10), (None if hi is None else hi * 10 + 9)
            elif p[0] == 'dig':
                w = p[2]
                plo = p[3] if len(p) > 3 and p[3] is not None else 0
                phi = p[4] if len(p) > 4 and p[4] is not None else 10 ** w - 1
                val = val * 10 ** w + p[1]
                lo, hi = (None if lo is None else lo * 10 ** w + plo), (None if hi is None else hi * 10 ** w + phi)
            elif p[0] == 'int':
                if hi != 0:
                    raise PathCut('unsupported: variable-width integer inside text')
                val, hi, lo = p[1], p[2], (p[3] if len(p) > 3 and p[3] is not None else 0)
            elif p[0] == 'lit' and p[1].isdigit():
                w = len(p[1])
                val = val * 10 ** w + int(p[1])
                lo, hi = (None if lo is None else lo * 10 ** w + int(p[1])), (None if hi is None else hi * 10 ** w + int(p[1]))
            else:
                raise PathCut('unsupported: int() of %r' % (p,))
        r = XI(val, lo if lo is not None else 0, hi)
        if self.neg is True:
            return -r
        if self.neg is not False:
            return -r if bool(sb(self.neg)) else r
        return r

    def to_float(self):
        """value of the decimal literal, correctly rounded (what float(str) does)"""
        segs = self.segs
        if ('lit', '.') in segs:
            j = segs.index(('lit', '.'))
            ipart, fpart = segs[:j], segs[j + 1:]
        else:
            ipart, fpart = segs, []
        ft = DText(fpart).to_int() if fpart else XI(0)
        fw = 0
        for p in fpart:
            fw += len(p[1]) if p[0] in ('digs', 'lit') else p[2]
        it = DText(ipart).to_int() if ipart else XI(0)
        num = it.z * 10 ** fw + ft.z
        T = 10 ** fw
        lo = F(it.lo if it.lo is not None else 0) + F(ft.lo if ft.lo is not None else 0, T)
        hi = None if it.hi is None else F(it.hi) + (F(ft.hi, T) if ft.hi is not None else F(1))
        fs = []
        for q in fpart:
            if q[0] == 'digs':
                fs += [(d, 1) for d in q[1]]
            elif q[0] == 'dig':
                fs.append((q[1], q[2]))
            elif q[0] == 'lit':
                fs += [(z3.IntVal(int(ch)), 1) for ch in q[1]]
        PARSED.append((num, T, it.z, fs))
        r = rn(XF(num, T, lo, hi))
        if self.neg is True:
            return -r
        if self.neg is not False:
            return -r if bool(sb(self.neg)) else r
        return r

    def __repr__(self):
        return 'DText(%r%s)' % (self.segs, ', neg' if self.neg else '')


def _prove(zb):
    s = _ctx().solver
    s.push()
    s.add(z3.Not(zb))
    r = s.check()
    s.pop()
    return r == z3.unsat


# --- hooks for the instrumented angles module --------------------------------------------------------------
_bfloat, _bint, _bstr = float, int, str


def text_hook(kind, *a):
    if kind == 'fmt':
        v, conv, spec = a
        return fmt(v, spec)
    if kind == 'join':
        parts = a[0]
        t = None
        for p in parts:
            p2 = DText([('lit', p)]) if isinstance(p, _bstr) else p
            t = p2 if t is None else t + p2
        return t
    if kind == 'call':
        o, m, args, kw = a
        if isinstance(o, DText):
            return getattr(o, m)(*args, **kw)
    raise PathCut('unsupported text operation %s' % (kind,))


def fmt(v, spec):
    import re
    if isinstance(v, DText) and spec == '':
        return v
    if isinstance(v, XI):
        m = re.fullmatch(r'(0?)(\d*)d?', spec)
        if m:
            return DText.of_int(v, int(m.group(2)) if m.group(2) else 0)
        raise PathCut('unsupported: int format %r' % spec)
    if isinstance(v, (XF, XI)) and spec == '' and not isinstance(v, XI):
        return DText([('lit', '<float>')])
    if isinstance(v, XF):
        m = re.fullmatch(r'(0?)(\d*)\.(\d+)f', spec)
        if m:
            return DText.fixed(v, int(m.group(3)), int(m.group(2)) if m.group(2) else 0, bool(m.group(1)))
        raise PathCut('unsupported: float format %r' % spec)
    return format(v, spec)


class _FFloatMeta(type):
    def __instancecheck__(cls, x):
        if cls is FFloat:
            return isinstance(x, (_bfloat, XF))
        return type.__instancecheck__(cls, x)

    def __eq__(cls, o):
        return o is cls or (cls is FFloat and o is _bfloat)

    def __ne__(cls, o):
        return not _FFloatMeta.__eq__(cls, o)

    def __hash__(cls):
        return hash(_bfloat) if cls is FFloat else type.__hash__(cls)


class FFloat(_bfloat, metaclass=_FFloatMeta):
    """`float` inside the instrumented angles module in the F-model"""

    def __new__(cls, x=0.0):
        if cls is FFloat:
            if isinstance(x, XF):
                return x
            if isinstance(x, XI):
                return XF.of(x)
            if isinstance(x, DText):
                return x.to_float()
            if isinstance(x, core.LitFloat):
                return _bfloat(x)
            tx = type(x)
            if tx not in (_bfloat, _bint, _bstr, bool) and hasattr(tx, '__float__'):
                r = tx.__float__(x)
                return r if isinstance(r, XF) else _bfloat(r)
            return _bfloat(x)
        if isinstance(x, (XF, XI)):
            return _bfloat.__new__(cls, 0.0)
        return _bfloat.__new__(cls, x)


class _FIntMeta(type):
    def __instancecheck__(cls, x):
        if cls is FInt:
            return isinstance(x, (_bint, XI))
        return type.__instancecheck__(cls, x)

    def __eq__(cls, o):
        return o is cls or (cls is FInt and o is _bint)

    def __ne__(cls, o):
        return not _FIntMeta.__eq__(cls, o)

    def __hash__(cls):
        return hash(_bint) if cls is FInt else type.__hash__(cls)


class FInt(_bint, metaclass=_FIntMeta):
    def __new__(cls, x=0, *a, **k):
        if cls is FInt:
            if isinstance(x, XF):
                return trunc(x)
            if isinstance(x, XI):
                return x
            if isinstance(x, DText):
                return x.to_int()
            tx = type(x)
            if not a and not k and tx not in (_bfloat, _bint, _bstr, bool, bytes) and hasattr(tx, '__int__') and not isinstance(x, (_bint, _bstr)):
                r = tx.__int__(x)
                return r if isinstance(r, XI) else _bint(r)
            return _bint(x, *a, **k)
        return _bint.__new__(cls, x, *a, **k)


class SignChar:
    def __init__(self, neg):
        self.neg = neg

    def __eq__(self, o):
        if o == '-':
            return self.neg
        raise PathCut('unsupported character comparison')

    def __ne__(self, o):
        r = self.__eq__(o)
        return (not r) if isinstance(r, bool) else ~r
    __hash__ = None


class StrOfNumber:
    """str(x) of a symbolic number: only the sign test str(x)[0] == '-' is supported (for doubles this includes -0.0,
    which the F-model excludes by construction: symbolic doubles are never negative zero)"""

    def __init__(self, v):
        self.v = v

    def __getitem__(self, k):
        if k == 0:
            r = self.v < 0
            return SignChar(r)
        raise PathCut('unsupported: indexing str() of a symbolic number')


class _FStrMeta(type):
    def __instancecheck__(cls, x):
        if cls is FStr:
            return isinstance(x, (_bstr, DText))
        return type.__instancecheck__(cls, x)

    def __eq__(cls, o):
        return o is cls or (cls is FStr and o is _bstr)

    def __ne__(cls, o):
        return not _FStrMeta.__eq__(cls, o)

    def __hash__(cls):
        return hash(_bstr) if cls is FStr else type.__hash__(cls)


class FStr(_bstr, metaclass=_FStrMeta):
    def __new__(cls, x='', *a, **k):
        if cls is FStr:
            if isinstance(x, (XF, XI)):
                return StrOfNumber(x)
            if isinstance(x, DText):
                return x
            return _bstr(x, *a, **k)
        return _bstr.__new__(cls, x, *a, **k)


def ftype(x, *a):
    if a:
        return type(x, *a)
    if isinstance(x, XF):
        return FFloat
    if isinstance(x, XI):
        return FInt
    if isinstance(x, DText):
        return FStr
    t = type(x)
    if t is _bfloat or t is core.LitFloat:
        return FFloat
    if t is _bint:
        return FInt
    if t is _bstr:
        return FStr
    return t


def fradians(x):
    if isinstance(x, (XF, XI)):
        raise PathCut('unsupported: radians() of a symbolic double (libm)')
    return math.radians(x)


F_SHADOWS = {'float': FFloat, 'int': FInt, 'str': FStr, 'type': ftype, 'radians': fradians}


def input_double(name, E, lo=None, hi=None, lattice=None):
    """a fresh positive double in binade 2^E (optionally restricted to [lo, hi]); lattice=(step Fraction): value is a
    multiple-of-step decimal rounded to double is NOT expressed here (see decimal_input)"""
    m = z3.Int(name)
    assume(m >= 2 ** 52, m < 2 ** 53)
    if E <= 52:
        x = XF(m, 2 ** (52 - E), pow2(E), pow2(E + 1))
    else:
        x = XF(m * 2 ** (E - 52), 1, pow2(E), pow2(E + 1))
    if lo is not None:
        lo = F(lo)
        assume(x.num * lo.denominator >= lo.numerator * x.den)
        x.lo = max(x.lo, lo)
    if hi is not None:
        hi = F(hi)
        assume(x.num * hi.denominator <= hi.numerator * x.den)
        x.hi = min(x.hi, hi)
    return x


def decimal_input(name, ndec, lo, hi):
    """the double nearest to q / 10^ndec for a fresh integer q with lo <= q/10^ndec <= hi (lo > 0): 'a value written with up to
    ndec decimals'. Returns (q, XF)"""
    q = z3.Int(name)
    lo, hi = F(lo), F(hi)
    T = 10 ** ndec
    assume(q * lo.denominator >= lo.numerator * T, q * hi.denominator <= hi.numerator * T)
    return q, rn(XF(q, T, lo, hi))
