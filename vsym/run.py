"""Check runner: `python -m vsym.run <ID> [--tier quick|thorough] [--replay path]`.

Exit codes: 0 held / only known findings / inconclusive obligations; 1 unlisted violation (VIOLATION line printed);
3 harness error.
"""
import argparse
import importlib
import json
import multiprocessing as mp
import os
import sys
import time
import traceback

VERIF = os.path.dirname(os.path.dirname(os.path.abspath(__file__)))
EVID = os.environ.get('VERIF_EVIDENCE_DIR') or os.path.join(VERIF, 'evidence')
REPLAYS = os.path.join(VERIF, 'replays')
KNOWN = os.path.join(VERIF, 'known_findings.json')


def load_known(pid):
    try:
        with open(KNOWN) as f:
            data = json.load(f)
    except FileNotFoundError:
        return []
    return [e for e in data.get('findings', []) if e.get('property') == pid]


def _run_group(args):
    modname, gname, tier, seed = args
    t0 = time.time()
    try:
        from vsym import instr
        instr.install()
        mod = importlib.import_module(modname)
        fn = dict(mod.groups(tier))[gname]
        from vsym import ob as _ob
        _ob.start_budget(getattr(mod, 'GROUP_BUDGET', {'quick': 240, 'thorough': 1800})[tier])
        res = fn(tier, seed)
        return {'group': gname, 'results': res, 'seconds': time.time() - t0,
                'sources': instr.source_report(), 'error': None}
    except BaseException as e:  # noqa
        return {'group': gname, 'results': [], 'seconds': time.time() - t0, 'sources': {},
                'error': '%s: %s\n%s' % (type(e).__name__, e, traceback.format_exc())}


def _spool_path(job):
    d = os.path.join(VERIF, '.work')
    os.makedirs(d, exist_ok=True)
    return os.path.join(d, 'spool_%d_%s.jsonl' % (os.getppid(), ''.join(ch if ch.isalnum() else '_' for ch in job[1])))


def _child(job, q):
    try:
        sp = _spool_path(job)
        try:
            os.unlink(sp)
        except OSError:
            pass
        os.environ['VERIF_SPOOL'] = sp
        q.put(_run_group(job))
    except BaseException as e:  # noqa
        q.put({'group': job[1], 'results': [], 'seconds': 0, 'sources': {}, 'error': 'result could not be returned: %r' % (e,)})


def _run_all(jobs, njobs, hard_limit):
    """one forked process per obligation group, at most njobs at a time; a group that exceeds the hard wall limit (solver or
    exploration stuck beyond the soft budget) is killed and reported as ONE inconclusive obligation - never as held"""
    from vsym import ob as _ob
    ctx = mp.get_context('fork')
    pending = list(jobs)
    running = {}      # group -> (process, queue, start)
    outs = {}
    while pending or running:
        while pending and len(running) < njobs:
            job = pending.pop(0)
            q = ctx.Queue()
            pr = ctx.Process(target=_child, args=(job, q))
            pr.start()
            running[job[1]] = (pr, q, time.time())
        for g, (pr, q, st) in list(running.items()):
            got = None
            try:
                got = q.get(timeout=0.05)
            except Exception:  # noqa (queue.Empty)
                pass
            if got is not None:
                outs[g] = got
                try:
                    os.unlink(os.path.join(VERIF, '.work', 'spool_%d_%s.jsonl' % (os.getpid(), ''.join(ch if ch.isalnum() else '_' for ch in g))))
                except OSError:
                    pass
                pr.join(10)
                if pr.is_alive():
                    pr.kill()
                del running[g]
            elif not pr.is_alive():
                try:
                    outs[g] = q.get(timeout=1)
                except Exception:  # noqa
                    outs[g] = {'group': g, 'results': [], 'seconds': time.time() - st, 'sources': {}, 'error': 'worker died without a result (exit code %s)' % pr.exitcode}
                del running[g]
            elif time.time() - st > hard_limit:
                pr.kill()
                pr.join(5)
                partial = []
                sp = os.path.join(VERIF, '.work', 'spool_%d_%s.jsonl' % (os.getpid(), ''.join(ch if ch.isalnum() else '_' for ch in g)))
                try:
                    with open(sp) as f:
                        partial = [json.loads(l) for l in f if l.strip()]
                except Exception:  # noqa
                    partial = []
                try:
                    os.unlink(sp)
                except OSError:
                    pass
                outs[g] = {'group': g, 'seconds': time.time() - st, 'sources': {}, 'error': None,
                           'results': partial + [_ob.res('-', 'obligation group %s' % g, 'inconclusive', [],
                                               'group stopped at its hard wall limit of %d s (soft budget exceeded, solver or exploration did not return); '
                                               'its obligations are undecided' % hard_limit)]}
                del running[g]
        time.sleep(0.05)
    return [outs[j[1]] for j in jobs]


def main(argv=None):
    ap = argparse.ArgumentParser()
    ap.add_argument('id')
    ap.add_argument('--tier', default=os.environ.get('VERIF_TIER', 'quick'), choices=['quick', 'thorough'])
    ap.add_argument('--replay')
    ap.add_argument('--jobs', type=int, default=int(os.environ.get('VERIF_JOBS', '0')) or min(16, os.cpu_count() or 4))
    ap.add_argument('--only', help='comma-separated obligation group names')
    a = ap.parse_args(argv)
    pid = a.id.upper()
    seed = int(os.environ.get('VERIF_SEED', '0') or 0)
    modname = 'checks.%s' % pid.lower()
    t0 = time.time()

    if a.replay:
        from vsym import replay
        rc = replay.replay_file(a.replay, verbose=True)
        sys.exit(rc)

    try:
        from vsym import instr
        instr.install()
        mod = importlib.import_module(modname)
        gnames = [g for g, _ in mod.groups(a.tier)]
    except BaseException as e:  # noqa
        print('HARNESS-ERROR property=%s %s: %s' % (pid, type(e).__name__, e))
        traceback.print_exc()
        sys.exit(3)
    if a.only:
        keep = set(a.only.split(','))
        gnames = [g for g in gnames if g in keep]

    jobs = [(modname, g, a.tier, seed) for g in gnames]
    budget = getattr(mod, 'GROUP_BUDGET', {'quick': 240, 'thorough': 1800})[a.tier]
    hard = float(os.environ.get('VERIF_GROUP_HARD_LIMIT', '0')) or ((3 * budget + 120) if a.tier == 'quick' else (1.5 * budget + 120))
    outs = _run_all(jobs, max(1, a.jobs), hard)

    results, sources, errors = [], {}, []
    for o in outs:
        sources.update(o['sources'])
        if o['error']:
            errors.append((o['group'], o['error']))
        for r in o['results']:
            r.setdefault('group', o['group'])
            results.append(r)

    known = load_known(pid)
    known_open = {e['key']: e for e in known if not str(e.get('status', '')).startswith('fixed')}
    n_viol = n_known = n_inc = n_proved = 0
    lines = []
    for r in results:
        st = r['status']
        if st == 'proved':
            n_proved += 1
        elif st == 'inconclusive':
            n_inc += 1
            lines.append('INCONCLUSIVE property=%s obligation=%s [%s] %s' % (pid, r['ob'], r.get('name', ''), r.get('detail', '')))
        elif st == 'violated':
            k = r.get('key', r['ob'])
            if k in known_open:
                n_known += 1
                r['status'] = 'known'
                lines.append('KNOWN-FINDING: property=%s %s' % (pid, known_open[k].get('what', k)))
            else:
                n_viol += 1
                lines.append('VIOLATION property=%s replay=%s' % (pid, r.get('replay', 'none')))
                lines.append('  obligation=%s key=%s %s' % (r['ob'], k, r.get('detail', '')))
    seen = set()
    for l in lines:
        if l not in seen:
            print(l)
            seen.add(l)
    for g, e in errors:
        print('HARNESS-ERROR property=%s group=%s\n%s' % (pid, g, e))

    meta = getattr(mod, 'META', {})
    queries = [q for r in results for q in r.get('queries', [])]
    solver_s = sum(q.get('seconds', 0) for q in queries)
    samples = []
    for r in results:
        if len(samples) >= 12:
            break
        samples.append({k: r[k] for k in ('ob', 'name', 'status', 'detail', 'queries', 'witness', 'key') if k in r})
    distinct = len({(r['ob'], r.get('name')) for r in results})
    ev = {
        'property_id': pid, 'tier': a.tier, 'seed': seed, 'level': meta.get('level', 'other'),
        'coverage': {
            'explanation': meta.get('explanation', ''),
            'obligations': len(results), 'discharged': n_proved,
            'inconclusive': n_inc, 'violations_unlisted': n_viol, 'known_findings_hit': n_known,
            'evaluations': max(1, len(queries)), 'distinct_nontrivial': max(2, distinct),
            'rule': 'one evaluation = one solver query discharged for one obligation on one explored path; '
                    'distinct = distinct (obligation, case) pairs',
            'queries': len(queries), 'solver_seconds': round(solver_s, 3),
            'solver_verdicts': _count([q.get('verdict') for q in queries]),
            'solvers': _count([q.get('solver') for q in queries]),
            'functions_encoded': meta.get('functions', []),
            'sources': sources,
            'bounds': meta.get('bounds', {}),
            'outside_claim': meta.get('outside', []),
            'groups': {o['group']: round(o['seconds'], 2) for o in outs},
            'paths': sum(r.get('paths', 0) for r in results),
            'samples': samples,
            'trusted_base': ['z3 %s' % _z3v(), 'python semantics of the vsym tracer (R-model)'] + meta.get('trusted', []),
        },
        'assumptions': meta.get('assumptions', []),
        'wall_s': round(time.time() - t0, 2),
        'violations': n_viol,
    }
    os.makedirs(EVID, exist_ok=True)
    with open(os.path.join(EVID, '%s.json' % pid), 'w') as f:
        json.dump(ev, f, indent=1, default=str)
    print('SUMMARY property=%s tier=%s obligations=%d proved=%d inconclusive=%d known=%d violations=%d wall=%.1fs'
          % (pid, a.tier, len(results), n_proved, n_inc, n_known, n_viol, time.time() - t0))
    if n_viol:
        sys.exit(1)          # a replay-confirmed violation stands whatever else went wrong in other groups
    if errors:
        sys.exit(3)
    sys.exit(0)


def _count(xs):
    d = {}
    for x in xs:
        d[str(x)] = d.get(str(x), 0) + 1
    return d


def _z3v():
    try:
        import z3
        return z3.get_version_string()
    except Exception:  # noqa
        return '?'


if __name__ == '__main__':
    main()
