"""Child process of a replay: imports the real (un-instrumented) library from the repository and evaluates the
oracle named in the replay file. Prints REPLAY-VIOLATED / REPLAY-HOLDS as last line."""
import fractions
import importlib
import json
import os
import sys

REPO = os.environ.get('VERIF_REPLAY_REPO', '/repo')
sys.path.insert(0, REPO)


def dec(x):
    if isinstance(x, dict):
        if '__frac__' in x:
            return fractions.Fraction(int(x['__frac__'][0]), int(x['__frac__'][1]))
        return {k: dec(v) for k, v in x.items()}
    if isinstance(x, list):
        return [dec(v) for v in x]
    return x


def main():
    with open(sys.argv[1]) as f:
        d = json.load(f)
    import geodepy
    assert os.path.realpath(os.path.dirname(geodepy.__file__)).startswith(os.path.realpath(REPO)), geodepy.__file__
    modname, fname = d['oracle'].split(':')
    mod = importlib.import_module(modname)
    violated, msg = getattr(mod, fname)(dec(d['args']))
    if violated:
        print('REPLAY-VIOLATED %s %s: %s' % (d['property'], d['obligation'], msg))
        sys.exit(1)
    print('REPLAY-HOLDS %s %s: %s' % (d['property'], d['obligation'], msg))
    sys.exit(0)


if __name__ == '__main__':
    main()
