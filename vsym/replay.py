"""Replay of a concrete witness on the UNMODIFIED repository code (plain interpreter, no instrumentation)
against an independent oracle. A violation is reported only if it reproduces here."""
import hashlib
import json
import os
import subprocess
import sys

VERIF = os.path.dirname(os.path.dirname(os.path.abspath(__file__)))
REPLAYS = os.environ.get('VERIF_REPLAY_DIR') or os.path.join(VERIF, 'replays')
PY = '/venv/bin/python'


def _jsonable(x):
    import fractions
    if isinstance(x, fractions.Fraction):
        return {'__frac__': [str(x.numerator), str(x.denominator)]}
    if isinstance(x, dict):
        return {k: _jsonable(v) for k, v in x.items()}
    if isinstance(x, (list, tuple)):
        return [_jsonable(v) for v in x]
    if isinstance(x, float) or isinstance(x, int) or isinstance(x, str) or x is None or isinstance(x, bool):
        return x
    try:
        import mpmath
        if isinstance(x, mpmath.mpf):
            return float(x)
    except Exception:  # noqa
        pass
    return str(x)


def write_replay(pid, ob, key, oracle, args):
    d = {'property': pid, 'obligation': ob, 'key': key, 'oracle': oracle, 'args': _jsonable(args)}
    txt = json.dumps(d, indent=1, sort_keys=True)
    h = hashlib.sha1(txt.encode()).hexdigest()[:12]
    os.makedirs(os.path.join(REPLAYS, pid), exist_ok=True)
    path = os.path.join(REPLAYS, pid, '%s_%s.json' % (ob.replace('/', '_'), h))
    with open(path, 'w') as f:
        f.write(txt)
    return path


def run_replay(path, timeout=600):
    """Returns (violated: bool|None, message). None = replay itself failed (harness problem)."""
    env = dict(os.environ)
    env['PYTHONPATH'] = VERIF + os.pathsep + os.path.join(VERIF, '.deps')
    p = subprocess.run([PY, os.path.join(VERIF, 'vsym', 'replay_child.py'), path], capture_output=True, text=True,
                       timeout=timeout, env=env, cwd=VERIF)
    out = (p.stdout or '').strip().splitlines()
    last = out[-1] if out else ''
    if p.returncode == 1 and last.startswith('REPLAY-VIOLATED'):
        return True, last
    if p.returncode == 0 and last.startswith('REPLAY-HOLDS'):
        return False, last
    return None, 'replay error rc=%s: %s %s' % (p.returncode, last, (p.stderr or '')[-400:])


def confirm(pid, ob, key, oracle, args):
    path = write_replay(pid, ob, key, oracle, args)
    v, msg = run_replay(path)
    if v is not True:
        try:
            os.unlink(path)
        except OSError:
            pass
    return v, msg, path


def replay_file(path, verbose=False):
    v, msg = run_replay(path)
    with open(path) as f:
        d = json.load(f)
    if v is True:
        print(msg)
        print('VIOLATION property=%s replay=%s' % (d['property'], path))
        return 1
    print(msg)
    return 0 if v is False else 3
