"""Instrumented import of the repository's own source (regenerated from the working tree on every run).

The rewrite only inserts interception points; it never changes control flow or expressions.
"""
import ast
import builtins
import hashlib
import importlib.abc
import importlib.util
import math
import os
import sys
import types

from . import core, mathx, npx

METHODS = {'split', 'strip', 'rstrip', 'lstrip', 'replace', 'startswith', 'lower', 'zfill', 'join',
           'format', 'write', 'sort', 'append'}
STATS = {'lit': 0, 'div': 0, 'fstr': 0, 'call': 0, 'loops': 0, 'files': 0}
SOURCES = {}   # module name -> (path, sha256)
REPO_ROOT = os.environ.get('VERIF_REPO', '/repo')


class Rewriter(ast.NodeTransformer):
    def __init__(self, src, modname):
        self.src = src
        self.modname = modname

    def visit_Constant(self, node):
        if isinstance(node.value, float):
            seg = ast.get_source_segment(self.src, node) or repr(node.value)
            STATS['lit'] += 1
            return ast.copy_location(ast.Call(ast.Name('__vs_lit__', ast.Load()), [ast.Constant(seg)], []), node)
        return node

    def visit_BinOp(self, node):
        if isinstance(node.op, ast.Div) and all(isinstance(x, ast.Constant) and type(x.value) is int
                                                for x in (node.left, node.right)):
            STATS['div'] += 1
            return ast.copy_location(ast.Call(ast.Name('__vs_div__', ast.Load()), [node.left, node.right], []), node)
        return self.generic_visit(node)

    def visit_JoinedStr(self, node):
        parts = []
        for v in node.values:
            if isinstance(v, ast.Constant):
                parts.append(v)
            else:
                spec = v.format_spec
                if spec is not None and not all(isinstance(x, ast.Constant) for x in spec.values):
                    return self.generic_visit(node)       # nested spec: leave untouched
                spec_s = ''.join(x.value for x in spec.values) if spec is not None else ''
                parts.append(ast.Call(ast.Name('__vs_fmt__', ast.Load()),
                                      [self.visit(v.value), ast.Constant(v.conversion), ast.Constant(spec_s)], []))
        STATS['fstr'] += 1
        return ast.copy_location(ast.Call(ast.Name('__vs_join__', ast.Load()), [ast.List(parts, ast.Load())], []), node)

    def visit_Call(self, node):
        node = self.generic_visit(node)
        f = node.func
        if isinstance(f, ast.Attribute) and f.attr in METHODS:
            STATS['call'] += 1
            return ast.copy_location(
                ast.Call(ast.Name('__vs_call__', ast.Load()), [f.value, ast.Constant(f.attr)] + node.args, node.keywords), node)
        return node

    def _loop(self, node):
        node = self.generic_visit(node)
        STATS['loops'] += 1
        lid = ast.Constant('%s:%d' % (self.modname, node.lineno))
        hook = ast.Expr(ast.Call(ast.Name('__vs_loop__', ast.Load()), [lid], []))
        reset = ast.Expr(ast.Call(ast.Name('__vs_loop_reset__', ast.Load()), [lid], []))
        node.body.insert(0, ast.copy_location(hook, node))
        return [ast.copy_location(reset, node), node]

    visit_For = _loop
    visit_While = _loop


# --- hooks -------------------------------------------------------------------------------------
def _lit(text):
    t = text.replace('_', '')
    return core.LitFloat(float(t), core.Fraction(t))


def _div(a, b):
    return core.LitFloat(a / b, core.Fraction(a, b))


def _is_fm(v):
    return type(v).__module__ == 'vsym.fmodel'


def _fmt(v, conv, spec):
    if _is_fm(v) and TEXT_HOOK[0] is not None:
        return TEXT_HOOK[0]('fmt', v, conv, spec)
    if isinstance(v, (core.SymReal, mathx.SymText)):
        h = TEXT_HOOK[0]
        if h is not None:
            return h('fmt', v, conv, spec)
        if spec in ('', 'd') and conv == -1:
            return mathx.SymText(v) if isinstance(v, core.SymReal) else v
        raise core.PathCut('unsupported: formatting of symbolic value with %r' % (spec,))
    if conv == ord('r'):
        v = repr(v)
    elif conv == ord('s'):
        v = builtins.str(v)
    elif conv == ord('a'):
        v = ascii(v)
    return format(v, spec)


def _join(parts):
    if any(not isinstance(p, builtins.str) for p in parts):
        h = TEXT_HOOK[0]
        if h is not None:
            return h('join', parts)
        return mathx.SymConcat(parts)
    return ''.join(parts)


TEXT_HOOK = [None]     # optional handler for symbolic text (installed by the F-model)
CALL_HOOK = [None]     # optional observer for method calls (write barrier in C09)


def _call(o, m, *a, **k):
    h = CALL_HOOK[0]
    if h is not None:
        r = h(o, m, a, k)
        if r is not NotImplemented:
            return r
    if _is_fm(o) and TEXT_HOOK[0] is not None:
        return TEXT_HOOK[0]('call', o, m, a, k)
    if isinstance(o, (mathx.SymText, mathx.SymConcat)) or any(isinstance(x, (mathx.SymText, mathx.SymConcat)) for x in a):
        t = TEXT_HOOK[0]
        if t is not None:
            return t('call', o, m, a, k)
        raise core.PathCut('unsupported: .%s() on symbolic text' % m)
    if m == 'format' and isinstance(o, builtins.str) and any(isinstance(x, core.SymReal) for x in a):
        t = TEXT_HOOK[0]
        if t is not None:
            return t('call', o, m, a, k)
        raise core.PathCut('unsupported: str.format of a symbolic value')
    return getattr(o, m)(*a, **k)


def _loop(lid):
    c = core.CTX
    if c is not None:
        c.loop_iter(lid)


def _loop_reset(lid):
    c = core.CTX
    if c is not None:
        c.loop_reset(lid)


HOOKS = {'__vs_lit__': _lit, '__vs_div__': _div, '__vs_fmt__': _fmt, '__vs_join__': _join, '__vs_call__': _call,
         '__vs_loop__': _loop, '__vs_loop_reset__': _loop_reset}


def compile_instrumented(src, path, modname):
    tree = ast.parse(src, path)
    tree = Rewriter(src, modname).visit(tree)
    ast.fix_missing_locations(tree)
    STATS['files'] += 1
    return compile(tree, path, 'exec', dont_inherit=True)


def patch_globals(d):
    """Replace C-level functions bound in a module namespace by their symbolic-aware shadows."""
    import numpy
    for k, v in list(d.items()):
        try:
            if v in mathx.MATH_SHADOWS:
                d[k] = mathx.MATH_SHADOWS[v]
                continue
            if v in npx.NP_FUNC_SHADOWS:
                d[k] = npx.NP_FUNC_SHADOWS[v]
                continue
        except TypeError:
            pass
        if v is math:
            d[k] = mathx.math_module
        elif v is numpy:
            d[k] = npx.facade


class Loader(importlib.abc.SourceLoader):
    def __init__(self, fullname, path):
        self.fullname = fullname
        self.path = path

    def get_filename(self, fullname):
        return self.path

    def get_data(self, path):
        with open(path, 'rb') as f:
            return f.read()

    def get_code(self, fullname):   # bypass the bytecode cache
        data = self.get_data(self.path)
        SOURCES[fullname] = (self.path, hashlib.sha256(data).hexdigest())
        return compile_instrumented(data.decode('utf8'), self.path, fullname)

    def exec_module(self, module):
        module.__dict__.update(HOOKS)
        module.__dict__.update(mathx.BUILTIN_SHADOWS)
        code = self.get_code(module.__name__)
        exec(code, module.__dict__)
        patch_globals(module.__dict__)


class Finder(importlib.abc.MetaPathFinder):
    def __init__(self, root):
        self.roots = {'geodepy': os.path.join(root, 'geodepy'), 'api': os.path.join(root, 'api')}

    def find_spec(self, fullname, path, target=None):
        parts = fullname.split('.')
        if parts[0] not in self.roots or 'tests' in parts or fullname.endswith('test_app'):
            return None
        base = os.path.join(self.roots[parts[0]], *parts[1:])
        if os.path.isdir(base):
            p = os.path.join(base, '__init__.py')
            return importlib.util.spec_from_file_location(fullname, p, loader=Loader(fullname, p),
                                                          submodule_search_locations=[base])
        p = base + '.py'
        if os.path.exists(p):
            return importlib.util.spec_from_file_location(fullname, p, loader=Loader(fullname, p))
        return None


_installed = [False]


def install(root=None):
    """Make `import geodepy.*` / `import api.*` load instrumented code from the repository working tree."""
    if _installed[0]:
        return
    root = root or REPO_ROOT
    for m in list(sys.modules):
        if m == 'geodepy' or m.startswith('geodepy.') or m == 'api' or m.startswith('api.'):
            raise RuntimeError('geodepy already imported un-instrumented: %s' % m)
    sys.meta_path.insert(0, Finder(root))
    for stub in ('pandas',):
        try:
            importlib.import_module(stub)
        except Exception:  # noqa
            sys.modules[stub] = types.ModuleType(stub)
            sys.modules[stub].__vs_stub__ = True
    _installed[0] = True


def load_file(path, modname, shadows=None):
    """Instrumented load of a stand-alone script (e.g. Standalone/mga2gda.py) without running its __main__ block.
    `shadows`: builtin shadows to install instead of the R-model ones (the F-model passes its own)."""
    with open(path, 'rb') as f:
        data = f.read()
    SOURCES[modname] = (path, hashlib.sha256(data).hexdigest())
    mod = types.ModuleType(modname)
    mod.__file__ = path
    mod.__dict__.update(HOOKS)
    mod.__dict__.update(mathx.BUILTIN_SHADOWS if shadows is None else shadows)
    exec(compile_instrumented(data.decode('utf8'), path, modname), mod.__dict__)
    if shadows is None:
        patch_globals(mod.__dict__)
    else:
        for k, v in shadows.items():
            if k in mod.__dict__ or k in ('float', 'int', 'str', 'type'):
                mod.__dict__[k] = v
    return mod


def source_report():
    return {k: {'path': v[0], 'sha256': v[1]} for k, v in sorted(SOURCES.items())}
