"""Helpers shared by the checks: obligation results, deciding identities/tolerances with witness search + replay."""
import itertools
import random
import time
import z3
import mpmath

from . import core, solve, replay, mathx
from .core import Fraction, ratval, toz


def qrec(kind, v):
    return {'kind': kind, 'solver': v.solver, 'verdict': v.status, 'seconds': round(v.seconds, 3)}


import os as _os
import time as _time
import json as _json


def res(ob, name, status, queries=(), detail='', key=None, witness=None, replay_path=None, paths=0):
    r = {'ob': ob, 'name': name, 'status': status, 'queries': list(queries), 'detail': detail, 'paths': paths}
    if key:
        r['key'] = key
    if witness is not None:
        r['witness'] = replay._jsonable(witness)
    if replay_path:
        r['replay'] = replay_path
    sp = _os.environ.get('VERIF_SPOOL')
    if sp:
        # every obligation result is spooled as it is produced: if the runner has to stop the group at its hard wall limit, what was
        # decided until then (confirmed violations above all) is not lost
        try:
            with open(sp, 'a') as f:
                f.write(_json.dumps(r, default=str) + '\n')
        except Exception:  # noqa
            pass
    return r


_T0 = [_time.time()]
BUDGET = float(_os.environ.get('VERIF_GROUP_BUDGET', '0') or 0)


def start_budget(seconds):
    """per obligation-group wall budget: after it is used up solver timeouts drop to 2 s and witness searches are skipped
    (the affected obligations are reported inconclusive, never held)"""
    global BUDGET
    _T0[0] = _time.time()
    BUDGET = float(_os.environ.get('VERIF_GROUP_BUDGET', '0') or seconds)
    from vsym import core as _core
    _core.DEADLINE[0] = _T0[0] + BUDGET if BUDGET > 0 else 0.0


def over_budget():
    return BUDGET > 0 and _time.time() - _T0[0] > BUDGET


_CONFIRMED = {}     # (pid, key) -> replay path of a violation already confirmed in this process


def _dbg(*a):
    import os, sys
    if os.environ.get('VERIF_DEBUG'):
        print('DBG', *a, file=sys.stderr, flush=True)


def zabs(e):
    return z3.If(e >= 0, e, -e)


def path_conds(p):
    return list(p.assumptions) + list(p.pc) + list(p.facts)


def model_candidates(vars_, domain, conds, seed=0, n=10):
    """candidate inputs from solver models of the UF-free part of the conditions: plain models (diversified) and
    vertices of the feasible region (random linear objectives), plus midpoints between vertices"""
    rnd = random.Random(seed + 17)
    pure = [c for c in conds if not solve._has_uf([c])]
    names = sorted(vars_)
    if not names:
        return []
    box = []
    for k in names:
        box += [vars_[k] >= ratval(Fraction(domain[k][0])), vars_[k] <= ratval(Fraction(domain[k][1]))]
    s = z3.Solver()
    s.set('timeout', 2000)
    s.add(*box)
    s.add(*pure)
    out = []
    for i in range(n):
        if s.check() != z3.sat:
            break
        env = solve.model_env(s.model(), vars_)
        out.append(env)
        k = names[rnd.randrange(len(names))]
        w = (Fraction(domain[k][1]) - Fraction(domain[k][0])) / 50
        s.add(z3.Or(vars_[k] >= ratval(env[k] + w), vars_[k] <= ratval(env[k] - w)))
    verts = []
    for i in range(14):
        o = z3.Optimize()
        o.set('timeout', 1000)
        o.add(*box)
        o.add(*pure)
        obj = 0
        for k in names:
            c = rnd.choice((-1, 0, 1, 1, -1))
            w = Fraction(domain[k][1]) - Fraction(domain[k][0])
            if c and w:
                obj = obj + c * vars_[k] / ratval(w)
        try:
            o.maximize(obj)
            if o.check() != z3.sat:
                continue
            verts.append(solve.model_env(o.model(), vars_))
        except z3.Z3Exception:
            break
    mids = []
    for i in range(len(verts)):
        for j in range(i + 1, len(verts)):
            if len(mids) >= 120:
                break
            t = Fraction(rnd.choice((1, 1, 2, 3)), 4)
            mids.append({k: verts[i][k] * t + verts[j][k] * (1 - t) for k in names})
    return out + verts + mids


def sample_envs(vars_, domain, conds, n=64, seed=0, extra_points=()):
    """Numeric witness candidates: corners/midpoints/random points of the stated input box that satisfy the
    path condition (evaluated with the true functions). Used only to FIND witnesses, never to conclude 'holds'."""
    rnd = random.Random(seed)
    names = sorted(vars_)
    cands = []
    for pt in extra_points:
        cands.append(dict(pt))
    lows = {k: Fraction(domain[k][0]) for k in names}
    highs = {k: Fraction(domain[k][1]) for k in names}
    # corners (capped), centre
    if len(names) <= 10:
        for bits in itertools.islice(itertools.product((0, 1), repeat=len(names)), 256):
            cands.append({k: (highs[k] if b else lows[k]) for k, b in zip(names, bits)})
    cands.append({k: (lows[k] + highs[k]) / 2 for k in names})
    while len(cands) < 2000:
        e = {}
        for k in names:
            u = Fraction(rnd.randint(0, 10 ** 6), 10 ** 6)
            mode = rnd.random()
            if mode < 0.1:
                u = Fraction(0)
            elif mode < 0.2:
                u = Fraction(1)
            elif mode < 0.3:
                u = Fraction(rnd.randint(0, 1000), 10 ** 6)
            e[k] = lows[k] + (highs[k] - lows[k]) * u
            if mode > 0.9 and lows[k] <= 0 <= highs[k]:
                e[k] = Fraction(0)
        cands.append(e)
    # candidates from solver models of the UF-free part of the conditions (reaches thin regions such as lat == 0 or
    # |lon - cm| < 1e-8 that random points never hit); they are still checked numerically against all conditions
    try:
        cands = model_candidates(vars_, domain, conds, seed) + cands
    except Exception:  # noqa
        pass
    out = []
    for e in cands:
        try:
            if all(solve.neval(c, e, {}) for c in conds):
                out.append(e)
        except (solve.NumEvalError, ZeroDivisionError, ValueError):
            continue
        if len(out) >= n:
            break
    return out


def _diverse(points, n):
    """up to n stress points that differ in their 'configuration' coordinates (those taking only a few distinct values in the list:
    projection constants, zone, ellipsoid), so that the few cheap replays cover different configurations"""
    if len(points) <= n:
        return points
    keys = sorted({k for e in points for k in e})
    cfg = [k for k in keys if 2 <= len({str(e.get(k)) for e in points}) <= 4]
    seen, out = set(), []
    for e in points:
        t = tuple(str(e.get(k)) for k in cfg)
        if t not in seen:
            seen.add(t)
            out.append(e)
    # spread over the distinct configurations
    if len(out) > n:
        step = len(out) / float(n)
        out = [out[int(i * step)] for i in range(n)]
    return out[:n] if out else points[:n]


def decide_close(ob, name, p, code, ref, tol, *, domain=None, oracle=None, make_args=None, key=None,
                 timeout_s=30, seed=0, extra_conds=(), extra_points=(), n_samples=160, paths=1, pid=None, detail=''):
    """Decide |code - ref| <= tol on path p (tol 0: identity).

    unsat of the negation  -> proved
    otherwise              -> numeric witness search over `domain` (true functions) ranked by residual; each witness
                              is replayed on the unmodified repository against `oracle`; reproduced -> violated,
                              none reproduced -> inconclusive.
    """
    cz, rz = toz(code), toz(ref)
    conds = path_conds(p) + list(extra_conds)
    tolz = ratval(Fraction(tol))
    goal = (cz == rz) if tol == 0 else (zabs(cz - rz) <= tolz)
    ob_over = over_budget()
    known_bad = (pid, key or ob) in _CONFIRMED
    any_bad = bool(_CONFIRMED)
    v = solve.prove(conds, goal, timeout_s=(2 if (ob_over or known_bad) else (4 if any_bad else timeout_s)), seed=seed)
    qs = [qrec('Q1' if tol == 0 else 'Q2', v)]
    _dbg(ob, name, v)
    if v.status == 'unsat':
        return res(ob, name, 'proved', qs, detail, paths=paths)
    if (pid, key or ob) in _CONFIRMED:
        return res(ob, name, 'violated', qs, 'solver=%s; same finding as the violation already confirmed by replay (%s); not replayed again'
                   % (v.status, _CONFIRMED[(pid, key or ob)]), key=key or ob, replay_path=_CONFIRMED[(pid, key or ob)], paths=paths)
    if ob_over or (any_bad and BUDGET > 0 and _time.time() - _T0[0] > BUDGET / 3):
        return res(ob, name, 'inconclusive', qs, 'solver=%s; group time budget exhausted (or a violation is already confirmed in this '
                   'group), witness search skipped' % v.status, paths=paths)
    # witness search (never used to conclude 'holds'). Order: cheap replays first - the solver's model, the check's stress points, the
    # oracle's own stress set ({}) - then time-boxed numeric sampling of the stated box ranked by the residual under the true functions.
    wit = None
    if oracle is None:
        return res(ob, name, 'inconclusive', qs, '%s solver=%s; no oracle' % (detail, v.status), paths=paths)
    vars_ = solve.free_vars([cz, rz] + list(p.assumptions) + list(p.pc))
    t_ws = _time.time()

    def _replay(e, how):
        nonlocal wit
        args = make_args(e) if make_args else e
        viol, msg, path = replay.confirm(pid, ob, key or ob, oracle, args)
        if viol is True:
            _CONFIRMED[(pid, key or ob)] = path
            return res(ob, name, 'violated', qs, '%s; %s' % (how, msg), key=key or ob, witness=args, replay_path=path, paths=paths)
        wit = (how, msg)
        return None
    first = []
    if v.status == 'sat' and v.model is not None:
        try:
            first.append(('solver model replayed', solve.model_env(v.model, vars_)))
        except Exception:  # noqa
            pass
    first += [('stress point replayed', dict(e)) for e in _diverse(list(extra_points), 3)]
    first.append(('oracle stress set replayed', {}))
    for how, e in first[:5]:
        r = _replay(e, how)
        if r is not None:
            return r
        if over_budget():
            break
    if domain is not None and not over_budget() and all(k in domain for k in vars_):
        dom = {k: domain[k] for k in vars_}
        # (axiom instances in extra_conds are not numeric filters: sin^2+cos^2 == 1 is not exact in floating evaluation)
        envs = sample_envs(vars_, dom, list(p.assumptions) + list(p.pc), n=n_samples, seed=seed, extra_points=list(extra_points))
        scored = []
        for e in envs:
            if _time.time() - t_ws > 45 or over_budget():      # numeric evaluation of large terms is slow: time-boxed
                break
            try:
                d = abs(solve.neval(cz, e, {}) - solve.neval(rz, e, {}))
            except (solve.NumEvalError, ZeroDivisionError, ValueError):
                continue
            scored.append((d, e))
        scored.sort(key=lambda t: -t[0])
        thr = mpmath.mpf(Fraction(tol).numerator) / mpmath.mpf(Fraction(tol).denominator)
        for d, e in scored[:4]:
            if (d <= thr and tol != 0) or d == 0 or over_budget():
                break
            r = _replay(e, 'model residual %.3e' % float(d))
            if r is not None:
                return r
    return res(ob, name, 'inconclusive', qs,
               '%s solver=%s; no replayed witness%s' % (detail, v.status, (' (last tried: %s: %s)' % wit) if wit else ''),
               paths=paths)


def decide_goal(ob, name, conds, goal, *, timeout_s=30, seed=0, oracle=None, args_from_model=None, key=None,
                pid=None, detail='', vars_=None, paths=1, domain=None, num_conds=None, extra_points=()):
    """Generic: prove goal under conds. A sat model is turned into replay args by args_from_model(env); when the solver
    gives no usable model and `domain`/`num_conds` are given, numeric witness candidates (points of the stated box that
    satisfy num_conds and falsify the goal under the true functions) are replayed instead."""
    ob_over = over_budget()
    known_bad = (pid, key or ob) in _CONFIRMED
    any_bad = bool(_CONFIRMED)
    v = solve.prove(conds, goal, timeout_s=(2 if (ob_over or known_bad) else (4 if any_bad else timeout_s)), seed=seed)
    qs = [qrec('valid', v)]
    _dbg(ob, name, v)
    if ob_over and v.status != 'unsat':
        return res(ob, name, 'inconclusive', qs, 'solver=%s; group time budget exhausted, witness search skipped' % v.status, paths=paths)
    if v.status == 'unsat':
        return res(ob, name, 'proved', qs, detail, paths=paths)
    tried = None
    if (pid, key or ob) in _CONFIRMED:
        return res(ob, name, 'violated', qs, 'solver=%s; same finding as the violation already confirmed by replay (%s); not replayed again'
                   % (v.status, _CONFIRMED[(pid, key or ob)]), key=key or ob, replay_path=_CONFIRMED[(pid, key or ob)], paths=paths)
    if oracle is not None and args_from_model is not None:
        envs = []
        if v.status == 'sat' and v.model is not None:
            fv = vars_ if vars_ is not None else solve.free_vars(list(conds) + [goal])
            envs.append(solve.model_env(v.model, fv))
        if domain is not None and num_conds is not None:
            fv = solve.free_vars(list(num_conds) + [goal])
            if all(k in domain for k in fv):
                envs += sample_envs(fv, {k: domain[k] for k in fv}, list(num_conds) + [z3.Not(goal)], n=4, seed=seed,
                                    extra_points=extra_points)
        envs = envs[:4] + [{}]      # last: no model values at all - the oracle's own stress inputs are replayed
        for env in envs:
            if over_budget() and tried is not None:
                break
            args = args_from_model(env)
            if args is None:
                continue
            viol, msg, path = replay.confirm(pid, ob, key or ob, oracle, args)
            if viol is True:
                _CONFIRMED[(pid, key or ob)] = path
                return res(ob, name, 'violated', qs, msg, key=key or ob, witness=args, replay_path=path, paths=paths)
            tried = msg
    return res(ob, name, 'inconclusive', qs, '%s solver=%s%s' % (detail, v.status, ('; witness did not reproduce: %s' % tried) if tried else ''),
               paths=paths)


def ground_violation(ob, name, pid, key, oracle, args, detail='', queries=()):
    """A failure found on a ground (variable-free) obligation: still replayed before it is reported."""
    viol, msg, path = replay.confirm(pid, ob, key, oracle, args)
    if viol is True:
        return res(ob, name, 'violated', queries, msg, key=key, witness=args, replay_path=path)
    return res(ob, name, 'inconclusive', queries, '%s ground check failed in the model but replay says: %s' % (detail, msg))
