"""pytest plugin: run the repository's own tests against the instrumented modules in pass-through mode
(translator validation). Usage: cd /repo && PYTHONPATH=/verif:/verif/.deps python -m pytest -p vsym.pytest_plugin ..."""
from vsym import instr
instr.install()


def pytest_sessionfinish(session, exitstatus):
    print('\nVSYM-INSTR-STATS', instr.STATS, 'modules', sorted(instr.SOURCES))
