"""Symbolic calendar date for the R-model: a day ordinal that is a symbolic integer."""
import datetime
from .core import SymReal


class SymDelta:
    def __init__(self, days):
        self.days = days

    def total_seconds(self):
        return self.days * 86400


class SymDate:
    __vs_type__ = datetime.date

    def __init__(self, ordinal):
        self.ordinal = ordinal       # SymReal(is_int=True)

    def toordinal(self):
        return self.ordinal

    def __sub__(self, other):
        if isinstance(other, SymDate):
            return SymDelta(self.ordinal - other.ordinal)
        if isinstance(other, datetime.date):
            return SymDelta(self.ordinal - other.toordinal())
        return NotImplemented

    def __rsub__(self, other):
        if isinstance(other, datetime.date):
            return SymDelta(other.toordinal() - self.ordinal)
        return NotImplemented

    def __repr__(self):
        return 'SymDate(%s)' % (self.ordinal,)
