"""Symbolic-aware replacements for math.* and a few builtins (R-model).

Transcendental functions of symbolic arguments become uninterpreted functions; sound axiom *instances*
(never quantified axioms) are recorded as facts of the current path for each application created.
"""
import builtins
import math
import z3
from . import core
from .core import SymReal, SymBool, toz, ratval, Fraction, require

R = z3.RealSort()
_uf = {}


def uf(name, arity=1):
    k = (name, arity)
    if k not in _uf:
        _uf[k] = z3.Function(name, *([R] * arity), R)
    return _uf[k]


PI = z3.Real('PI')
PI_LO = Fraction('3.14159265358979')
PI_HI = Fraction('3.14159265358980')


def pi_fact():
    return z3.And(PI > ratval(PI_LO), PI < ratval(PI_HI))


def _fact(f, key=None):
    c = core.CTX
    if c is not None:
        c.add_fact(f, key)


def _pi():
    _fact(pi_fact(), 'PI')


def _sym(x):
    return isinstance(x, SymReal)


def _real(x):
    if isinstance(x, SymBool):
        return SymReal(toz(x), True)
    return x


# --- trigonometric ----------------------------------------------------------------------------
def _sincos_facts(t):
    s, c = uf('sin')(t), uf('cos')(t)
    _fact(z3.And(s * s + c * c == 1, s <= 1, s >= -1, c <= 1, c >= -1,
                 z3.Implies(t == 0, z3.And(s == 0, c == 1))), ('sincos', t.get_id()))


def _period(x):
    """(t, sign) if x is t + k*180 deg (in radians) for an integer k, by construction (tag); else None"""
    if _sym(x) and x.tag is not None and x.tag[0] == 'rad_sum':
        off = x.tag[2]
        if off % 180 == 0:
            return x.tag[1], (-1 if (off // 180) % 2 else 1)
    return None


def sin(x):
    x = _real(x)
    if not _sym(x):
        return math.sin(x)
    pr = _period(x)
    if pr is not None:
        return sin(pr[0]) * pr[1]
    _sincos_facts(x.z)
    return SymReal(uf('sin')(x.z))


def cos(x):
    x = _real(x)
    if not _sym(x):
        return math.cos(x)
    pr = _period(x)
    if pr is not None:
        return cos(pr[0]) * pr[1]
    _sincos_facts(x.z)
    return SymReal(uf('cos')(x.z))


def tan(x):
    x = _real(x)
    if not _sym(x):
        return math.tan(x)
    pr = _period(x)
    if pr is not None:
        return tan(pr[0])
    t = x.z
    _sincos_facts(t)
    tt, s, c = uf('tan')(t), uf('sin')(t), uf('cos')(t)
    require(c != 0, 'tan at odd multiple of pi/2')
    _fact(z3.And(tt * c == s, z3.Implies(t == 0, tt == 0)), ('tan', t.get_id()))
    return SymReal(tt)


def atan(x):
    x = _real(x)
    if not _sym(x):
        return math.atan(x)
    _pi()
    a = uf('atan')(x.z)
    _fact(z3.And(a < PI / 2, a > -PI / 2, (a > 0) == (x.z > 0), (a < 0) == (x.z < 0)), ('atan', x.z.get_id()))
    return SymReal(a)


def atan2(y, x):
    y, x = _real(y), _real(x)
    if not (_sym(x) or _sym(y)):
        return math.atan2(y, x)
    _pi()
    yz, xz = toz(y), toz(x)
    a = uf('atan2', 2)(yz, xz)
    _fact(z3.And(a <= PI, a >= -PI,
                 z3.Implies(yz > 0, a > 0), z3.Implies(yz < 0, a < 0),
                 z3.Implies(z3.And(yz == 0, xz > 0), a == 0),
                 z3.Implies(z3.And(yz == 0, xz < 0), a == PI),
                 z3.Implies(xz > 0, z3.And(a < PI / 2, a > -PI / 2)),
                 z3.Implies(z3.And(xz == 0, yz > 0), a == PI / 2),
                 z3.Implies(z3.And(xz == 0, yz < 0), a == -PI / 2)),
          ('atan2', yz.get_id(), xz.get_id()))
    # polar relation: with r = sqrt(x^2 + y^2) > 0: r sin(a) = y, r cos(a) = x
    rr = uf('sqrt')(xz * xz + yz * yz)
    _sincos_facts(a)
    _fact(z3.And(rr >= 0, rr * rr == xz * xz + yz * yz,
                 z3.Implies(rr > 0, z3.And(rr * uf('sin')(a) == yz, rr * uf('cos')(a) == xz))), ('atan2polar', yz.get_id(), xz.get_id()))
    return SymReal(a)


def asin(x):
    x = _real(x)
    if not _sym(x):
        return math.asin(x)
    _pi()
    require(z3.And(x.z <= 1, x.z >= -1), 'asin domain')
    a = uf('asin')(x.z)
    _sincos_facts(a)
    _fact(z3.And(a <= PI / 2, a >= -PI / 2, (a > 0) == (x.z > 0), (a < 0) == (x.z < 0),
                 uf('sin')(a) == x.z, uf('cos')(a) >= 0), ('asin', x.z.get_id()))
    return SymReal(a)


def acos(x):
    x = _real(x)
    if not _sym(x):
        return math.acos(x)
    _pi()
    require(z3.And(x.z <= 1, x.z >= -1), 'acos domain')
    a = uf('acos')(x.z)
    _sincos_facts(a)
    _fact(z3.And(a <= PI, a >= 0, uf('cos')(a) == x.z, uf('sin')(a) >= 0), ('acos', x.z.get_id()))
    return SymReal(a)


# --- hyperbolic, log, exp, sqrt ---------------------------------------------------------------
def _sinhcosh_facts(t):
    s, c = uf('sinh')(t), uf('cosh')(t)
    _fact(z3.And(c * c - s * s == 1, c >= 1, (s > 0) == (t > 0), (s < 0) == (t < 0),
                 z3.Implies(t == 0, z3.And(s == 0, c == 1))), ('sinhcosh', t.get_id()))


def sinh(x):
    x = _real(x)
    if not _sym(x):
        return math.sinh(x)
    _sinhcosh_facts(x.z)
    return SymReal(uf('sinh')(x.z))


def cosh(x):
    x = _real(x)
    if not _sym(x):
        return math.cosh(x)
    _sinhcosh_facts(x.z)
    return SymReal(uf('cosh')(x.z))


def log(x, base=None):
    x = _real(x)
    if base is not None:
        raise TypeError('log with base not modelled')
    if not _sym(x):
        return math.log(x)
    require(x.z > 0, 'log domain')
    l = uf('log')(x.z)
    _fact(z3.And((l > 0) == (x.z > 1), (l < 0) == (x.z < 1)), ('log', x.z.get_id()))
    return SymReal(l)


def exp(x):
    x = _real(x)
    if not _sym(x):
        return math.exp(x)
    e = uf('exp')(x.z)
    _fact(z3.And(e > 0, (e > 1) == (x.z > 0), (e < 1) == (x.z < 0)), ('exp', x.z.get_id()))
    return SymReal(e)


def sqrt(x):
    x = _real(x)
    if not _sym(x):
        return math.sqrt(x)
    require(x.z >= 0, 'sqrt domain')
    r = uf('sqrt')(x.z)
    _fact(z3.And(r >= 0, r * r == x.z), ('sqrt', x.z.get_id()))
    return SymReal(r)


def radians(x):
    x = _real(x)
    if not _sym(x):
        return math.radians(x)
    _pi()
    if x.tag is not None and x.tag[0] == 'deg_of':
        off = x.tag[2] if len(x.tag) > 2 else 0
        if off == 0:
            return x.tag[1]
        return SymReal(x.z * PI / 180, tag=('rad_sum', x.tag[1], off))
    return SymReal(x.z * PI / 180, tag=('rad_of', x))


def degrees(x):
    x = _real(x)
    if not _sym(x):
        return math.degrees(x)
    _pi()
    if x.tag is not None and x.tag[0] == 'rad_of':
        return x.tag[1]
    return SymReal(x.z * 180 / PI, tag=('deg_of', x))


def fabs(x):
    x = _real(x)
    return abs(x) if _sym(x) else math.fabs(x)


def floor(x):
    x = _real(x)
    return core.sym_floor(x) if _sym(x) else math.floor(x)


def ceil(x):
    x = _real(x)
    return -core.sym_floor(-x) if _sym(x) else math.ceil(x)


def isnan(x):
    return False if _sym(x) else math.isnan(x)


def isinf(x):
    return False if _sym(x) else math.isinf(x)


def hypot(a, b):
    return sqrt(a * a + b * b) if (_sym(a) or _sym(b)) else math.hypot(a, b)


def isclose(a, b, *, rel_tol=1e-09, abs_tol=0.0):
    """math.isclose: |a - b| <= max(rel_tol * max(|a|, |b|), abs_tol)"""
    if not (_sym(a) or _sym(b) or _sym(rel_tol) or _sym(abs_tol)):
        return math.isclose(a, b, rel_tol=rel_tol, abs_tol=abs_tol)
    a, b = _real(a), _real(b)
    rt = core.LitFloat(rel_tol) if isinstance(rel_tol, float) and not isinstance(rel_tol, core.LitFloat) else rel_tol
    at = core.LitFloat(abs_tol) if isinstance(abs_tol, float) and not isinstance(abs_tol, core.LitFloat) else abs_tol
    d = abs(a - b)
    return bool(d <= at) or bool(d <= rt * abs(a)) or bool(d <= rt * abs(b))


def copysign(x, y):
    if not (_sym(x) or _sym(y)):
        return math.copysign(x, y)
    ax = abs(_real(x))
    yy = _real(y)
    return ax if bool(yy >= 0) else -ax      # (a negative zero second argument is outside the R-model)


MATH_SHADOWS = {}
for _n in ('sin cos tan atan atan2 asin acos sinh cosh log exp sqrt radians degrees fabs floor ceil '
           'isnan isinf hypot isclose copysign').split():
    MATH_SHADOWS[getattr(math, _n)] = globals()[_n]


class MathModule:
    """Stand-in for `import math` inside instrumented modules."""
    pi = math.pi
    e = math.e
    inf = math.inf
    nan = math.nan

    def __getattr__(self, name):
        f = getattr(math, name)
        return MATH_SHADOWS.get(f, f)


math_module = MathModule()
for _n in ('sin cos tan atan atan2 asin acos sinh cosh log exp sqrt radians degrees fabs floor ceil '
           'isnan isinf hypot isclose copysign').split():
    setattr(MathModule, _n, staticmethod(globals()[_n]))


# --- text of symbolic numbers (minimal) -------------------------------------------------------
class SymText:
    """str() of a symbolic number. Supports only what the library does with such strings in the R-model:
    sign test on the first character, and digit slicing of non-negative integers with a provable digit count."""

    def __init__(self, val):
        self.val = val

    def _ndigits(self):
        c = core.CTX
        v = self.val
        if not (isinstance(v, SymReal) and v.is_int):
            raise core.PathCut('unsupported: text of non-integer symbolic value')
        for nd in range(1, 8):
            lo, hi = (0 if nd == 1 else 10 ** (nd - 1)), 10 ** nd - 1
            s = c.solver
            s.push()
            s.add(z3.Not(z3.And(v.z >= lo, v.z <= hi)))
            r = s.check()
            s.pop()
            if r == z3.unsat:
                return nd
        raise core.PathCut('unsupported: digit count of symbolic integer not provable')

    def __getitem__(self, k):
        if isinstance(k, int) and k == 0:
            return SymChar0(self.val)
        nd = self._ndigits()
        idx = range(nd)[k]
        v = self.val
        if isinstance(idx, range):
            if idx.step != 1 or len(idx) == 0:
                raise core.PathCut('unsupported slice of symbolic text')
            a, b = idx.start, idx.stop  # digits a..b-1 (from the left)
            q = core.sym_floor(v / (10 ** (nd - b)))
            return SymText(q % (10 ** (b - a)) if a > 0 else q)
        q = core.sym_floor(v / (10 ** (nd - 1 - idx)))
        return SymText(q % 10 if idx > 0 else q)

    def __int__(self):
        return self.val

    def to_int(self):
        if isinstance(self.val, SymReal) and self.val.is_int:
            return self.val
        raise core.PathCut('unsupported: int() of symbolic non-integer text')

    def __eq__(self, o):
        raise core.PathCut('unsupported: comparison of symbolic text')

    __hash__ = None


class SymChar0:
    """First character of str(x) for a symbolic number x: the sign test, and (for non-negative integers with a provable digit
    count) the leading digit."""

    def __init__(self, val):
        self.val = val

    def to_int(self):
        t = SymText(self.val)
        nd = t._ndigits()
        return core.sym_floor(self.val / (10 ** (nd - 1)))

    def __eq__(self, o):
        if o == '-':
            return self.val < 0      # R-model: -0.0 does not exist (stated in the evidence)
        raise core.PathCut('unsupported: comparison of symbolic character')

    def __ne__(self, o):
        r = self.__eq__(o)
        return ~r

    __hash__ = None


class SymConcat:
    """f-string made of integer parts; int() of it is supported when all but the first part are provably single digits."""

    def __init__(self, parts):
        self.parts = parts

    def to_int(self):
        c = core.CTX
        val = None
        for p in self.parts:
            if isinstance(p, str):
                if p == '':
                    continue
                if not p.isdigit():
                    raise core.PathCut('unsupported: int() of symbolic text with non-digits')
                d, nd = builtins.int(p), len(p)
            else:
                v = p.val if isinstance(p, SymText) else p
                if not (isinstance(v, SymReal) and v.is_int):
                    raise core.PathCut('unsupported: int() of symbolic text')
                if val is None:
                    val = v
                    continue
                s = c.solver
                s.push()
                s.add(z3.Not(z3.And(v.z >= 0, v.z <= 9)))
                r = s.check()
                s.pop()
                if r != z3.unsat:
                    raise core.PathCut('unsupported: digit width of symbolic part not provable')
                d, nd = v, 1
            val = d if val is None else val * (10 ** nd) + d
        return val


# --- builtins shadows --------------------------------------------------------------------------
_bfloat, _bint, _bstr, _btype = builtins.float, builtins.int, builtins.str, builtins.type


class _VFloatMeta(type):
    def __instancecheck__(cls, x):
        if cls is VFloat:
            return isinstance(x, _bfloat) or (isinstance(x, SymReal) and not x.is_int)
        return type.__instancecheck__(cls, x)

    def __eq__(cls, o):
        return o is cls or (cls is VFloat and o is _bfloat)

    def __ne__(cls, o):
        return not _VFloatMeta.__eq__(cls, o)

    def __hash__(cls):
        return hash(_bfloat) if cls is VFloat else type.__hash__(cls)


class VFloat(_bfloat, metaclass=_VFloatMeta):
    def __new__(cls, x=0.0):
        if cls is VFloat:
            if isinstance(x, SymReal):
                return SymReal(x.z, False) if x.is_int else x
            if isinstance(x, SymBool):
                return SymReal(toz(x))
            if isinstance(x, (SymText, SymConcat)):
                raise core.PathCut('unsupported: float() of symbolic text')
            if isinstance(x, core.LitFloat):
                return x
            tx = _btype(x)
            if tx not in (_bfloat, _bint, _bstr, bool) and hasattr(tx, '__float__') and not isinstance(x, _bfloat):
                r = x.__float__()
                if isinstance(r, (SymReal, core.LitFloat)):
                    return r
                return _bfloat(r)
            if hasattr(x, '__float__') and isinstance(x, _bfloat) and tx is not _bfloat:
                # float subclass instance defined by the library (e.g. DECAngle): honour its __float__
                r = tx.__float__(x)
                return r if isinstance(r, (SymReal, core.LitFloat)) else _bfloat(r)
            return _bfloat(x)
        if isinstance(x, (SymReal, SymBool)):
            return _bfloat.__new__(cls, 0.0)
        return _bfloat.__new__(cls, x)


class _VIntMeta(type):
    def __instancecheck__(cls, x):
        if cls is VInt:
            return isinstance(x, _bint) or (isinstance(x, SymReal) and x.is_int)
        return type.__instancecheck__(cls, x)

    def __eq__(cls, o):
        return o is cls or (cls is VInt and o is _bint)

    def __ne__(cls, o):
        return not _VIntMeta.__eq__(cls, o)

    def __hash__(cls):
        return hash(_bint) if cls is VInt else type.__hash__(cls)


class VInt(_bint, metaclass=_VIntMeta):
    def __new__(cls, x=0, *a, **k):
        if cls is VInt:
            if isinstance(x, SymReal):
                return core.sym_trunc(x)
            if isinstance(x, SymBool):
                return SymReal(toz(x), True)
            if isinstance(x, (SymText, SymConcat)):
                return x.to_int()
            tx = _btype(x)
            if not a and not k and tx not in (_bfloat, _bint, _bstr, bool, bytes) and hasattr(tx, '__int__') \
                    and not isinstance(x, (_bint, _bfloat, _bstr)):
                r = x.__int__()
                return r if isinstance(r, SymReal) else _bint(r)
            if isinstance(x, _bfloat) and tx is not _bfloat and not isinstance(x, core.LitFloat) and '__int__' in tx.__dict__:
                r = tx.__int__(x)
                return r if isinstance(r, SymReal) else _bint(r)
            return _bint(x, *a, **k)
        return _bint.__new__(cls, x, *a, **k)


class _VStrMeta(type):
    def __instancecheck__(cls, x):
        if cls is VStr:
            return isinstance(x, _bstr)
        return type.__instancecheck__(cls, x)

    def __eq__(cls, o):
        return o is cls or (cls is VStr and o is _bstr)

    def __ne__(cls, o):
        return not _VStrMeta.__eq__(cls, o)

    def __hash__(cls):
        return hash(_bstr) if cls is VStr else type.__hash__(cls)


class VStr(_bstr, metaclass=_VStrMeta):
    def __new__(cls, x='', *a, **k):
        if cls is VStr:
            if isinstance(x, SymReal):
                return SymText(x)
            if isinstance(x, (SymText, SymConcat)):
                return x
            return _bstr(x, *a, **k)
        return _bstr.__new__(cls, x, *a, **k)


vstr = VStr


def vtype(x, *a):
    if a:
        return _btype(x, *a)
    if isinstance(x, SymReal):
        return VInt if x.is_int else VFloat
    if isinstance(x, SymBool):
        return bool
    t = _btype(x)
    if t is _bfloat or t is core.LitFloat:
        return VFloat
    if t is _bint:
        return VInt
    st = getattr(x, '__vs_type__', None)
    if st is not None:
        return st
    return t


def vall(it):
    r = True
    for v in it:
        if isinstance(v, (SymBool, SymReal)):
            if not builtins.bool(v):
                return False
        elif not v:
            return False
    return r


def vany(it):
    for v in it:
        if builtins.bool(v):
            return True
    return False


# Identity model for short-lived objects. Python only promises that id() is unique among objects whose lifetimes overlap: an object built
# after another one has been freed may get the same id. CPython often, but not always, recycles the address; when a harness switches the
# model on, id() of an Ellipsoid whose predecessor is already dead (weak reference cleared) returns the predecessor's identity - the
# adversarial choice the language allows. With the model off (default) id() is the interpreter's.
ID_MODEL = {'on': False, 'prev': None, 'const': 0x7f00dead0000}


def vid(o):
    import weakref
    if ID_MODEL['on'] and type(o).__name__ == 'Ellipsoid':
        prev = ID_MODEL['prev']
        alive = prev() if prev is not None else None
        if alive is None:
            try:
                ID_MODEL['prev'] = weakref.ref(o)
            except TypeError:
                return builtins.id(o)
            return ID_MODEL['const']
        if alive is o:
            return ID_MODEL['const']
    return builtins.id(o)


BUILTIN_SHADOWS = {'float': VFloat, 'int': VInt, 'str': vstr, 'type': vtype, 'all': vall, 'any': vany, 'id': vid}
