"""Independent exact-TM oracle via numerically computed Fourier coefficients; compare with geodepy.geo2grid."""
import mpmath as mp, math
mp.mp.dps=40
from geodepy.convert import geo2grid, grid2geo
from geodepy.constants import grs80, intl24, utm, Ellipsoid

def make_oracle(a, invf, J=24):
    f=mp.mpf(1)/mp.mpf(invf); e2=f*(2-f); e=mp.sqrt(e2)
    # meridian arc from equator to phi, and quarter meridian
    M=lambda phi: a*(1-e2)*mp.quad(lambda t:(1-e2*mp.sin(t)**2)**mp.mpf(-1.5),[0,phi])
    Mq=M(mp.pi/2)
    A=2*Mq/mp.pi
    def chi(phi):
        return mp.atan(mp.sinh(mp.asinh(mp.tan(phi))-e*mp.atanh(e*mp.sin(phi))))
    # need mu as function of chi: invert chi(phi) by Newton/bisection
    def phi_of_chi(c):
        return mp.findroot(lambda p: chi(p)-c, c)
    def g(c):   # mu(chi)-chi, odd, period pi
        p=phi_of_chi(c)
        return M(p)/A - c
    # Fourier sine coefficients a_j = (4/pi) int_0^{pi/2} g(c) sin(2 j c) dc
    coeffs=[]
    for j in range(1,J+1):
        coeffs.append(4/mp.pi*mp.quad(lambda c: g(c)*mp.sin(2*j*c),[0,mp.pi/4,mp.pi/2]))
    return A,e,coeffs,chi
def tm_exact(or_, lat, dlon, k0=mp.mpf('0.9996')):
    A,e,co,chi=or_
    c=chi(mp.radians(lat)); w=mp.radians(dlon)
    xi1=mp.atan2(mp.tan(c),mp.cos(w)); eta1=mp.asinh(mp.sin(w)/mp.sqrt(mp.tan(c)**2+mp.cos(w)**2))
    z=mp.mpc(xi1,eta1)
    zz=z+sum(a*mp.sin(2*(j+1)*z) for j,a in enumerate(co))
    return k0*A*zz.imag, k0*A*zz.real
import sys
for name,ell in (('grs80',grs80),('intl24',intl24),('f150',Ellipsoid(6378137,150))):
    orc=make_oracle(mp.mpf(ell.semimaj), mp.mpf(str(ell.inversef)), J=14)
    print(name,'a_j tail', [mp.nstr(c,5) for c in orc[2][7:14]])
    worst=0
    for lat in (-80,-60,-37,-5,0,3,45,75,84):
        for dl in (-30,-12,-3,0,2.9,10,20,30):
            E,N=tm_exact(orc,lat,dl)
            zone=31; lon=3+dl
            h,z,e,n,psf,gc=geo2grid(lat,lon,zone,ell)
            nn=float(N)+(10000000 if h=='South' else 0)
            d=max(abs(e-500000-float(E)),abs(n-nn))
            worst=max(worst,d)
    print(name,'worst |code-oracle| m:',worst)
