"""Prototype: instrumented import of /repo modules via AST rewriting (pass-through hooks).
Used as a pytest plugin (-p instr) to validate that the rewrite preserves concrete semantics."""
import ast, sys, importlib.abc, importlib.util, os, builtins

METHODS={'split','strip','rstrip','lstrip','replace','startswith','lower','zfill','join','write','sort','append','format'}
STATS={'lit':0,'div':0,'fstr':0,'call':0,'files':0}

class Rewriter(ast.NodeTransformer):
    def __init__(self, src): self.src=src
    def visit_Constant(self, node):
        if isinstance(node.value,float):
            seg=ast.get_source_segment(self.src,node) or repr(node.value)
            STATS['lit']+=1
            return ast.copy_location(ast.Call(ast.Name('__vs_lit__',ast.Load()),[ast.Constant(seg)],[]),node)
        return node
    def visit_BinOp(self,node):
        if isinstance(node.op,ast.Div) and all(isinstance(x,ast.Constant) and type(x.value) is int for x in (node.left,node.right)):
            STATS['div']+=1
            return ast.copy_location(ast.Call(ast.Name('__vs_div__',ast.Load()),[node.left,node.right],[]),node)
        return self.generic_visit(node)
    def visit_JoinedStr(self,node):
        parts=[]
        for v in node.values:
            if isinstance(v,ast.Constant): parts.append(v)
            else:
                spec=v.format_spec
                if spec is not None and not all(isinstance(x,ast.Constant) for x in spec.values):
                    return node       # nested spec: leave untouched
                spec_s=''.join(x.value for x in spec.values) if spec is not None else ''
                parts.append(ast.Call(ast.Name('__vs_fmt__',ast.Load()),[self.visit(v.value),ast.Constant(v.conversion),ast.Constant(spec_s)],[]))
        STATS['fstr']+=1
        return ast.copy_location(ast.Call(ast.Name('__vs_join__',ast.Load()),[ast.List(parts,ast.Load())],[]),node)
    def visit_Call(self,node):
        node=self.generic_visit(node)
        f=node.func
        if isinstance(f,ast.Attribute) and f.attr in METHODS:
            STATS['call']+=1
            return ast.copy_location(ast.Call(ast.Name('__vs_call__',ast.Load()),[f.value,ast.Constant(f.attr)]+node.args,node.keywords),node)
        return node

def _fmt(v,conv,spec):
    if conv==ord('r'): v=repr(v)
    elif conv==ord('s'): v=str(v)
    elif conv==ord('a'): v=ascii(v)
    return format(v,spec)
HOOKS={'__vs_lit__':float,'__vs_div__':lambda a,b:a/b,'__vs_fmt__':_fmt,'__vs_join__':lambda parts:''.join(parts),
       '__vs_call__':lambda o,m,*a,**k:getattr(o,m)(*a,**k)}

class Loader(importlib.abc.SourceLoader):
    def __init__(self,fullname,path): self.fullname=fullname; self.path=path
    def get_filename(self,fullname): return self.path
    def get_data(self,path):
        with open(path,'rb') as f: return f.read()
    def source_to_code(self,data,path,*,_optimize=-1):
        src=data.decode('utf8') if isinstance(data,bytes) else data
        tree=ast.parse(src,path)
        tree=Rewriter(src).visit(tree); ast.fix_missing_locations(tree)
        STATS['files']+=1
        return compile(tree,path,'exec',dont_inherit=True)
    def exec_module(self,module):
        module.__dict__.update(HOOKS)
        super().exec_module(module)
    def get_code(self,fullname):   # bypass bytecode cache
        return self.source_to_code(self.get_data(self.path),self.path)

class Finder(importlib.abc.MetaPathFinder):
    ROOTS={'geodepy':'/repo/geodepy','api':'/repo/api'}
    def find_spec(self,fullname,path,target=None):
        parts=fullname.split('.')
        if parts[0] not in self.ROOTS or 'tests' in parts or fullname.endswith('test_app'): return None
        base=os.path.join(self.ROOTS[parts[0]],*parts[1:])
        if os.path.isdir(base):
            p=os.path.join(base,'__init__.py')
            return importlib.util.spec_from_file_location(fullname,p,loader=Loader(fullname,p),submodule_search_locations=[base])
        p=base+'.py'
        if os.path.exists(p):
            return importlib.util.spec_from_file_location(fullname,p,loader=Loader(fullname,p))
        return None
sys.meta_path.insert(0,Finder())

def pytest_sessionfinish(session, exitstatus):
    print('\nINSTR STATS',STATS)
