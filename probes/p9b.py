exec(open('p9.py').read().split('# strip the round4')[0])
def uf_apps(e,acc):
    if z3.is_app(e):
        if e.decl().kind()==z3.Z3_OP_UNINTERPRETED and e.num_args()>0: acc[e.get_id()]=e
        for c in e.children(): uf_apps(c,acc)
    return acc
Xc=r[2].z.arg(0)
for delta in ('1/1000','100000','100000000000000'):
    E,N=perturbed(delta)
    apps=uf_apps(Xc,{}); uf_apps(E.z,apps)
    cons=[]
    for t in apps.values():
        nm=t.decl().name()
        if nm in ('sin','cos'): cons+= [t>=-1,t<=1]
        elif nm=='cosh': cons+=[t>=1,t<=4000]
        elif nm=='sinh': cons+=[t>=-4000,t<=4000]
        elif nm=='sqrt': cons+=[t>=0]
    print('delta',delta,'uf apps',len(apps))
    for name,mk in (('smt',lambda: z3.Solver()),):
        s=mk(); s.set('timeout',120000)
        s.add(a_>6.3e6,a_<6.4e6,invf_>=150,invf_<=400,k0>0.9,k0<=1,*cons)
        D=Xc-E.z
        tol=z3.RealVal('1/20000')
        s.add(z3.Or(D>tol,D<-tol))
        t=time.time(); rr=s.check(); print(' ',name,rr,round(time.time()-t,2),flush=True)
