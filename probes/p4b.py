import z3, time, sys, subprocess
from p4 import *
def build(e,ndec,qlo=None,qhi=None):
    q,m,r=z3.Ints('q m r')
    s=z3.Solver()
    sh=52-e; P=2**sh
    s.add(q>=(qlo or 1), q<=(qhi or 720*10**13))
    s.add(m>=2**52, m<2**53)
    d=q*P - m*10**13
    s.add(2*d<=10**13, 2*d>=-10**13)
    T=10**ndec
    dd=r*P - m*T
    s.add(2*dd<=P, 2*dd>=-P)
    s.add(z3.Implies(z3.Or(2*dd==P,2*dd==-P), r%2==0))
    MM=(q/(10**11))%100; SS=(q/(10**9))%100
    s.add(MM<=59, SS<=59)
    d0=(r/(10**(ndec-1)))%10; d2=(r/(10**(ndec-3)))%10
    s.add(z3.Or(d0>5,d2>5))
    return s
e=int(sys.argv[1]); nd=int(sys.argv[2])
s=build(e,nd)
open('q4.smt2','w').write('(set-logic QF_LIA)\n'+s.sexpr()+'(check-sat)\n')
for cmd in (['z3','-T:100','q4.smt2'],['cvc5','--tlimit=100000','q4.smt2'],['z3-new','-T:100','q4.smt2']):
    t=time.time()
    try: out=subprocess.run(cmd,capture_output=True,text=True,timeout=130).stdout.strip()[:80]
    except Exception as ex: out=str(ex)[:60]
    print(cmd[0],out,round(time.time()-t,2),flush=True)
# chunk by degrees
lo=2**e; hi=min(2**(e+1),720)
import math
step=max(1,(hi-lo)//16)
tot=0
for d0 in range(lo,hi,step):
    s=build(e,nd,d0*10**13,min(hi,(d0+step))*10**13); s.set('timeout',60000)
    t=time.time(); r=s.check(); dt=time.time()-t; tot+=dt
    print('chunk',d0,r,round(dt,2),flush=True)
    if tot>300: break
