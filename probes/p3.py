import time, z3, sys, symreal as S
import numpy as np
from symreal import SymReal, explore
import geodepy.statistics as st, geodepy.geodesy as gd
S.patch(st); S.patch(gd)
lat=SymReal(z3.Real('lat')); lon=SymReal(z3.Real('lon'))
sin,cos=S.uf('sin'),S.uf('cos')
def trig_axioms(terms):
    return [sin(t)*sin(t)+cos(t)*cos(t)==1 for t in terms]
def run():
    return st.rotation_matrix(lat,lon)
res=explore(run)
Rm,pc,d=res[0]
print(Rm.dtype, Rm.shape)
rlat=lat.z*S.PI/180; rlon=lon.z*S.PI/180
ax=trig_axioms([rlat,rlon])
def prove(name,claim,extra=[]):
    s=z3.Solver(); s.set('timeout',60000); s.add(*ax,*extra); s.add(z3.Not(claim)); t=time.time(); r=s.check(); print(name,r,round(time.time()-t,2)); return r
RtR=Rm.T@Rm
I=np.eye(3)
claim=z3.And(*[RtR[i,j].z==(1 if i==j else 0) for i in range(3) for j in range(3)])
prove('orthonormal',claim)
# det = +1
def det3(M):
    return (M[0,0]*(M[1,1]*M[2,2]-M[1,2]*M[2,1]) - M[0,1]*(M[1,0]*M[2,2]-M[1,2]*M[2,0]) + M[0,2]*(M[1,0]*M[2,1]-M[1,1]*M[2,0]))
prove('det', det3(Rm).z==1)
# up axis = normal
prove('up', z3.And(Rm[0,2].z==cos(rlat)*cos(rlon), Rm[1,2].z==cos(rlat)*sin(rlon), Rm[2,2].z==sin(rlat)))
# xyz2enu(enu2xyz(v))==v
e,n,u=[SymReal(z3.Real(k)) for k in 'enu']
def rt():
    x,y,z=gd.enu2xyz(lat,lon,e,n,u)
    return gd.xyz2enu(lat,lon,x,y,z),(x,y,z)
gd.angular_typecheck=lambda a:a
(res2,xyz),pc,d=explore(rt)[0]
prove('roundtrip', z3.And(res2[0].z==e.z,res2[1].z==n.z,res2[2].z==u.z))
prove('length', xyz[0].z**2+xyz[1].z**2+xyz[2].z**2==e.z**2+n.z**2+u.z**2)
# covariance rotation
V=np.array([[SymReal(z3.Real('v%d%d'%(min(i,j),max(i,j)))) for j in range(3)] for i in range(3)],dtype=object)
def cv_():
    return st.vcv_cart2local(V,lat,lon)
L,pc,d=explore(cv_)[0]
prove('sym', z3.And(L[0,1].z==L[1,0].z, L[0,2].z==L[2,0].z, L[1,2].z==L[2,1].z))
prove('trace', (L[0,0]+L[1,1]+L[2,2]).z==(V[0,0]+V[1,1]+V[2,2]).z)
def m2(M): return (M[0,0]*M[1,1]-M[0,1]*M[1,0] + M[0,0]*M[2,2]-M[0,2]*M[2,0] + M[1,1]*M[2,2]-M[1,2]*M[2,1])
prove('minor2', m2(L).z==m2(V).z)
prove('det', det3(L).z==det3(V).z)
def back():
    return st.vcv_local2cart(L,lat,lon)
B,pc,d=explore(back)[0]
prove('cov roundtrip', z3.And(*[B[i,j].z==V[i,j].z for i in range(3) for j in range(3)]))

# --- pure NRA variants: UF apps -> vars
s1,c1,s2,c2=z3.Reals('s1 c1 s2 c2')
sub=[(sin(rlat),s1),(cos(rlat),c1),(sin(rlon),s2),(cos(rlon),c2)]
def prove2(name,claim,tactic=None):
    cl=z3.substitute(claim,*sub)
    g=[s1*s1+c1*c1==1,s2*s2+c2*c2==1,z3.Not(cl)]
    for tac in (['qfnra-nlsat'] if tactic is None else tactic):
        s=z3.Tactic(tac).solver(); s.set('timeout',120000); s.add(*g); t=time.time(); r=s.check(); print(name,tac,r,round(time.time()-t,2))
prove2('det', det3(L).z==det3(V).z)
for i in range(3):
    for j in range(i,3):
        prove2('cov rt %d%d'%(i,j), B[i,j].z==V[i,j].z)
