import warnings
from geodepy.angles import *
from geodepy.convert import *
from geodepy.constants import *
def t(f,*a,**k):
    try: return f(*a,**k)
    except Exception as e: return 'EXC %s: %s'%(type(e).__name__,e)
print('HPAngle(0.3)', t(HPAngle,0.3)); print('HPAngle(0.06)', t(HPAngle,0.06)); print('HPAngle(10.3)', t(HPAngle, 10.3))
print(f'{0.3:.17f}', f'{0.06:.17f}')
print('hp2dms(0.29)', t(hp2dms,0.29), 0.29*1000)
cnt=0; bad=[]
for d in range(0,5):
  for m in range(60):
    for s in range(60):
      hp=float(f'{d}.{m:02d}{s:02d}')
      r=hp2dms(hp)
      if abs(r.dec()-(d+m/60+s/3600))>1e-9: 
        cnt+=1
        if len(bad)<5: bad.append((hp,r))
print('hp2dms bad',cnt,bad)
cnt=0;bad=[]
for d in range(0,5):
  for m in range(60):
    for s in range(60):
      hp=float(f'{d}.{m:02d}{s:02d}')
      try: HPAngle(hp)
      except ValueError: 
        cnt+=1
        if len(bad)<5: bad.append(hp)
print('HPAngle reject', cnt, 'of', 5*3600, bad)
print('dec2hp(0.99999999999999)', t(dec2hp, 0.99999999999999), t(hp2dec, t(dec2hp, 0.99999999999999)))
print('dec2hp(0.9999999999999)', t(dec2hp, 0.9999999999999))
x=1-1e-13; print(x, dec2hp(x))
import numpy as np
print('hp2dec_v', hp2dec_v(np.array([0.29, 0.3, 1.1, 10.3030])), [hp2dec(v) for v in [0.29,0.3,1.1,10.3030]])
print('dec2hp_v', dec2hp_v(np.array([0.5, 1/3, 10.508333333333333])), [dec2hp(v) for v in [0.5, 1/3, 10.508333333333333]])
# large
for hp in [600.3, 700.3, 650.06, 719.3, 530.3,512.3, 700.0001]:
    print(hp, f'{hp:.13f}', t(hp2dec,hp))
print(llh2xyz(0, 10, 0, intl24), llh2xyz(1e-12, 10, 0, intl24))
print(geo2grid(-37, 145, 0, intl24)[4:], geo2grid(-37,145)[4:])
print(geo2grid(-33.5, 151, 0, ans, isg))
