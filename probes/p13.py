"""Probes: C16 error ellipse eigen-claims; C06 conform7 formula+Jacobian with symbolic parameters."""
import time, z3, symreal as S, numpy as np
from symreal import SymReal, explore
import geodepy.statistics as st, geodepy.transform as tf, geodepy.constants as K
S.patch(st); S.patch(tf)
def prove(name,hyp,claim,tactics=('smt','nlsat')):
    for tac in tactics:
        s=z3.Solver() if tac=='smt' else z3.Tactic('qfnra-nlsat').solver()
        s.set('timeout',60000); s.add(*hyp); s.add(z3.Not(claim)); t=time.time(); r=s.check()
        print(name,tac,r,round(time.time()-t,2),flush=True)
        if r==z3.unsat: return True
    return False
# ---- error ellipse
v00,v11,v01=z3.Reals('v00 v11 v01')
V=np.array([[SymReal(v00),SymReal(v01),0],[SymReal(v01),SymReal(v11),0],[0,0,0]],dtype=object)
(a,b,ori),pc,d=explore(lambda: st.error_ellipse(V))[0]
sq=S.uf('sqrt')
# collect sqrt apps and add defining axioms
def apps(e,name,acc):
    if z3.is_app(e):
        if e.decl().name()==name and e.num_args()>0: acc[e.get_id()]=e
        for c in e.children(): apps(c,name,acc)
    return acc
sq_apps={}
for t in (a.z,b.z,ori.z): apps(t,'sqrt',sq_apps)
psd=[v00>=0,v11>=0,v00*v11-v01*v01>=0]
ax=[]
for t in sq_apps.values(): ax+=[t>=0,t*t==t.arg(0)]
print('sqrt apps',len(sq_apps))
prove('ellipse trace',psd+ax, a.z*a.z+b.z*b.z==v00+v11)
prove('ellipse det',psd+ax, a.z*a.z*b.z*b.z==v00*v11-v01*v01)
prove('a>=b>=0',psd+ax, z3.And(a.z>=b.z,b.z>=0))
# orientation: ori = 90 - degrees(0.5*atan2(2 v01, v00-v11)); psi = 0.5*atan2(...)
at=list(apps(ori.z,'atan2',{}).values())[0]
c,s_=z3.Reals('c s')
zz=[t for t in sq_apps.values() if 'v01' in str(t) and t.arg(0).decl().kind()!=z3.Z3_OP_MUL or True]
# z = sqrt((v00-v11)^2+4 v01^2) is the arg inside a's sqrt; define directly
zvar=z3.Real('zvar')
hyp=psd+[zvar>=0,zvar*zvar==(v00-v11)*(v00-v11)+4*v01*v01, zvar>0, c*c+s_*s_==1,
         (v00-v11)==zvar*(c*c-s_*s_), 2*v01==zvar*2*s_*c]
lam=(v00+v11+zvar)/2
prove('eigvec', hyp, z3.And(v00*c+v01*s_==lam*c, v01*c+v11*s_==lam*s_))
# ---- conform7
tf.hp2dec=lambda v: v*10000/3600     # summary of arcsec->deg path for this probe (exact part)
names='tx ty tz sc rx ry rz'.split()
P={n:z3.Real(n) for n in names}
sd=K.TransformationSD(*[SymReal(z3.Real('sd_'+n)) for n in names])
T=K.Transformation('A','B',0,*[SymReal(P[n]) for n in names],tf_sd=sd)
x,y,z_=z3.Reals('x y z')
vc=np.array([[SymReal(z3.Real('q%d%d'%(min(i,j),max(i,j)))) for j in range(3)] for i in range(3)],dtype=object)
orig_zeros=np.zeros
class NPF:
    def __getattr__(self,k): return getattr(np,k)
    def zeros(self,shape): return np.zeros(shape,dtype=object)
    def array(self,a): return np.array(a,dtype=object)
tf.np=NPF()
try:
    res=explore(lambda: tf.conform7(SymReal(x),SymReal(y),SymReal(z_),T,vc)); print([r[0] if isinstance(r[0][0],str) else "ok" for r in res]); (xt,yt,zt,vo),pc,d=res[0]
    k=S.PI/180/3600
    sc=1+P['sc']/1000000
    rx,ry,rz=P['rx']*k,P['ry']*k,P['rz']*k
    ref=[P['tx']+sc*(x+rz*y-ry*z_), P['ty']+sc*(-rz*x+y+rx*z_), P['tz']+sc*(ry*x-rx*y+z_)]
    prove('conform7 formula',[], z3.And(xt.z==ref[0],yt.z==ref[1],zt.z==ref[2]),('smt',))
    print(type(vo), getattr(vo,'shape',None), type(vo[0,0]))
    el=vo[0,1]; el2=vo[1,0]
    ez=lambda e: e.z if isinstance(e,SymReal) else (e.item().z if hasattr(e,'item') else e)
    prove('vcv symmetric',[], z3.And(*[ez(vo[i,j])==ez(vo[j,i]) for i in range(3) for j in range(i)]),('smt',))
except Exception as ex:
    import traceback; traceback.print_exc()
