import time, z3, symreal as S
from symreal import SymReal, explore
import geodepy.survey as sv
S.patch(sv)
lam,tc,p,pv,xc=[z3.Real(n) for n in 'lam tc p pv xc'.split()]
def run():
    return sv.phase_refractivity(SymReal(lam),SymReal(tc),SymReal(p),SymReal(pv),SymReal(xc)), sv.group_refractivity(SymReal(lam),SymReal(tc),SymReal(p),SymReal(pv),SymReal(xc))
(NP,NG),pc,d=explore(run)[0]
print(len(str(NP.z)))
def diff(e,x):
    if z3.is_rational_value(e) or z3.is_int_value(e): return z3.RealVal(0)
    if e.eq(x): return z3.RealVal(1)
    if z3.is_const(e): return z3.RealVal(0)
    k=e.decl().kind(); ch=e.children()
    if k==z3.Z3_OP_ADD:
        r=diff(ch[0],x)
        for c in ch[1:]: r=r+diff(c,x)
        return r
    if k==z3.Z3_OP_SUB:
        r=diff(ch[0],x)
        for c in ch[1:]: r=r-diff(c,x)
        return r
    if k==z3.Z3_OP_UMINUS: return -diff(ch[0],x)
    if k==z3.Z3_OP_MUL:
        tot=z3.RealVal(0)
        for i in range(len(ch)):
            t=diff(ch[i],x)
            for j in range(len(ch)):
                if j!=i: t=t*ch[j]
            tot=tot+t
        return tot
    if k==z3.Z3_OP_DIV:
        u,v=ch
        return (diff(u,x)*v-u*diff(v,x))/(v*v)
    if k==z3.Z3_OP_TO_REAL: return z3.RealVal(0)
    raise NotImplementedError(e.decl())
dNP=diff(NP.z,lam)
claim = NG.z == NP.z - lam*dNP
dom=[lam>=0.4,lam<=1.6,tc>=-20,tc<=45,p>=650,p<=1100,pv>=0,pv<=40,xc>=300,xc<=600]
for name,mk in (('smt',lambda: z3.Solver()),('nlsat',lambda: z3.Tactic('qfnra-nlsat').solver())):
    s=mk(); s.set('timeout',120000); s.add(*dom); s.add(z3.Not(claim)); t=time.time(); r=s.check(); print(name,r,round(time.time()-t,2))
    if r==z3.sat: print(s.model())
# tolerance version
tol=z3.RealVal('1/1000000')
s=z3.Tactic('qfnra-nlsat').solver(); s.set('timeout',120000); s.add(*dom); D=NG.z-(NP.z-lam*dNP); s.add(z3.Or(D>tol,D<-tol)); t=time.time(); r=s.check(); print('tol nlsat',r,round(time.time()-t,2))
s=z3.Solver(); s.add(*dom); s.add(z3.Not(claim)); s.check(); m=s.model()
vals={str(v):m[v] for v in [lam,tc,p,pv,xc]}
print(vals)
print('diff eval', m.eval(NG.z-(NP.z-lam*dNP), model_completion=True))
# numeric check with python floats
import math
f={k:float(v.as_fraction()) for k,v in vals.items()}
print(f)
