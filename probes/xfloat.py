"""Prototype F-model: exact IEEE doubles as linear integer arithmetic, executing the REAL angles.py
source through the AST-instrumented importer (probes/instr.py rewrite rules) with symbolic hooks.
Throw-away design probe; see DESIGN.md 2.4."""
import ast, sys, types, math, time, z3
from fractions import Fraction as F
sys.path.insert(0, '/verif/probes')
import instr
import symreal as S
from symreal import SymBool, explore, PathAbort

def fresh(kind, name):
    c = S.CTX
    c.n = getattr(c, 'n', 0) + 1
    return (z3.Int if kind == 'i' else z3.Real)('%s_%d' % (name, c.n))

def assume(*cs): S.CTX.pc.extend(cs)

def sb(z):   # decide a SymBool immediately if z3 simplifies it
    z = z3.simplify(z)
    if z3.is_true(z): return True
    if z3.is_false(z): return False
    return SymBool(z)

class SymInt:
    def __init__(s, z): s.z = z if z3.is_expr(z) else z3.IntVal(z)
    def _o(s, o): return o.z if isinstance(o, SymInt) else (z3.IntVal(o) if isinstance(o, int) and not isinstance(o, bool) else None)
    def __add__(s, o): return SymInt(s.z + s._o(o))
    __radd__ = __add__
    def __sub__(s, o): return SymInt(s.z - s._o(o))
    def __mul__(s, o): return SymInt(s.z * s._o(o))
    __rmul__ = __mul__
    def __truediv__(s, o):   # int / int -> double
        return XF(s.z, 1, None, None) .__truediv__(o)
    def __neg__(s): return SymInt(-s.z)
    def __abs__(s): return SymInt(z3.If(s.z >= 0, s.z, -s.z))
    def __gt__(s, o): return sb(s.z > s._o(o))
    def __ge__(s, o): return sb(s.z >= s._o(o))
    def __lt__(s, o): return sb(s.z < s._o(o))
    def __le__(s, o): return sb(s.z <= s._o(o))
    def __eq__(s, o): return sb(s.z == s._o(o))
    def __ne__(s, o): return sb(s.z != s._o(o))
    __hash__ = None

def log2floor(q):   # q Fraction > 0
    k = q.numerator.bit_length() - q.denominator.bit_length()
    if F(2) ** k > q: k -= 1
    return k

class XF:
    """value = num/den ; num z3 Int (exact double, sort Int) or z3 Real (slack over-approximation, den=1)."""
    def __init__(s, num, den, lo, hi, exact=True):
        s.num = num; s.den = den; s.lo = lo; s.hi = hi; s.exact = exact
    def is_int_sort(s): return s.num.sort().kind() == z3.Z3_INT_SORT
    def real(s):
        n = z3.ToReal(s.num) if s.is_int_sort() else s.num
        return n / z3.RealVal(s.den)
    # ---- exact rational (before rounding)
    @staticmethod
    def _rat(o):
        if isinstance(o, XF): return o
        if isinstance(o, SymInt): return XF(o.z, 1, None, None)
        if isinstance(o, bool): raise TypeError
        if isinstance(o, int): return XF(z3.IntVal(o), 1, F(o), F(o))
        if isinstance(o, float):
            q = F(o); return XF(z3.IntVal(q.numerator), q.denominator, q, q)
        raise TypeError(type(o))
    def _lin(s, o, sign):
        o = XF._rat(o)
        if s.is_int_sort() and o.is_int_sort():
            den = s.den * o.den // math.gcd(s.den, o.den)
            num = s.num * (den // s.den) + sign * o.num * (den // o.den)
        else:
            den = 1; num = s.real() + sign * o.real()
        lo = None if None in (s.lo, o.lo, s.hi, o.hi) else (s.lo + o.lo if sign > 0 else s.lo - o.hi)
        hi = None if lo is None else (s.hi + o.hi if sign > 0 else s.hi - o.lo)
        return XF(num, den, lo, hi)
    def __add__(s, o): return rn(s._lin(o, 1))
    def __radd__(s, o): return rn(XF._rat(o)._lin(s, 1))
    def __sub__(s, o): return rn(s._lin(o, -1))
    def __rsub__(s, o): return rn(XF._rat(o)._lin(s, -1))
    def _scale(s, q):      # exact multiply by Fraction q (any sign, nonzero)
        if s.is_int_sort(): num = s.num * q.numerator; den = s.den * q.denominator
        else: num = s.num * z3.RealVal(str(q)); den = 1
        lo, hi = (None, None) if s.lo is None or s.hi is None else tuple(sorted((s.lo * q, s.hi * q)))
        return XF(num, den, lo, hi)
    def __mul__(s, o): return SymInt(s.z * s._o(o))
    __rmul__ = __mul__
    def __truediv__(s, o):   # int / int -> double
        return XF(s.z, 1, None, None) .__truediv__(o)
    def __neg__(s): return SymInt(-s.z)
    def __abs__(s): return SymInt(z3.If(s.z >= 0, s.z, -s.z))
    def __gt__(s, o): return sb(s.z > s._o(o))
    def __ge__(s, o): return sb(s.z >= s._o(o))
    def __lt__(s, o): return sb(s.z < s._o(o))
    def __le__(s, o): return sb(s.z <= s._o(o))
    def __eq__(s, o): return sb(s.z == s._o(o))
    def __ne__(s, o): return sb(s.z != s._o(o))
    __hash__ = None

def log2floor(q):   # q Fraction > 0
    k = q.numerator.bit_length() - q.denominator.bit_length()
    if F(2) ** k > q: k -= 1
    return k

class XF:
    """value = num/den ; num z3 Int (exact double, sort Int) or z3 Real (slack over-approximation, den=1)."""
    def __init__(s, num, den, lo, hi, exact=True):
        s.num = num; s.den = den; s.lo = lo; s.hi = hi; s.exact = exact
    def is_int_sort(s): return s.num.sort().kind() == z3.Z3_INT_SORT
    def real(s):
        n = z3.ToReal(s.num) if s.is_int_sort() else s.num
        return n / z3.RealVal(s.den)
    # ---- exact rational (before rounding)
    @staticmethod
    def _rat(o):
        if isinstance(o, XF): return o
        if isinstance(o, SymInt): return XF(o.z, 1, None, None)
        if isinstance(o, bool): raise TypeError
        if isinstance(o, int): return XF(z3.IntVal(o), 1, F(o), F(o))
        if isinstance(o, float):
            q = F(o); return XF(z3.IntVal(q.numerator), q.denominator, q, q)
        raise TypeError(type(o))
    def _lin(s, o, sign):
        o = XF._rat(o)
        if s.is_int_sort() and o.is_int_sort():
            den = s.den * o.den // math.gcd(s.den, o.den)
            num = s.num * (den // s.den) + sign * o.num * (den // o.den)
        else:
            den = 1; num = s.real() + sign * o.real()
        lo = None if None in (s.lo, o.lo, s.hi, o.hi) else (s.lo + o.lo if sign > 0 else s.lo - o.hi)
        hi = None if lo is None else (s.hi + o.hi if sign > 0 else s.hi - o.lo)
        return XF(num, den, lo, hi)
    def __add__(s, o): return rn(s._lin(o, 1))
    def __radd__(s, o): return rn(XF._rat(o)._lin(s, 1))
    def __sub__(s, o): return rn(s._lin(o, -1))
    def __rsub__(s, o): return rn(XF._rat(o)._lin(s, -1))
    def _scale(s, q):      # exact multiply by Fraction q>0 or <0
        if s.is_int_sort(): num = s.num * q.numerator; den = s.den * q.denominator
        else: num = s.num * z3.RealVal(str(q)); den = 1
        if q < 0: num = -num; den = den if True else den
        lo, hi = (None, None) if s.lo is None else tuple(sorted((s.lo * q, s.hi * q)))
        if q < 0 and s.is_int_sort(): num = s.num * q.numerator  # sign already in numerator
        return XF(num, den if q > 0 else s.den * q.denominator, lo, hi)
    def __mul__(s, o):
        if isinstance(o, (int, float)) and not isinstance(o, bool): return rn(s._scale(F(o)))
        raise TypeError('symbolic*symbolic unsupported')
    __rmul__ = __mul__
    def __truediv__(s, o):
        if isinstance(o, (int, float)) and not isinstance(o, bool): return rn(s._scale(1 / F(o)))
        raise TypeError('division by symbolic unsupported')
    def __neg__(s): return XF(-s.num, s.den, None if s.hi is None else -s.hi, None if s.lo is None else -s.lo, s.exact)
    def __abs__(s):
        if s.lo is not None and s.lo >= 0: return s
        if s.hi is not None and s.hi <= 0: return -s
        if bool(s >= 0): return XF(s.num, s.den, F(0), s.hi, s.exact)
        return XF(-s.num, s.den, F(0), None if s.lo is None else -s.lo, s.exact)
    def _cmp(s, o, f):
        o = XF._rat(o)
        if s.is_int_sort() and o.is_int_sort(): return sb(f(s.num * o.den, o.num * s.den))
        return sb(f(s.real(), o.real()))
    def __lt__(s, o): return s._cmp(o, lambda a, b: a < b)
    def __le__(s, o): return s._cmp(o, lambda a, b: a <= b)
    def __gt__(s, o): return s._cmp(o, lambda a, b: a > b)
    def __ge__(s, o): return s._cmp(o, lambda a, b: a >= b)
    def __eq__(s, o): return s._cmp(o, lambda a, b: a == b)
    def __ne__(s, o): return s._cmp(o, lambda a, b: a != b)
    __hash__ = None
    def __divmod__(s, c):
        assert isinstance(c, int) and c > 0 and s.is_int_sort()
        # value >= 0 assumed (callers take abs first); exact results
        k = fresh('i', 'k'); r = fresh('i', 'r')
        assume(k >= 0, r >= 0, r < c * s.den, s.num == c * s.den * k + r)
        khi = None if s.hi is None else F(int(s.hi // c))
        return (XF(k, 1, F(0), khi), XF(r, s.den, F(0), F(c)))
    def __round__(s, n=None):
        R = rnint(s, 10 ** n)
        return rn(XF(R, 10 ** n, s.lo, s.hi))

def rnint(x, T):
    """Int R = round-half-even(x*T) for x = num/den (exact) or real."""
    R = fresh('i', 'R')
    if x.is_int_sort():
        d = R * x.den - x.num * T
        assume(2 * d <= x.den, 2 * d >= -x.den, z3.Implies(z3.Or(2 * d == x.den, 2 * d == -x.den), R % 2 == 0))
    else:
        d = z3.ToReal(R) - x.num * T
        assume(2 * d <= 1, 2 * d >= -1)
    return R

def rn(x):
    """round exact rational XF to double."""
    if x.is_int_sort() and (x.den & (x.den - 1)) == 0 and x.lo is not None and x.lo >= 0:
        # already dyadic: representable if numerator fits 53 bits for all values in range
        if x.hi is not None and x.hi * x.den < 2 ** 53: return x
    if x.lo is not None and x.lo > 0 and x.is_int_sort():
        k0, k1 = log2floor(x.lo), log2floor(x.hi)
        if k1 - k0 <= 2:
            for k in range(k0, k1 + 1):
                last = (k == k1)
                def ge(kk): return x.num >= (2 ** kk) * x.den if kk >= 0 else x.num * (2 ** -kk) >= x.den
                inb = z3.And(ge(k), z3.Not(ge(k + 1)))
                if last or bool(sb(inb)):
                    if last: assume(inb)
                    m = fresh('i', 'm')
                    # result m * 2^(k-52): |x - y| <= 2^(k-53)
                    if k <= 52:
                        P = 2 ** (52 - k); d = x.num * P - m * x.den     # (x - y) * den * P
                        assume(m >= 2 ** 52, m <= 2 ** 53, 2 * d <= x.den, 2 * d >= -x.den,
                               z3.Implies(z3.Or(2 * d == x.den, 2 * d == -x.den), m % 2 == 0))
                        return XF(m, P, F(2) ** k, F(2) ** (k + 1))
                    raise NotImplementedError
    # slack mode: y real with relative error 2^-53 (absolute for unknown sign)
    y = fresh('r', 'y'); xr = x.real(); u = z3.RealVal(1) / z3.RealVal(2 ** 53)
    ax = z3.If(xr >= 0, xr, -xr)
    assume(y - xr <= ax * u, xr - y <= ax * u)
    return XF(y, 1, x.lo, x.hi, exact=False)

# ------------------------------------------------------------------ decimal text
class DText:
    """parts: ('lit', str) | ('dig', intexpr, width) | ('int', intexpr)  ; neg: SymBool-ish z3 Bool or False"""
    def __init__(s, parts, neg=False, stripped=False): s.parts = parts; s.neg = neg; s.stripped = stripped
    def split(s, sep):
        assert sep == '.'
        i = [j for j, p in enumerate(s.parts) if p == ('lit', '.')][0]
        return [DText(s.parts[:i], s.neg), DText(s.parts[i + 1:])]
    def _digits(s):  # only for pure fixed-width digit strings
        out = []
        for p in s.parts:
            if p[0] == 'dig': out.append((p[1], p[2]))
            elif p[0] == 'lit' and p[1].isdigit(): out.append((z3.IntVal(int(p[1])), len(p[1])))
            else: raise NotImplementedError(p)
        return out
    def __len__(s): return sum(w for _, w in s._digits())
    def __getitem__(s, ix):
        ds = s._digits(); W = sum(w for _, w in ds)
        # whole value
        val = z3.IntVal(0)
        for e, w in ds: val = val * 10 ** w + e
        if isinstance(ix, int):
            a, b = ix, ix + 1
        else:
            a = 0 if ix.start is None else ix.start; b = W if ix.stop is None else min(ix.stop, W)
        e = (val / (10 ** (W - b))) % (10 ** (b - a))
        return DText([('dig', e, b - a)])
    def __add__(s, o):
        o = DText([('lit', o)]) if isinstance(o, str) else o
        return DText(s.parts + o.parts, s.neg)
    def __radd__(s, o): return DText([('lit', o)] + s.parts)
    def rstrip(s, ch): assert ch == '0' and ('lit', '.') in s.parts; return DText(s.parts, s.neg, True)
    def replace(s, a, b): assert (a, b) == ('.', ''); return DText([p for p in s.parts if p != ('lit', '.')], s.neg, s.stripped)
    def to_int(s):
        v = z3.IntVal(0)
        for p in s.parts:
            if p[0] == 'dig': v = v * 10 ** p[2] + p[1]
            elif p[0] == 'int': assert v.eq(z3.IntVal(0)); v = p[1]
            else: v = v * 10 ** len(p[1]) + int(p[1])
        return SymInt(z3.If(s.neg, -v, v) if z3.is_expr(s.neg) else (-v if s.neg else v))
    def to_float(s):
        i = [j for j, p in enumerate(s.parts) if p == ('lit', '.')]
        ip, fp = (s.parts[:i[0]], s.parts[i[0] + 1:]) if i else (s.parts, [])
        iv = DText(ip).to_int().z
        fv = z3.IntVal(0); fw = 0
        for p in fp:
            if p[0] == 'dig': fv = fv * 10 ** p[2] + p[1]; fw += p[2]
            else: fv = fv * 10 ** len(p[1]) + int(p[1]); fw += len(p[1])
        num = iv * 10 ** fw + fv
        return num, 10 ** fw

def vs_fmt(v, conv, spec):
    if isinstance(v, DText) and spec == '': return v
    if isinstance(v, SymInt):
        if spec == '': return DText([('int', v.z)])
        if spec in ('02', '02d'):
            assume(v.z >= 0)
            if bool(sb(v.z < 100)): return DText([('dig', v.z, 2)])
            raise NotImplementedError('3-digit minute')
    if isinstance(v, XF):
        import re
        mo = re.fullmatch(r'(0(\d+))?\.(\d+)f', spec); n = int(mo.group(3)); width = int(mo.group(2)) if mo.group(2) else 0
        neg = False
        if not (v.lo is not None and v.lo >= 0):
            if bool(v < 0): v = -v; neg = True
        R = rnint(v, 10 ** n)
        ip = R / (10 ** n); fp = R % (10 ** n)
        if width:
            iw = width - n - 1
            if bool(sb(ip < 10 ** iw)): return DText([('dig', ip, iw), ('lit', '.'), ('dig', fp, n)], neg)
            raise NotImplementedError('width overflow')
        return DText([('int', ip), ('lit', '.'), ('dig', fp, n)], neg)
    return instr._fmt(v, conv, spec)
def vs_join(parts):
    if any(isinstance(p, DText) for p in parts):
        out = []; st = False
        for p in parts:
            if isinstance(p, DText): out += p.parts; st = st or p.stripped
            else: out.append(('lit', p))
        # split literal pieces so '.' is its own part
        out2 = []
        for p in out:
            if p[0] == 'lit' and p[1] != '.' and '.' in p[1]:
                a, b = p[1].split('.'); out2 += ([('lit', a)] if a else []) + [('lit', '.')] + ([('lit', b)] if b else [])
            else: out2.append(p)
        return DText(out2, False, st)
    return ''.join(parts)
def vs_call(o, m, *a, **k):
    return getattr(o, m)(*a, **k)
def vs_float(x):
    if isinstance(x, DText):
        num, den = x.to_float()
        lo = hi = None
        b = S.CTX.__dict__.get('float_bounds')
        if b: lo, hi = b
        r = rn(XF(num, den, lo, hi))
        return r
    if isinstance(x, (XF,)): return x
    if isinstance(x, SymInt): return XF(x.z, 1, None, None)
    return float(x)
class VsFloat(float):
    """shadow for builtin float: still a type (class DECAngle(float) must work), symbolic-aware constructor"""
    def __new__(cls, x=0.0):
        if isinstance(x, (DText, XF, SymInt)):
            if cls is VsFloat: return vs_float(x)
            return float.__new__(cls, float('nan'))      # subclass instance: value lives in attributes
        return float.__new__(cls, x) if cls is not VsFloat else float(x)
def vs_int(x):
    if isinstance(x, DText): return x.to_int()
    if isinstance(x, SymInt): return x
    if isinstance(x, XF):
        if x.den == 1 and x.is_int_sort(): return SymInt(x.num)
        k = fresh('i', 'k'); assume(k * x.den <= x.num, x.num < (k + 1) * x.den); return SymInt(k)   # x>=0 (trunc==floor)
    return int(x)
def vs_abs(x): return abs(x)
def vs_round(x, n=None): return x.__round__(n) if isinstance(x, XF) else round(x, n)
def vs_divmod(a, b): return a.__divmod__(b) if isinstance(a, XF) else divmod(a, b)
def vs_len(x): return len(x)

def load_angles():
    src = open('/repo/geodepy/angles.py').read()
    tree = instr.Rewriter(src).visit(ast.parse(src)); ast.fix_missing_locations(tree)
    mod = types.ModuleType('xf_angles')
    mod.__dict__.update({'__vs_lit__': float, '__vs_div__': lambda a, b: a / b, '__vs_fmt__': vs_fmt, '__vs_join__': vs_join,
                         '__vs_call__': vs_call, 'float': VsFloat, 'int': vs_int, 'abs': vs_abs, 'round': vs_round, 'divmod': vs_divmod})
    exec(compile(tree, '/repo/geodepy/angles.py', 'exec'), mod.__dict__)
    return mod

def sym_double(e, lo=None, hi=None, name='x'):
    """fresh double in binade e restricted to [lo,hi)."""
    m = fresh('i', name)
    P = 2 ** (52 - e)
    lo = F(2) ** e if lo is None else F(lo); hi = F(2) ** (e + 1) if hi is None else F(hi)
    assume(m >= 2 ** 52, m < 2 ** 53, m * lo.denominator >= lo.numerator * P, m * hi.denominator < hi.numerator * P)
    return XF(m, P, lo, hi), m, P
