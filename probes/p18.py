import z3,time
su1,cu1,su2,cu2,sl,cl=z3.Reals('su1 cu1 su2 cu2 sl cl')
hyp=[su1*su1+cu1*cu1==1,su2*su2+cu2*cu2==1,sl*sl+cl*cl==1]
X=(cu2*sl)**2+(cu1*su2-su1*cu2*cl)**2
Xs=(cu1*(-sl))**2+(cu2*su1-su2*cu1*cl)**2
for name,mk in (('smt',z3.Solver),('nlsat',lambda: z3.Tactic('qfnra-nlsat').solver())):
    s=mk(); s.set('timeout',60000); s.add(*hyp); s.add(X!=Xs); t=time.time(); print(name,s.check(),round(time.time()-t,2))
# also X = 1 - cos_sigma^2
cs=su1*su2+cu1*cu2*cl
for name,mk in (('smt',z3.Solver),('nlsat',lambda: z3.Tactic('qfnra-nlsat').solver())):
    s=mk(); s.set('timeout',60000); s.add(*hyp); s.add(X!=1-cs*cs); t=time.time(); print(name,'X=1-cos^2',s.check(),round(time.time()-t,2))
