"""Driver: run the real HPAngle/hp2dec/dec2hp/hp2dms source under the F-model prototype."""
import sys, time, z3
sys.path.insert(0,'/verif/probes')
import xfloat as X, symreal as S
from fractions import Fraction as F
import geodepy.angles as REAL
A=X.load_angles()
def hp_input(e, lo, hi):
    q=X.fresh('i','q')
    X.assume(q>=int(F(lo)*10**13), q<int(F(hi)*10**13), (q/(10**11))%100<=59, (q/(10**9))%100<=59)
    return q, X.rn(X.XF(q,10**13,F(lo),F(hi)))
def run(fn, e, lo, hi, kind):
    """kind 'hp' : input is RN(valid 13-decimal HP); 'dec': any double in [lo,hi)"""
    Q={}
    def body():
        if kind=='hp':
            q,x=hp_input(e,lo,hi); Q['q']=q
        else:
            x,m,P=X.sym_double(e,lo,hi); Q['m']=m; Q['P']=P
        Q['x']=x
        return fn(x)
    t=time.time(); res=S.explore(body); dt=time.time()-t
    out=[]
    for r,pc,d in res:
        exc = isinstance(r,tuple) and len(r)==3 and r[0]=='EXC'
        if exc:
            s=z3.Solver(); s.set('timeout',60000); s.add(*pc); t=time.time(); v=s.check()
            w=None
            if v==z3.sat:
                mo=s.model()
                if kind=='hp': w=mo[Q['q']].as_long()/10**13
                else: w=float(F(mo[Q['m']].as_long(),Q['P']))
            out.append(('EXC-path',r[1]+':'+r[2],str(v),round(time.time()-t,2),w))
        else: out.append(('ok-path',))
    return dt,out
def replay(f,w):
    try: return repr(f(w))
    except Exception as ex: return 'EXC %s'%type(ex).__name__
if __name__=='__main__':
    for name,fn,realfn,kind,ranges in (
        ('HPAngle',lambda x:A.HPAngle(x).hp_angle, REAL.HPAngle,'hp',[(-2,F(1,4),F(1,2)),(1,2,4),(6,64,68),(9,648,652)]),
        ('hp2dec', A.hp2dec, REAL.hp2dec,'hp',[(1,2,4),(6,64,68),(9,648,652)]),
        ('dec2hp', A.dec2hp, REAL.dec2hp,'dec',[(-1,F(1,2),1),(3,8,12)]),
        ):
        for (e,lo,hi) in ranges:
            dt,out=run(fn,e,lo,hi,kind)
            npath=len(out); exc=[o for o in out if o[0]=='EXC-path']
            print(name,(e,float(lo),float(hi)),'paths',npath,'explore',round(dt,1),'s')
            for o in exc:
                print('   ',o, '-> real:', replay(realfn,o[4]) if o[4] is not None else None, flush=True)

# ---- composite: hp2dec(dec2hp(x)) must not raise and must return x within 1e-8 arcsec
print('--- composite hp2dec(dec2hp(x))')
def comp(x):
    return A.hp2dec(A.dec2hp(x))
for (e,lo,hi) in [(-1,F(1,2),1),(3,8,12),(6,64,68),(9,716,720)]:
    Q={}
    def body():
        x,m,P=X.sym_double(e,lo,hi); Q['x']=x; Q['m']=m; Q['P']=P
        return comp(x)
    t=time.time(); res=S.explore(body); dt=time.time()-t
    print((e,float(lo),float(hi)),'paths',len(res),'explore',round(dt,1))
    for r,pc,d in res:
        s=z3.Solver(); s.set('timeout',120000); s.add(*pc)
        if isinstance(r,tuple) and r and r[0]=='EXC':
            t=time.time(); v=s.check(); w=None
            if v==z3.sat: w=float(F(s.model()[Q['m']].as_long(),Q['P']))
            print('   raise-path',r[1],str(v),round(time.time()-t,2),w,'-> real dec2hp:',None if w is None else replay(REAL.dec2hp,w), 'hp2dec(dec2hp):',None if w is None else replay(lambda z: REAL.hp2dec(REAL.dec2hp(z)),w),flush=True)
        else:
            tol=z3.RealVal(1)/z3.RealVal(3600*10**8)
            diff=r.real()-Q['x'].real()
            s.add(z3.Or(diff>tol,diff<-tol)); t=time.time(); v=s.check()
            print('   value-path',str(v),round(time.time()-t,2),flush=True)
