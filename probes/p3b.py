exec(open('p3.py').read().split("# --- pure NRA variants")[0].replace("prove('", "0 and prove('"))
import cvc5
s1,c1,s2,c2=z3.Reals('s1 c1 s2 c2')
sub=[(sin(rlat),s1),(cos(rlat),c1),(sin(rlon),s2),(cos(rlon),c2)]
cl=z3.substitute(B[0,1].z==V[0,1].z,*sub)
g=[s1*s1+c1*c1==1,s2*s2+c2*c2==1,z3.Not(cl)]
for seed in range(4):
    s=z3.Tactic('qfnra-nlsat').solver(); s.set('timeout',30000); s.set('nlsat.shuffle_vars',True); s.set('nlsat.seed',seed); s.add(*g); t=time.time(); r=s.check(); print('nlsat seed',seed,r,round(time.time()-t,2))
# simplified: som expand then check
e=z3.simplify(z3.substitute(B[0,1].z-V[0,1].z,*sub), som=True)
print('monomials', len(e.children()))
so=z3.Solver(); so.add(*g)
open('q.smt2','w').write('(set-logic QF_NRA)\n'+so.sexpr()+'(check-sat)\n')
import subprocess
for cmd in (['cvc5','--tlimit=60000','q.smt2'],['z3-new','-T:60','q.smt2'],['z3','-T:60','q.smt2']):
    t=time.time()
    try: out=subprocess.run(cmd,capture_output=True,text=True,timeout=100).stdout.strip()[:80]
    except Exception as ex: out=str(ex)[:60]
    print(cmd[0],out,round(time.time()-t,2))
