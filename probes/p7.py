import time, z3, sys, symreal as S
from symreal import SymReal, explore
import geodepy.convert as cv, geodepy.constants as K, geodepy.angles as A, geodepy.geodesy as gd
S.patch(cv); S.patch(gd)
cv.angular_typecheck=lambda a: a if isinstance(a,SymReal) else A.angular_typecheck(a)
gd.angular_typecheck=cv.angular_typecheck
K.sqrt=S.sym_sqrt; K.float=S.sym_float
a_=z3.Real('a'); invf_=z3.Real('invf')
ell=K.Ellipsoid(SymReal(a_),SymReal(invf_))
FE,FN,k0,zw,cm1=[z3.Real(n) for n in 'FE FN k0 zw cm1'.split()]
prj=K.Projection(*[SymReal(v) for v in (FE,FN,k0,zw,cm1)])
E=SymReal(z3.Real('E')); N=SymReal(z3.Real('N'))
pre=[a_>6.3e6, a_<6.4e6, invf_>=150, invf_<=400, S.PI>3.14159, S.PI<3.1416, k0>0.9, k0<=1, zw>0]
# bound loop iterations: abort path when more than MAXDEC decisions
MAXDEC=int(sys.argv[1]) if len(sys.argv)>1 else 14
orig_bool=S.SymBool.__bool__
def bounded_bool(self):
    if S.CTX.pos>=MAXDEC: raise S.PathAbort()
    return orig_bool(self)
S.SymBool.__bool__=bounded_bool
def run():
    S.CTX.pc.extend(pre)
    return cv.grid2geo(7,E,N,'south',ell,prj)
t=time.time()
res=explore(run)
print('grid2geo paths',len(res),round(time.time()-t,1))
for r,pc,d in res[:6]:
    print(d, r if r[0]=='EXC' else len(str(r[0].z)))
lat1,lon1,lat2,lon2=[SymReal(z3.Real(n)) for n in 'lat1 lon1 lat2 lon2'.split()]
def run2():
    S.CTX.pc.extend(pre)
    return gd.vincinv(lat1,lon1,lat2,lon2,ell)
t=time.time()
res=explore(run2)
print('vincinv paths',len(res),round(time.time()-t,1))
for r,pc,d in res[:8]:
    print(d, r if r[0]=='EXC' else [len(str(x.z)) if isinstance(x,SymReal) else x for x in r])
