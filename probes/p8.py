"""Probe: exact-float LIA encoding of hp2dms for HP inputs with 13 decimals, per binade and degree chunk."""
import z3, time, sys
from fractions import Fraction as F
from geodepy.angles import hp2dms

def query(e, s_, qlo, qhi, timeout=60000):
    q,m,m2,k,mdp,D,MIN=z3.Ints('q m m2 k mdp D MIN')
    s=z3.Solver(); s.set('timeout',timeout)
    P=2**(52-e)
    s.add(q>=qlo, q<qhi, m>=2**52, m<2**53)
    d=q*P - m*10**13
    s.add(2*d<=10**13, 2*d>=-10**13)
    MMq=(q/(10**11))%100; SSq=(q/(10**9))%100
    s.add(MMq<=59, SSq<=59)
    # x = RN(hp*1000), binade e+s_
    s.add(m2>=2**52, m2<2**53)
    dd=1000*m - m2*2**s_
    s.add(2*dd<=2**s_, 2*dd>=-2**s_)
    s.add(z3.Implies(z3.Or(2*dd==2**s_,2*dd==-2**s_), m2%2==0))
    e2=e+s_
    U=2**(52-e2)
    # divmod(x,10): m2 = 10*U*k + mdp
    s.add(k>=0, mdp>=0, mdp<10*U, m2==10*U*k+mdp)
    s.add(D>=0, MIN>=0, MIN<100, k==100*D+MIN)
    # claim: D==q div 1e13, MIN==MMq, |mdp*10/U - (q mod 1e11)/1e9| <= 1e-8
    secq=q%(10**11)      # seconds * 1e9
    lhs=mdp*10*10**9 - secq*U   # (sec_code - sec_true)*1e9*U
    tol=10*U            # 1e-8 * 1e9 * U
    s.add(z3.Or(D!=q/(10**13), MIN!=MMq, lhs>tol, lhs<-tol))
    t=time.time(); r=s.check(); dt=time.time()-t
    out=[e,s_,qlo//10**13,str(r),round(dt,2)]
    if r==z3.sat:
        mo=s.model(); qq=mo[q].as_long(); hp=qq/10**13
        out+= [repr(hp), repr(hp2dms(hp)), float(F(mo[m].as_long(),P))==hp, float(F(mo[m2].as_long(),U))==hp*1000]
    return out
if __name__=='__main__':
    e=int(sys.argv[1]); step=int(sys.argv[2])
    lo=int(2**e) if e>=0 else 0; hi=min(2**(e+1),720)
    for d0 in range(lo,hi,step):
        for s_ in (9,10):
            print(query(e,s_,max(d0*10**13,int(2**e*10**13)),min(d0+step,hi)*10**13),flush=True)
