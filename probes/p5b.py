import time, z3, symreal as S
from symreal import SymReal, explore
import geodepy.survey as sv
S.patch(sv)
orig=sv.refractivity_constants
def lift(t):
    return tuple(lift(x) if isinstance(x,tuple) else SymReal(S.toz(x)) for x in t)
sv.refractivity_constants=lambda: lift(orig())
lam,tc,p,pv,xc=[z3.Real(n) for n in 'lam tc p pv xc'.split()]
def run():
    return sv.phase_refractivity(SymReal(lam),SymReal(tc),SymReal(p),SymReal(pv),SymReal(xc)), sv.group_refractivity(SymReal(lam),SymReal(tc),SymReal(p),SymReal(pv),SymReal(xc))
(NP,NG),pc,d=explore(run)[0]
exec(open('p5.py').read().split('def diff')[1].split('dNP=')[0].join(['def diff','']))
dNP=diff(NP.z,lam)
claim = NG.z == NP.z - lam*dNP
dom=[lam>=0.4,lam<=1.6,tc>=-20,tc<=45,p>=650,p<=1100,pv>=0,pv<=40,xc>=300,xc<=600]
for name,mk in (('smt',lambda: z3.Solver()),('nlsat',lambda: z3.Tactic('qfnra-nlsat').solver())):
    s=mk(); s.set('timeout',120000); s.add(*dom); s.add(z3.Not(claim)); t=time.time(); r=s.check(); print(name,r,round(time.time()-t,2))
