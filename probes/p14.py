"""Probe: Vincenty direct + inverse, K=1/2 unrolled paths vs reference typed from GDA2020 TM (UF identity)."""
import time, z3, sys, symreal as S
from symreal import SymReal, explore
import geodepy.geodesy as gd, geodepy.constants as K, geodepy.angles as A
S.patch(gd)
gd.angular_typecheck=lambda a: a if isinstance(a,SymReal) else A.angular_typecheck(a)
K.sqrt=S.sym_sqrt; K.float=S.sym_float
a_=z3.Real('a'); invf_=z3.Real('invf')
ell=K.Ellipsoid(SymReal(a_),SymReal(invf_))
sin,cos,tan,atan,asin,sqrt=[S.STUBS[k] for k in 'sin cos tan atan asin sqrt'.split()]
atan2=S.sym_atan2
PI=SymReal(S.PI)
MAXDEC=int(sys.argv[1]) if len(sys.argv)>1 else 3
orig_bool=S.SymBool.__bool__
def bounded_bool(self):
    if S.CTX.pos>=MAXDEC: raise S.PathAbort()
    return orig_bool(self)
S.SymBool.__bool__=bounded_bool
lat1,lon1,az,dist,lat2,lon2=[SymReal(z3.Real(n)) for n in 'lat1 lon1 az dist lat2 lon2'.split()]
pre=[a_>6.3e6,a_<6.4e6,invf_>=280,invf_<=320]
def rnd(n,x): return SymReal(z3.Function('round%d'%n,z3.RealSort(),z3.RealSort())(x.z))
def ref_dir(lat1,lon1,az,s,a,invf,iters):
    f=1/invf; b=a*(1-f)
    az=az*PI/180
    U1=atan((1-f)*tan(lat1*PI/180))
    s1=atan2(tan(U1),cos(az))
    al=asin(cos(U1)*sin(az))
    u2=cos(al)**2*(a**2-b**2)/b**2
    A_=1+u2/16384*(4096+u2*(-768+u2*(320-175*u2)))
    B_=u2/1024*(256+u2*(-128+u2*(74-47*u2)))
    sg=s/(b*A_)
    for i in range(iters):
        tsm=2*s1+sg
        ds=B_*sin(sg)*(cos(tsm)+B_/4*(cos(sg)*(-1+2*cos(tsm)**2)-B_/6*cos(tsm)*(-3+4*sin(sg)**2)*(-3+4*cos(tsm)**2)))
        sg=s/(b*A_)+ds
    la2=atan2(sin(U1)*cos(sg)+cos(U1)*sin(sg)*cos(az),(1-f)*sqrt(sin(al)**2+(sin(U1)*sin(sg)-cos(U1)*cos(sg)*cos(az))**2))
    lam=atan2(sin(sg)*sin(az),cos(U1)*cos(sg)-sin(U1)*sin(sg)*cos(az))
    C=f/16*cos(al)**2*(4+f*(4-3*cos(al)**2))
    om=lam-(1-C)*f*sin(al)*(sg+C*sin(sg)*(cos(tsm)+C*cos(sg)*(-1+2*cos(tsm)**2)))
    az21=atan2(sin(al),-sin(U1)*sin(sg)+cos(U1)*cos(sg)*cos(az))*180/PI+180
    return rnd(11,la2*180/PI),rnd(11,lon1+om*180/PI),rnd(9,az21)
t=time.time()
res=explore(lambda: (S.CTX.pc.extend(pre), gd.vincdir(lat1,lon1,az,dist,ell))[1])
print('vincdir paths',len(res),round(time.time()-t,1))
for r,pc,d in res:
    iters=len(d)   # each decision = one loop test; exit at True
    if isinstance(r[0],str): print(d,r); continue
    ref=ref_dir(lat1,lon1,az,dist,SymReal(a_),SymReal(invf_),iters)
    for nm,c,rf in zip(('lat2','lon2','az21'),r,ref):
        s=z3.Solver(); s.set('timeout',60000); s.add(*pc); s.add(c.z!=rf.z); t=time.time(); rr=s.check(); print(d,nm,rr,round(time.time()-t,2),flush=True)
