"""Numeric sweeps (sampling, outside the technique) to learn whether the 'trusted remainder' hides real violations."""
import random, math, warnings
from geodepy.convert import geo2grid, grid2geo, llh2xyz, xyz2llh
from geodepy.geodesy import vincinv, vincdir
from geodepy.constants import grs80, intl24, ans, wgs84, Ellipsoid
random.seed(7)
ells={'grs80':grs80,'intl24':intl24,'f150':Ellipsoid(6378137,150),'f400':Ellipsoid(6378137,400)}
# C02 geo->grid->geo closure
for name,ell in ells.items():
    w=0;arg=None;wg=0
    for i in range(20000):
        lat=random.choice([random.uniform(-80,84),random.uniform(-80,-79.9),random.uniform(83.9,84),random.uniform(-1e-3,1e-3)])
        zone=random.randint(1,60); cm=zone*6-183
        dl=random.choice([random.uniform(-30,30),random.uniform(-3,3),0.0,30.0,-30.0])
        lon=cm+dl
        if not -180<=lon<=180: continue
        try:
            h,z,e,n,psf,gc=geo2grid(lat,lon,zone,ell)
            if not (-2830000<=e<=3830000): continue
            la,lo,p2,g2=grid2geo(z,e,n,h.lower(),ell)
        except Exception as ex:
            print(name,'EXC',lat,lon,zone,type(ex).__name__,ex); break
        d=max(abs(la-lat),abs(lo-lon))
        if d>w: w=d;arg=(lat,lon,zone)
        wg=max(wg,abs(p2-psf),)
    print('C02 closure',name,'worst deg %.2e'%w,arg,'psf fwd/inv diff %.1e'%wg)
# C03 closure incl poles, heights
for name,ell in ells.items():
    w=0;arg=None
    for i in range(20000):
        lat=random.choice([random.uniform(-90,90),90.0,-90.0,0.0,random.uniform(89.9,90),random.uniform(-1e-9,1e-9)])
        lon=random.uniform(-180,180); h=random.choice([0.0,random.uniform(-1e4,4e7),-1e4,4e7])
        if lat==0.0 and ell is not grs80: continue   # known defect
        x,y,z=llh2xyz(lat,lon,h,ell)
        if math.hypot(x,y)==0: continue
        try: la,lo,hh=xyz2llh(x,y,z,ell)
        except Exception as ex: print('EXC',lat,lon,h,ex); continue
        x2,y2,z2=llh2xyz(la,lo,hh,ell)
        d=math.dist((x,y,z),(x2,y2,z2))
        if d>w: w=d;arg=(lat,lon,h,hh)
    print('C03 closure',name,'worst m %.2e'%w,arg)
# C05: vincinv then vincdir closure, separation up to 178 deg
for name,ell in (('grs80',grs80),('f280',Ellipsoid(6378137,280)),('f320',Ellipsoid(6378137,320))):
    w=0;arg=None;nf=0
    for i in range(5000):
        lat1=random.uniform(-90,90); lon1=random.uniform(-180,180)
        lat2=random.choice([random.uniform(-90,90),-lat1+random.uniform(-3,3)]); lon2=random.choice([random.uniform(-180,180),lon1+180+random.uniform(-3,3)])
        lon2=(lon2+180)%360-180
        lat2=max(-90,min(90,lat2))
        # spherical separation
        c=math.sin(math.radians(lat1))*math.sin(math.radians(lat2))+math.cos(math.radians(lat1))*math.cos(math.radians(lat2))*math.cos(math.radians(lon2-lon1))
        sep=math.degrees(math.acos(max(-1,min(1,c))))
        if sep>178: continue
        try:
            s,a12,a21=vincinv(lat1,lon1,lat2,lon2,ell)
            la,lo,b=vincdir(lat1,lon1,a12,s,ell)
        except Exception as ex:
            nf+=1
            if nf<4: print('EXC',lat1,lon1,lat2,lon2,sep,type(ex).__name__,ex)
            continue
        d=ell.semimaj*math.hypot(math.radians(la-lat2),math.radians(((lo-lon2+180)%360-180))*math.cos(math.radians(lat2)))
        if d>w: w=d;arg=(lat1,lon1,lat2,lon2,sep)
    print('C05 inv->dir closure',name,'worst m %.2e'%w,arg,'exceptions',nf)
