from fractions import Fraction as F
import sympy as sp
n=sp.symbols('n')
import geodepy.convert as cv
class E: pass
e=E(); e.n=n
b=cv.beta_coeff(e)
BETA=[
 [F(1,2),F(-2,3),F(37,96),F(-1,360),F(-81,512),F(96199,604800),F(-5406467,38707200),F(7944359,67737600)],
 [F(1,48),F(1,15),F(-437,1440),F(46,105),F(-1118711,3870720),F(51841,1209600),F(24749483,348364800)],
 [F(17,480),F(-37,840),F(-209,4480),F(5569,90720),F(9261899,58060800),F(-6457463,17740800)],
 [F(4397,161280),F(-11,504),F(-830251,7257600),F(466511,2494800),F(324154477,7664025600)],
 [F(4583,161280),F(-108847,3991680),F(-8005831,63866880),F(22894433,124540416)],
 [F(20648693,638668800),F(-16363163,518918400),F(-2204645983,12915302400)],
 [F(219941297,5535129600),F(-497323811,12454041600)],
 [F(191773887257,3719607091200)]]
for j,row in enumerate(BETA):
    ref=-sum(sp.Rational(c.numerator,c.denominator)*n**(j+1+k) for k,c in enumerate(row))
    code=sp.expand(sp.nsimplify(b[j],rational=True))
    d=sp.expand(code-ref)
    print('b%d'%(2*j+2), 'diff:', d)
