"""Independent exact-geodesic oracle (auxiliary-sphere integrals, mpmath quadrature; Karney 2013 eqs 7-8)
and a check of the 'trusted remainder' for C04: distance between vincdir's end point and the exact one."""
import mpmath as mp, math, random, sys
mp.mp.dps = 30
from geodepy.geodesy import vincdir, vincinv
from geodepy.constants import Ellipsoid, grs80, intl24

def direct_exact(lat1, lon1, az1, s12, a, invf):
    a = mp.mpf(a); f = 1 / mp.mpf(invf); b = a * (1 - f); e2 = f * (2 - f); ep2 = e2 / (1 - e2)
    phi1 = mp.radians(lat1); al1 = mp.radians(az1)
    be1 = mp.atan((1 - f) * mp.tan(phi1))
    sa0 = mp.sin(al1) * mp.cos(be1); ca0 = mp.sqrt(1 - sa0 ** 2)          # alpha0 in [0, pi/2] by symmetry handled via signs below
    # sigma1: arc from equatorial node to point 1
    sig1 = mp.atan2(mp.sin(be1), mp.cos(al1) * mp.cos(be1))
    k2 = ep2 * ca0 ** 2
    I1 = lambda s: mp.quad(lambda t: mp.sqrt(1 + k2 * mp.sin(t) ** 2), [0, s])
    I3 = lambda s: mp.quad(lambda t: (2 - f) / (1 + (1 - f) * mp.sqrt(1 + k2 * mp.sin(t) ** 2)), [0, s])
    s1 = b * I1(sig1)
    sig2 = mp.findroot(lambda s: b * I1(s) - (s1 + s12), sig1 + s12 / b)
    be2 = mp.asin(ca0 * mp.sin(sig2))
    om1 = mp.atan2(sa0 * mp.sin(sig1), mp.cos(sig1)); om2 = mp.atan2(sa0 * mp.sin(sig2), mp.cos(sig2))
    # unwrap omega2 to follow sigma2
    om2 += 2 * mp.pi * mp.floor((sig2 - mp.atan2(mp.sin(sig2), mp.cos(sig2))) / (2 * mp.pi) + mp.mpf(1) / 2) if abs(sa0) > 0 else 0
    lam12 = (om2 - om1) - f * sa0 * (I3(sig2) - I3(sig1))
    phi2 = mp.atan(mp.tan(be2) / (1 - f))
    al2 = mp.atan2(sa0, ca0 * mp.cos(sig2))
    return float(mp.degrees(phi2)), float(lon1 + mp.degrees(lam12)), float(mp.degrees(al2))

def sep_m(lat_a, lon_a, lat_b, lon_b, a):
    # small separation on the ellipsoid surface, metres (local sphere approx is fine at mm level)
    dlat = math.radians(lat_a - lat_b); dlon = math.radians((lon_a - lon_b + 180) % 360 - 180)
    return a * math.hypot(dlat, dlon * math.cos(math.radians(lat_a)))

if __name__ == '__main__':
    random.seed(int(sys.argv[1]) if len(sys.argv) > 1 else 1)
    worst = {}
    for name, ell in (('grs80', grs80), ('intl24', intl24), ('f280', Ellipsoid(6378137, 280)), ('f320', Ellipsoid(6378137, 320))):
        w = 0; waz = 0; arg = None
        for i in range(40):
            lat1 = random.uniform(-89, 89); az = random.choice([0, 90, 180, 270, random.uniform(0, 360), random.uniform(0, 360)])
            s = random.choice([10 ** random.uniform(0, 7.3), random.uniform(1e6, 2e7), 2e7])
            la, lo, az2 = vincdir(lat1, 10.0, az, s, ell)
            xa, xo, xz = direct_exact(lat1, 10.0, az, s, ell.semimaj, ell.inversef)
            d = sep_m(la, lo, xa, xo, ell.semimaj)
            daz = abs(((az2 - (xz + 180)) + 180) % 360 - 180)
            if d > w: w = d; arg = (lat1, az, s)
            if abs(xa) < 89: waz = max(waz, daz)
        print(name, 'worst end-point error m: %.3e' % w, 'at', arg, ' worst reverse-azimuth error deg: %.2e' % waz, flush=True)
