"""Probe: exact-float (per binade) integer encoding of HP validity checks."""
import z3, time, sys
from fractions import Fraction as F

def query(e, ndec, want='viol'):
    q,m,r=z3.Ints('q m r')
    s=z3.Solver(); s.set('timeout',120000)
    sh=52-e
    P=2**sh
    s.add(q>=1, q<=720*10**13)
    s.add(m>=2**52, m<2**53)
    # hp = m/P ; RN(q/10^13)
    d=q*P - m*10**13
    s.add(2*d<=10**13, 2*d>=-10**13)
    # formatted integer r = RNint(hp*10^ndec)
    T=10**ndec
    dd=r*P - m*T
    s.add(2*dd<=P, 2*dd>=-P)
    s.add(z3.Implies(z3.Or(2*dd==P,2*dd==-P), r%2==0))
    MM=(q/(10**11))%100; SS=(q/(10**9))%100
    s.add(MM<=59, SS<=59)
    d0=(r/(10**(ndec-1)))%10; d2=(r/(10**(ndec-3)))%10
    s.add(z3.Or(d0>5,d2>5))
    t=time.time(); res=s.check(); dt=time.time()-t
    out=(e,ndec,str(res),round(dt,2))
    if res==z3.sat:
        mo=s.model(); qq=mo[q].as_long(); hp=qq/10**13
        out+=(qq, repr(hp), f'{hp:.{ndec}f}', float(F(mo[m].as_long(),P))==hp)
    return out

if __name__=='__main__':
    nd=int(sys.argv[1])
    for e in range(9,-6,-1):
        print(query(e,nd),flush=True)
