from geodepy.survey import first_vel_corrn, first_vel_params, va_conv
from geodepy.angles import dec2hp, hp2dec, HPAngle, DMSAngle
from geodepy.coord import CoordGeo

def chk_fvc(temp: float, pressure: float, hum: float) -> float:
    """
    pre: -20 <= temp <= 45 and 650 <= pressure <= 1100 and 0 <= hum <= 100
    post: True
    """
    return first_vel_corrn(1000.0, (281.8, 79.39), temp, pressure, hum, None, 420.0, 0.85)

def chk_hpa(d: int, m: int, s: int) -> float:
    """
    pre: 0 <= d < 360 and 0 <= m < 60 and 0 <= s < 60
    post: True
    """
    return HPAngle(d + m/100 + s/10000).hp_angle

def chk_dec2hp(x: float) -> float:
    """
    pre: 0 <= x <= 720
    post: abs(hp2dec(_) - x) < 1e-9
    """
    return dec2hp(x)

def chk_cart(lat: float, lon: float, h: float, o: float) -> bool:
    """
    pre: -80 < lat < 80 and -180 < lon < 180 and -100 <= h <= 100 and -100 <= o <= 100
    post: _
    """
    c = CoordGeo(lat, lon, h, o).cart()
    return c.nval == h - o
