"""Probe Q2: bounded abstraction of UF apps -> vars with ranges; tolerance-aware comparison under coefficient perturbation."""
import time, z3, sys, symreal as S, math
from fractions import Fraction as F
exec(open('p2.py').read().split('def run():')[0])
def run():
    S.CTX.pc.extend(pre)
    return cv.geo2grid(lat,lon,7,ell,prj)
res=explore(run)
r,pc,d=[x for x in res if x[0][0]=='South'][0]
def perturbed(delta_num):
    old=ALPHA[0][7]
    ALPHA[0][7]=old+F(delta_num)
    E,N=ref_geo2grid(lat,lon,7,SymReal(a_),SymReal(invf_),*[SymReal(v) for v in (FE,FN,k0,zw,cm1)], south=True)
    ALPHA[0][7]=old
    return E,N
def abstract(exprs, extra_ranges):
    """replace every UF application (bottom-up, maximal) by fresh var; returns new exprs, var ranges"""
    cache={}; cons=[]
    def go(e):
        if z3.is_app(e) and e.decl().kind()==z3.Z3_OP_UNINTERPRETED and e.num_args()>0:
            key=e.get_id()
            if key not in cache:
                v=z3.Real('u_%s_%d'%(e.decl().name(),len(cache)))
                cache[key]=v
                nm=e.decl().name()
                if nm in ('sin','cos'): cons.extend([v>=-1,v<=1])
                elif nm=='cosh': cons.extend([v>=1,v<=extra_ranges['cosh']])
                elif nm=='sinh': cons.extend([v>=-extra_ranges['sinh'],v<=extra_ranges['sinh']])
                elif nm=='sqrt': cons.extend([v>=0,v<=extra_ranges.get('sqrt',10)])
            return cache[key]
        if z3.is_app(e) and e.num_args()>0:
            return e.decl()(*[go(c) for c in e.children()])
        return e
    return [go(e) for e in exprs],cons,cache
# strip the round4 wrapper of code output: r[2].z = round4(X)
Xc=r[2].z.arg(0)
for delta in ('1/1000','10','100000'):
    E,N=perturbed(delta)
    (xc,xr),cons,cache=abstract([Xc,E.z],{'cosh':F(2e9),'sinh':F(2e9)})
    print('delta',delta,'abstract vars',len(cache))
    for name,mk in (('smt',lambda: z3.Solver()),('nlsat',lambda: z3.Tactic('qfnra-nlsat').solver())):
        s=mk(); s.set('timeout',60000)
        s.add(a_>6.3e6,a_<6.4e6,invf_>=150,invf_<=400,k0>0.9,k0<=1,*cons)
        D=xc-xr
        tol=z3.RealVal('1/20000')
        s.add(z3.Or(D>tol,D<-tol))
        t=time.time(); rr=s.check(); print(' ',name,rr,round(time.time()-t,2),flush=True)
