"""Prototype tracer: SymReal over z3 Reals, UF transcendental stubs, path forking by re-execution."""
import z3, math, fractions, types, importlib

class PathAbort(BaseException): pass

class Ctx:
    def __init__(self):
        self.decisions=[]      # replay prefix
        self.pos=0
        self.pc=[]
        self.axioms=[]
        self.solver=z3.Solver(); self.solver.set('timeout',300)
CTX=None

def toz(x):
    if isinstance(x, SymReal): return x.z
    if isinstance(x, bool): raise TypeError
    if isinstance(x, int): return z3.RealVal(x)
    if isinstance(x, float):
        return z3.RealVal(str(fractions.Fraction(repr(x))))   # decimal literal semantics
    if isinstance(x, fractions.Fraction): return z3.RealVal(str(x))
    raise TypeError(type(x))

class SymBool:
    def __init__(self,z): self.z=z
    def __bool__(self):
        c=CTX
        if c.pos < len(c.decisions):
            d=c.decisions[c.pos]
        else:
            # choose True first if feasible
            s=c.solver
            s.push(); s.add(*c.pc, self.z); rt=s.check(); s.pop()
            s.push(); s.add(*c.pc, z3.Not(self.z)); rf=s.check(); s.pop()
            if rt!=z3.unsat and rf!=z3.unsat:
                d=True; c.decisions.append(True); c.forks.append(len(c.decisions)-1)
            elif rt!=z3.unsat:
                d=True; c.decisions.append(True)
            elif rf!=z3.unsat:
                d=False; c.decisions.append(False)
            else: raise PathAbort()
        c.pos+=1
        c.pc.append(self.z if d else z3.Not(self.z))
        return d
    def __and__(s,o): return SymBool(z3.And(s.z, o.z if isinstance(o,SymBool) else z3.BoolVal(o)))
    def __or__(s,o): return SymBool(z3.Or(s.z, o.z if isinstance(o,SymBool) else z3.BoolVal(o)))
    def __invert__(s): return SymBool(z3.Not(s.z))

class SymReal:
    pass
    def __init__(self,z): self.z=z
    def _b(self,o,f):
        try: oz=toz(o)
        except TypeError: return NotImplemented
        return SymReal(f(self.z,oz))
    def _rb(self,o,f):
        try: oz=toz(o)
        except TypeError: return NotImplemented
        return SymReal(f(oz,self.z))
    def __add__(s,o): return s._b(o,lambda a,b:a+b)
    def __radd__(s,o): return s._rb(o,lambda a,b:a+b)
    def __sub__(s,o): return s._b(o,lambda a,b:a-b)
    def __rsub__(s,o): return s._rb(o,lambda a,b:a-b)
    def __mul__(s,o): return s._b(o,lambda a,b:a*b)
    def __rmul__(s,o): return s._rb(o,lambda a,b:a*b)
    def __truediv__(s,o): return s._b(o,lambda a,b:a/b)
    def __rtruediv__(s,o): return s._rb(o,lambda a,b:a/b)
    def __neg__(s): return SymReal(-s.z)
    def __pos__(s): return s
    def __abs__(s): return SymReal(z3.If(s.z>=0,s.z,-s.z))
    def __pow__(s,o):
        if isinstance(o,int) and o>=0:
            r=z3.RealVal(1)
            for _ in range(o): r=r*s.z
            return SymReal(r)
        if o==0.5: return sym_sqrt(s)
        if o==1.5: return s*sym_sqrt(s)
        raise TypeError('pow %r'%o)
    def _c(self,o,f):
        return SymBool(f(self.z,toz(o)))
    def __lt__(s,o): return s._c(o,lambda a,b:a<b)
    def __le__(s,o): return s._c(o,lambda a,b:a<=b)
    def __gt__(s,o): return s._c(o,lambda a,b:a>b)
    def __ge__(s,o): return s._c(o,lambda a,b:a>=b)
    def __eq__(s,o): return s._c(o,lambda a,b:a==b)
    def __ne__(s,o): return s._c(o,lambda a,b:a!=b)
    __hash__=None
    def __round__(s,n=None):
        f=z3.Function('round%s'%n, z3.RealSort(), z3.RealSort())
        return SymReal(f(s.z))
    def __repr__(s): return 'SymReal(%s)'%s.z

R=z3.RealSort()
_uf={}
def uf(name,arity=1):
    if name not in _uf: _uf[name]=z3.Function(name,*([R]*arity),R)
    return _uf[name]
PI=z3.Real('PI')
def mk1(name):
    pyf=getattr(math,name)
    def f(x):
        if isinstance(x,SymReal): return SymReal(uf(name)(x.z))
        return pyf(x)
    return f
def sym_sqrt(x):
    if isinstance(x,SymReal): return SymReal(uf('sqrt')(x.z))
    return math.sqrt(x)
def sym_radians(x):
    if isinstance(x,SymReal): return SymReal(x.z*PI/180)
    return math.radians(x)
def sym_degrees(x):
    if isinstance(x,SymReal): return SymReal(x.z*180/PI)
    return math.degrees(x)
def sym_atan2(y,x):
    if isinstance(x,SymReal) or isinstance(y,SymReal): return SymReal(uf('atan2',2)(toz(y),toz(x)))
    return math.atan2(y,x)
def sym_float(x):
    if isinstance(x,SymReal): return x
    return float(x)
def sym_int(x):
    if isinstance(x,SymReal): return SymReal(z3.ToReal(z3.ToInt(x.z)))  # floor; caller must ensure nonneg
    return int(x)
STUBS=dict(sin=mk1('sin'),cos=mk1('cos'),tan=mk1('tan'),atan=mk1('atan'),sinh=mk1('sinh'),cosh=mk1('cosh'),
           log=mk1('log'),asin=mk1('asin'),acos=mk1('acos'),exp=mk1('exp'),sqrt=sym_sqrt,radians=sym_radians,degrees=sym_degrees,atan2=sym_atan2,
           float=sym_float)

def patch(mod):
    saved={}
    for k,v in STUBS.items():
        if k in mod.__dict__ or k in ('float',):
            saved[k]=mod.__dict__.get(k,None); mod.__dict__[k]=v
    return saved

def explore(fn, maxpaths=200):
    """run fn() under all feasible decision sequences; yields (result, pc)"""
    global CTX
    work=[[]]; out=[]
    while work and len(out)<maxpaths:
        pref=work.pop()
        c=Ctx(); c.decisions=list(pref); c.forks=[]; CTX=c
        try:
            r=fn()
        except PathAbort:
            r=None
        except Exception as ex:
            r=('EXC',type(ex).__name__,str(ex)[:60])
        if r is not None: out.append((r,list(c.pc),list(c.decisions)))
        for i in c.forks:
            if i>=len(pref):
                work.append(c.decisions[:i]+[False])
    return out
