"""Synthetic NTv2 (.gsb) writer + concrete exploration of geodepy.ntv2reader (C17 expectations)."""
import struct, os, tempfile, math, shutil
import numpy as np
from geodepy.ntv2reader import read_ntv2_file, interpolate_ntv2
from geodepy.transform import ntv2_2d

def rec_str(k, v): return k.ljust(8).encode() + v.ljust(8).encode()
def rec_int(k, v): return k.ljust(8).encode() + struct.pack('<i', v) + b'\x00' * 4
def rec_dbl(k, v): return k.ljust(8).encode() + struct.pack('<d', v)
def write_gsb(path, subgrids):
    """subgrids: list of dict(name,parent,s_lat,n_lat,e_long,w_long,lat_inc,long_inc,field(lat_sec,lonW_sec)->4 floats)"""
    with open(path, 'wb') as f:
        f.write(rec_int('NUM_OREC', 11) + rec_int('NUM_SREC', 11) + rec_int('NUM_FILE', len(subgrids)) + rec_str('GS_TYPE', 'SECONDS') +
                rec_str('VERSION', 'TEST') + rec_str('SYSTEM_F', 'AAA') + rec_str('SYSTEM_T', 'BBB') + rec_dbl('MAJOR_F', 6378160.0) +
                rec_dbl('MINOR_F', 6356774.719) + rec_dbl('MAJOR_T', 6378137.0) + rec_dbl('MINOR_T', 6356752.314))
        for g in subgrids:
            nrow = int(round((g['n_lat'] - g['s_lat']) / g['lat_inc'])) + 1
            ncol = int(round((g['w_long'] - g['e_long']) / g['long_inc'])) + 1
            f.write(rec_str('SUB_NAME', g['name']) + rec_str('PARENT', g['parent']) + rec_str('CREATED', '01012020') + rec_str('UPDATED', '02012020') +
                    rec_dbl('S_LAT', g['s_lat']) + rec_dbl('N_LAT', g['n_lat']) + rec_dbl('E_LONG', g['e_long']) + rec_dbl('W_LONG', g['w_long']) +
                    rec_dbl('LAT_INC', g['lat_inc']) + rec_dbl('LONG_INC', g['long_inc']) + rec_int('GS_COUNT', nrow * ncol))
            for r in range(nrow):
                for c in range(ncol):
                    v = g['field'](g['s_lat'] + r * g['lat_inc'], g['e_long'] + c * g['long_inc'])
                    f.write(struct.pack('<4f', *v))
        f.write(rec_str('END', ''))

d = tempfile.mkdtemp(dir='/verif/probes')
try:
    # affine field, exactly representable in float32: values small integers/halves
    aff = lambda la, lo: (0.5 + la / 3600.0 * 0.25 + lo / 3600.0 * 0.125, 1.0 - la / 3600.0 * 0.5, 2.0, 3.0)
    quad = lambda la, lo: ((la / 3600.0 + 30) ** 2 * 0.25 + (la / 3600.0 + 30) * (lo / 3600.0 + 140) * 0.5, (lo / 3600.0 + 140) ** 2 * 0.125, 0.0, 0.0)
    # parent: lat -40..-30, lonW -150..-140 (i.e. 140E..150E -> positive-west values negative), 1 degree spacing
    P = dict(name='PARENT', parent='NONE', s_lat=-40 * 3600.0, n_lat=-30 * 3600.0, e_long=-150 * 3600.0, w_long=-140 * 3600.0, lat_inc=3600.0, long_inc=3600.0, field=aff)
    C = dict(name='CHILD', parent='PARENT', s_lat=-36 * 3600.0, n_lat=-34 * 3600.0, e_long=-147 * 3600.0, w_long=-145 * 3600.0, lat_inc=900.0, long_inc=900.0,
             field=lambda la, lo: tuple(x + 100 for x in aff(la, lo)))
    p = os.path.join(d, 't.gsb'); write_gsb(p, [P, C])
    g = read_ntv2_file(p)
    print('header', g.num_orec, g.num_srec, g.num_file, g.gs_type, g.version, g.system_f, g.system_t, g.major_f, g.minor_t)
    for sg in g.subgrids.values(): print(' sub', sg.sub_name, sg.parent, sg.created, sg.s_lat, sg.n_lat, sg.e_long, sg.w_long, sg.lat_inc, sg.long_inc, sg.gs_count)
    def truth(field, lat, lon): return field(lat * 3600.0, -lon * 3600.0)
    for (lat, lon, note) in ((-37.25, 142.6, 'parent interior'), (-38.0, 143.0, 'node'), (-35.3, 145.6, 'child interior'), (-39.5, 140.5, 'parent first cell (SE corner ring)'),
                             (-30.5, 149.5, 'parent last cell'), (-35.0, 146.0, 'child node'), (-36.0, 145.0, 'child SW corner'), (-29.0, 145.0, 'outside'), (-30.0, 145.0, 'on N edge')):
        for m in ('bilinear', 'bicubic'):
            try: r = interpolate_ntv2(g, lat, lon, m)
            except Exception as ex: r = 'EXC %s %s' % (type(ex).__name__, ex)
            inchild = -36 <= lat < -34 and 145 < lon <= 147
            tv = truth(C['field'] if inchild else aff, lat, lon)
            print('%-34s %-8s' % (note, m), r if isinstance(r, str) else tuple(None if x is None else round(x, 6) for x in r[:2]), ' truth', tuple(round(x, 6) for x in tv[:2]))
    print('ntv2_2d fwd', ntv2_2d(g, -37.25, 142.6, True, 'bilinear'), 'expected', (-37.25 + truth(aff, -37.25, 142.6)[0] / 3600, 142.6 - truth(aff, -37.25, 142.6)[1] / 3600))
    try: print(ntv2_2d(g, -29.0, 145.0))
    except Exception as ex: print('outside ->', type(ex).__name__, ex)
    # bi-quadratic single grid
    Q = dict(P); Q['field'] = quad; p2 = os.path.join(d, 'q.gsb'); write_gsb(p2, [Q]); g2 = read_ntv2_file(p2)
    for (lat, lon) in ((-35.4, 145.3), (-33.7, 147.9)):
        r = interpolate_ntv2(g2, lat, lon, 'bicubic'); print('biquadratic bicubic', tuple(round(x, 5) for x in r[:2]), 'truth', tuple(round(x, 5) for x in truth(quad, lat, lon)[:2]))
finally:
    shutil.rmtree(d)
