import z3, time, math
xi1=z3.Real('xi1')
S=[z3.Real('s%d'%j) for j in range(1,9)]; C=[z3.Real('c%d'%j) for j in range(1,9)]; A=[z3.Real('a%d'%j) for j in range(1,9)]
n=0.00335
amax=[0.5*n*1.01, 13/48*n**2*1.01, 61/240*n**3*1.05, 49561/161280*n**4*1.05, 34729/80640*n**5*1.1, 212378941/319334400*n**6*1.1, 1522256789/1383782400*n**7*1.1, 1424729850961/743921418240*n**8*1.1]
hyp=[]
for j in range(1,9):
    hyp+= [S[j-1]<=2*j*z3.If(xi1>=0,xi1,-xi1), S[j-1]>=-2*j*z3.If(xi1>=0,xi1,-xi1), C[j-1]>=1, C[j-1]<=math.cosh(2*j*0.5494)*1.0001, A[j-1]>=-amax[j-1], A[j-1]<=amax[j-1]]
xi=xi1+sum(A[j]*S[j]*C[j] for j in range(8))
for name,mk in (('smt',z3.Solver),('nlsat',lambda: z3.Tactic('qfnra-nlsat').solver())):
    s=mk(); s.set('timeout',60000); s.add(*hyp); s.add(z3.Or(z3.And(xi1>0,xi<=0),z3.And(xi1<0,xi>=0))); t=time.time(); print(name,s.check(),round(time.time()-t,2))
