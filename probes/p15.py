"""Probe C17: node addressing of ntv2 bilinear/bicubic with a position-tracking stub file."""
import time, z3, sys, symreal as S
from symreal import SymReal, explore
import geodepy.ntv2reader as nr
S.patch(nr)
nr.int=S.sym_int
node=z3.Function('node',z3.RealSort(),z3.RealSort())   # value stored at byte offset
READS=[]
class Tok:
    def __init__(s,pos,n): s.pos=pos; s.n=n
class FakeFile:
    def __init__(s): s.pos=z3.RealVal(0)
    def seek(s,off,wh=0):
        o=S.toz(off)
        s.pos = s.pos+o if wh==1 else o
    def read(s,n):
        t=Tok(s.pos,n); s.pos=s.pos+n; return t
    def __enter__(s): return s
    def __exit__(s,*a): return False
class FakeStruct:
    @staticmethod
    def unpack(fmt,tok):
        READS.append(tok.pos)
        return (SymReal(node(tok.pos)),)
nr.struct=FakeStruct
nr.open=lambda *a,**k: FakeFile()
def run(method,ncols,nrows):
    # one sub-grid, preceded by one other sub-grid with cnt0 nodes
    s_lat,e_long,lat_inc,long_inc,cnt0=[z3.Real(n) for n in 's_lat e_long lat_inc long_inc cnt0'.split()]
    lat,lon=z3.Real('lat'),z3.Real('lon')   # degrees, lon degrees east (code multiplies by -3600)
    g=nr.NTv2Grid(11,11,2,'SECONDS','v','A','B',1,1,1,1,'f')
    n_lat=s_lat+(nrows-1)*lat_inc; w_long=e_long+(ncols-1)*long_inc
    far=nr.SubGrid('OTHER','NONE','','',SymReal(s_lat-1000000),SymReal(s_lat-999999),SymReal(e_long),SymReal(w_long),SymReal(lat_inc),SymReal(long_inc),SymReal(cnt0))
    sg=nr.SubGrid('SG','NONE','','',SymReal(s_lat),SymReal(n_lat),SymReal(e_long),SymReal(w_long),SymReal(lat_inc),SymReal(long_inc),nrows*ncols)
    g.subgrids={'OTHER':far,'SG':sg}
    pre=[lat_inc>=30,lat_inc<=3600,long_inc>=30,long_inc<=3600,cnt0>=0,z3.ToReal(z3.ToInt(cnt0))==cnt0,
         lat*3600>=s_lat,lat*3600<n_lat,lon*-3600>=e_long,lon*-3600<w_long]
    def f():
        S.CTX.pc.extend(pre); READS.clear()
        r=nr.interpolate_ntv2(g,SymReal(lat),SymReal(lon),method)
        return r,list(READS)
    res=explore(f)
    base=176+176+16*cnt0+176
    out=[]
    for (r,reads),pc,d in [x for x in res if not isinstance(x[0][0],str)]:
        # claim: every read offset = base + 16*(rr*ncols+cc) + 4*k with 0<=rr<nrows, 0<=cc<ncols
        bad=[]
        for p in reads:
            idx=(p-base)/16
            rr=z3.ToInt(idx/ncols)
            inb=z3.And(p>=base, p<base+16*nrows*ncols)
            bad.append(z3.Not(inb))
        s=z3.Solver(); s.set('timeout',60000); s.add(*pc); s.add(z3.Or(*bad)); t=time.time(); rr_=s.check()
        o=[method,ncols,nrows,len(reads),str(rr_),round(time.time()-t,2)]
        if rr_==z3.sat:
            m=s.model(); print('PC',len(pc),[str(p)[:60] for p in pc[:12]]); print({str(v):str(m[v])[:12] for v in m.decls() if v.arity()==0}); row=m.eval((z3.Real('lat')*3600-s_lat)/lat_inc); col=m.eval((z3.Real('lon')*-3600-e_long)/long_inc)
            o+=['row~',str(row)[:8],'col~',str(col)[:8]]
        out.append(o)
    return out,[x[0] for x in res if isinstance(x[0][0],str)]
for method in ('bilinear','bicubic'):
    for nc,nr_ in ((3,3),(5,4)):
        t=time.time(); o,exc=run(method,nc,nr_); print(o,exc,round(time.time()-t,1),flush=True)

# debug
s_lat,e_long,lat_inc,long_inc,cnt0=[z3.Real(n) for n in 's_lat e_long lat_inc long_inc cnt0'.split()]
