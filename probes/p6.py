import geodepy.constants as K, re, itertools
from fractions import Fraction as F
from datetime import date
T={n:v for n,v in vars(K).items() if isinstance(v,K.Transformation)}
print(len(T))
# labels vs names
def norm(s): return s.lower()
bad=[]
for n,t in T.items():
    m=re.match(r'^([a-z]+\d+)_to_([a-z]+\d+)(_.*)?$',n)
    if not m: bad.append((n,'name')); continue
    if norm(t.from_datum)!=m.group(1) or norm(t.to_datum)!=m.group(2): bad.append((n,t.from_datum,t.to_datum))
print('label mismatches',bad)
P=['tx','ty','tz','sc','rx','ry','rz']
def at(t,ep):
    dt=F((ep-t.ref_epoch).days)/F('365.25')
    return [F(repr(getattr(t,p)))+F(repr(getattr(t,'d_'+p)))*dt for p in P],[F(repr(getattr(t,'d_'+p))) for p in P]
itrf={n:t for n,t in T.items() if n.startswith('itrf') and '_to_itrf' in n and not n.endswith('_vel')}
print(len(itrf))
epochs=sorted({t.ref_epoch for t in itrf.values()})
print(epochs)
tolp=[F('0.00015')]*3+[F('0.000015')]+[F('0.000015')]*3
trip=0; fails={}
for (n1,t1),(n2,t2) in itertools.product(itrf.items(),repeat=2):
    if t1.to_datum!=t2.from_datum or t1.from_datum==t2.to_datum: continue
    n3=f'{t1.from_datum.lower()}_to_{t2.to_datum.lower()}'
    if n3 not in itrf: continue
    trip+=1
    t3=itrf[n3]
    for ep in epochs:
        a,ra=at(t1,ep); b,rb=at(t2,ep); c,rc=at(t3,ep)
        for i,p in enumerate(P):
            d=abs(a[i]+b[i]-c[i]); dr=abs(ra[i]+rb[i]-rc[i])
            if d>tolp[i] or dr>tolp[i]:
                fails.setdefault((n1,n2,n3),[]).append((ep.year,p,float(d),float(dr)))
print('triples',trip,'failing',len(fails))
from collections import Counter
c=Counter()
for k,v in fails.items():
    for n in k: c[n]+=1
print(c.most_common(12))
for k,v in list(fails.items())[:6]: print(k,v[:3])
# exclude any triple involving itrf2008_to_itrf93 / reverse
f2={k:v for k,v in fails.items() if not any('itrf2008_to_itrf93'==n or 'itrf93_to_itrf2008'==n for n in k)}
print('failing w/o 2008-93:',len(f2))
c=Counter()
for k,v in f2.items():
    for n in k: c[n]+=1
print(c.most_common(12))
for k,v in list(f2.items())[:10]: print(k,sorted(v,key=lambda x:-max(x[2],x[3]))[:2])
