"""Probe: F-model (exact double, LIA) of dec2hp for one input binade / degree chunk."""
import z3, time, sys
from fractions import Fraction as F
from geodepy.angles import dec2hp

def query(e, s_, lo, hi, fixed=False, timeout=120000):
    # x = m*2^(e-52) in [lo,hi) degrees (rationals), s1 = RN(3600 x) in binade e+s_
    m,m1,k1,r1,deg,mn,R=z3.Ints('m m1 k1 r1 deg mn R')
    s=z3.Solver(); s.set('timeout',timeout)
    sh=52-e                      # x = m / 2^sh
    s.add(m>=2**52,m<2**53)
    s.add(m>=int(F(lo)*2**sh), m<int(F(hi)*2**sh)+1)
    # s1 = m1 * 2^(e+s_-52): |3600 m - m1 2^s_| <= 2^(s_-1), tie->even
    s.add(m1>=2**52,m1<2**53)
    dd=3600*m-m1*2**s_
    s.add(2*dd<=2**s_,2*dd>=-2**s_)
    s.add(z3.Implies(z3.Or(2*dd==2**s_,2*dd==-2**s_),m1%2==0))
    e1=e+s_; U=2**(52-e1)        # s1 = m1/U  (e1<=21 so U>=2^31)
    s.add(k1>=0,r1>=0,r1<60*U,m1==60*U*k1+r1)     # divmod(s1,60): second=r1/U
    s.add(deg>=0,mn>=0,mn<60,k1==60*deg+mn)
    # R = RNint(second*1e9) = RNint(r1*1e9/U)
    d2=R*U-r1*10**9
    s.add(2*d2<=U,2*d2>=-U)
    s.add(z3.Implies(z3.Or(2*d2==U,2*d2==-U),R%2==0))
    carry=R==60*10**9
    if fixed:   # hypothetical repaired code: carry minute->degree as well
        mn2=z3.If(carry,z3.If(mn==59,0,mn+1),mn); deg2=z3.If(z3.And(carry,mn==59),deg+1,deg)
    else:
        mn2=z3.If(carry,mn+1,mn); deg2=deg
    R2=z3.If(carry,0,R)
    # claim: mn2<=59, R2 < 60e9, |deg2*3600e9 + mn2*60e9 + R2 - x*3600e9| <= 10 (1e-8 arcsec in 1e-9 units)
    # x*3600e9 = m*3600e9/2^sh
    P=2**sh
    lhs=(deg2*3600*10**9+mn2*60*10**9+R2)*P - m*3600*10**9
    s.add(z3.Or(mn2>59, R2>=60*10**9, lhs>10*P, lhs<-10*P))
    t=time.time(); r=s.check(); dt=time.time()-t
    out=[e,s_,float(lo),float(hi),'fixed' if fixed else 'code',str(r),round(dt,2)]
    if r==z3.sat:
        mo=s.model(); x=float(F(mo[m].as_long(),P)); out+=[repr(x),repr(dec2hp(x))]
    return out
if __name__=='__main__':
    for fixed in (False,True):
        for (e,lo,hi) in ((-1,F(1,2),1),(0,1,2),(3,8,12),(6,64,68),(9,512,516),(9,716,720)):
            for s_ in (11,12):
                print(query(e,s_,lo,hi,fixed),flush=True)
