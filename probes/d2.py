"""Concrete confirmation of defects suspected from reading (C13, C14, C15, C17, C18, C20)."""
import sys, types, os, tempfile, warnings, traceback
import numpy as np
def t(f,*a,**k):
    try: return f(*a,**k)
    except Exception as e: return 'EXC %s: %s'%(type(e).__name__,str(e)[:80])
from geodepy.coord import CoordGeo, CoordCart, CoordTM
from geodepy.constants import isg, ans, utm, grs80
from geodepy.convert import geo2grid, grid2geo
from geodepy.angles import DECAngle, DMSAngle, HPAngle
print('--- C15')
g=CoordGeo(-33.5,151.0,0.0,5.0)
print('cart nval (expect -5):', t(lambda: g.cart().nval))
print('CoordCart nval=0 ->', CoordCart(1,2,3,0.0).nval)
print('notation float->float:', t(lambda: CoordGeo(-33.5,151.0).notation(float)))
print('notation float->DMS:', t(lambda: CoordGeo(-33.5,151.0).notation(DMSAngle)))
print('tm with isg:', t(lambda: (CoordGeo(-33.5,151.0).tm(ans,isg).east, geo2grid(-33.5,151.0,0,ans,isg)[2])))
tm=CoordTM(561,300000.0,1292007.1277,None,None,False,isg)
with warnings.catch_warnings():
    warnings.simplefilter('ignore')
    print('CoordTM(isg).geo:', t(lambda: (tm.geo(ans).lat, grid2geo(561,300000.0,1292007.1277,'south',ans,isg)[0])))
print('geo HP notation:', t(lambda: CoordCart(-4052051.0,4212836.0,-2545106.0).geo(notation=HPAngle)))
print('--- C13/C14')
from geodepy.transform import transform_mga94_to_mga2020, transform_mga2020_to_mga94
v=np.diag([1e-4,2e-4,3e-4])
r=t(transform_mga94_to_mga2020,53,386352.3979,7381850.7689,587.5814,v)
print('mga94->2020 with vcv:', r if isinstance(r,str) else (r[:4], np.allclose(r[4],r[4].T), np.linalg.eigvalsh(r[4])))
r=t(transform_mga94_to_mga2020,53,386352.3979,7381850.7689,0.0)
print('height 0.0 given ->', r if isinstance(r,str) else r[:4])
from geodepy.geodesy import vincinv_utm, vincdir_utm
print('vincinv_utm north:', t(vincinv_utm,31,500000.0,5000000.0,31,510000.0,5010000.0,'north'))
print('vincdir_utm north:', t(vincdir_utm,31,500000.0,5000000.0,45.0,14142.0,'north'))
print('vincdir_utm south:', t(vincdir_utm,55,500000.0,5000000.0,45.0,14142.0))
print('--- C20')
from api.app import app
c=app.test_client()
for q in ({'lat1':-37.5,'lon1':144.2,'lat2':-37.3,'lon2':143.5},{'lat1':-37.57037203,'lon1':144.25295244,'lat2':-37.39101561,'lon2':143.5535383,'from_angle_type':'dms'},
          {'lat1':-37.3,'lon1':144.25295244,'lat2':-37.39101561,'lon2':143.5535383,'from_angle_type':'dms','to_angle_type':'dms'}):
    r=c.get('/vincinv',query_string=q); print(r.status_code, r.data[:120])
print(c.get('/').data)
print('--- C18')
sys.modules['pandas']=types.ModuleType('pandas')
import geodepy.gnss as gn
snx="""%=SNX 2.02 AUS 20:001:00000 IGS 20:001:00000 20:002:00000 P 00006 2 S
+FILE/COMMENT
 test
-FILE/COMMENT
+SITE/ID
*CODE PT __DOMES__ T _STATION DESCRIPTION__ _LONGITUDE_ _LATITUDE__ HEIGHT_
 ALIC  A 50137M001 P Alice Springs AU       133 53  7.8 -23 40 12.4  603.2
 DARW  A 50134M001 P Darwin AU              131  7 57.8 -12 50 37.3  125.1
-SITE/ID
+SOLUTION/EPOCHS
*CODE PT SOLN T _DATA_START_ __DATA_END__ _MEAN_EPOCH_
 ALIC  A    1 P 20:001:00000 20:002:00000 20:001:43200
 DARW  A    1 P 20:001:00000 20:002:00000 20:001:43200
-SOLUTION/EPOCHS
+SOLUTION/ESTIMATE
*INDEX TYPE__ CODE PT SOLN _REF_EPOCH__ UNIT S __ESTIMATED VALUE____ _STD_DEV___
     1 STAX   ALIC  A    1 20:001:43200 m    2 -4.05205147000000e+06 1.00000e-03
     2 STAY   ALIC  A    1 20:001:43200 m    2  4.21283605000000e+06 1.00000e-03
     3 STAZ   ALIC  A    1 20:001:43200 m    2 -2.54510600000000e+06 1.00000e-03
     4 STAX   DARW  A    1 20:001:43200 m    2 -4.09135900000000e+06 1.00000e-03
     5 STAY   DARW  A    1 20:001:43200 m    2  4.68460600000000e+06 1.00000e-03
     6 STAZ   DARW  A    1 20:001:43200 m    2 -1.40858000000000e+06 1.00000e-03
-SOLUTION/ESTIMATE
+SOLUTION/MATRIX_ESTIMATE L COVA
*PARA1 PARA2 ____PARA2+0__________ ____PARA2+1__________ ____PARA2+2__________
     1     1  1.10000000000000e-06
     2     1  2.10000000000000e-07  2.20000000000000e-06
     3     1  3.10000000000000e-07  3.20000000000000e-07  3.30000000000000e-06
     4     1  4.10000000000000e-07  4.20000000000000e-07  4.30000000000000e-07
     4     4  4.40000000000000e-06
     5     1  5.10000000000000e-07  5.20000000000000e-07  5.30000000000000e-07
     5     4  5.40000000000000e-07  5.50000000000000e-06
     6     1  6.10000000000000e-07  6.20000000000000e-07  6.30000000000000e-07
     6     4  6.40000000000000e-07  6.50000000000000e-07  6.60000000000000e-06
-SOLUTION/MATRIX_ESTIMATE
%ENDSNX
"""
d=tempfile.mkdtemp(dir='/verif/probes'); os.chdir(d)
open('in.snx','w').write(snx)
print('estimate:', t(gn.read_sinex_estimate,'in.snx')[:1])
print('matrix:', t(gn.read_sinex_matrix,'in.snx')[:1])
print('sites:', t(gn.read_sinex_sites,'in.snx')[:1])
r=t(gn.remove_stns_sinex,'in.snx',['ALIC']); print('remove_stns ->',r)
if os.path.exists('output.snx'):
    out=open('output.snx').read(); print(out[:100].splitlines()[0]); print('TAIL:',repr(out[-160:]))
r=t(gn.remove_matrixzeros_sinex,'in.snx'); print('remove_zeros ->',r)
if os.path.exists('output.snx'):
    out=open('output.snx').read(); print('TAIL:',repr(out[-260:]))
import shutil; os.chdir('/verif/probes'); shutil.rmtree(d)
