import time, z3, sys, symreal as S
from fractions import Fraction as F
from symreal import SymReal, explore
import geodepy.convert as cv, geodepy.constants as K, geodepy.angles as A
S.patch(cv)
cv.angular_typecheck=lambda a: a if isinstance(a,SymReal) else A.angular_typecheck(a)
K.sqrt=S.sym_sqrt; K.float=S.sym_float
a_=z3.Real('a'); invf_=z3.Real('invf')
ell=K.Ellipsoid(SymReal(a_),SymReal(invf_))
FE,FN,k0,zw,cm1=[z3.Real(n) for n in 'FE FN k0 zw cm1'.split()]
prj=K.Projection(*[SymReal(v) for v in (FE,FN,k0,zw,cm1)])
lat=SymReal(z3.Real('lat')); lon=SymReal(z3.Real('lon'))
pre=[lat.z>=-80, lat.z<=84, lon.z>=-180, lon.z<=180, a_>6.3e6, a_<6.4e6, invf_>=150, invf_<=400, S.PI>3.14159, S.PI<3.1416,
     k0>0.9, k0<=1, zw>0]

# ---------- reference model (Karney 2011 eq 35; written independently, real arithmetic, same UFs)
ALPHA = [
 [F(1,2), F(-2,3), F(5,16), F(41,180), F(-127,288), F(7891,37800), F(72161,387072), F(-18975107,50803200)],
 [F(13,48), F(-3,5), F(557,1440), F(281,630), F(-1983433,1935360), F(13769,28800), F(148003883,174182400)],
 [F(61,240), F(-103,140), F(15061,26880), F(167603,181440), F(-67102379,29030400), F(79682431,79833600)],
 [F(49561,161280), F(-179,168), F(6601661,7257600), F(97445,49896), F(-40176129013,7664025600)],
 [F(34729,80640), F(-3418889,1995840), F(14644087,9123840), F(2605413599,622702080)],
 [F(212378941,319334400), F(-30705481,10378368), F(175214326799,58118860800)],
 [F(1522256789,1383782400), F(-16759934899,3113510400)],
 [F(1424729850961,743921418240)],
]
sin,cos,tan,atan,sinh,cosh,log,sqrt=[S.STUBS[k] for k in 'sin cos tan atan sinh cosh log sqrt'.split()]
def ref_geo2grid(latd, lond, zone, a, invf, FE, FN, k0, zw, cm1, south):
    f = 1/invf
    n = f/(2-f)
    e2 = f*(2-f); e = sqrt(e2)
    A_ = a/(1+n)*(1 + n**2/4 + n**4/64 + n**6/256 + 25*n**8/16384)
    al=[]
    for j,row in enumerate(ALPHA):
        s=0
        for k,c in enumerate(row):
            s = s + c*n**(j+1+k)
        al.append(s)
    phi = latd*SymReal(S.PI)/180
    cm = (zone-1)*zw + cm1
    dl = (lond-cm)*SymReal(S.PI)/180
    t = tan(phi)
    sigx = e*t/sqrt(1+t**2)
    sg = sinh(e*(0.5*log((1+sigx)/(1-sigx))))
    tp = t*sqrt(1+sg**2) - sg*sqrt(1+t**2)
    chi = atan(tp)
    xi1 = atan(tan(chi)/cos(dl))
    u = sin(dl)/sqrt(tan(chi)**2 + cos(dl)**2)
    eta1 = log(u + sqrt(1+u**2))
    xi=xi1; eta=eta1
    for j in range(1,9):
        xi = xi + al[j-1]*sin(2*j*xi1)*cosh(2*j*eta1)
        eta = eta + al[j-1]*cos(2*j*xi1)*sinh(2*j*eta1)
    E = FE + k0*A_*eta
    N = k0*A_*xi + (FN if south else 0)
    return E,N

def run():
    S.CTX.pc.extend(pre)
    return cv.geo2grid(lat,lon,7,ell,prj)
t=time.time()
res=explore(run)
print('paths',len(res),time.time()-t)
rnd4=z3.Function('round4',z3.RealSort(),z3.RealSort())
seen=set()
for r,pc,d in res:
    hemi=r[0]
    key=hemi
    if key in seen: continue
    seen.add(key)
    E,N=ref_geo2grid(lat,lon,7,SymReal(a_),SymReal(invf_),*[SymReal(v) for v in (FE,FN,k0,zw,cm1)], south=(hemi=='South'))
    for name,code,ref in (('east',r[2],E),('north',r[3],N)):
        s=z3.Solver(); s.set('timeout',60000)
        s.add(*pc)
        s.add(code.z != rnd4(ref.z))
        t=time.time(); rr=s.check(); print(hemi,name,rr,round(time.time()-t,2))
        if rr==z3.sat:
            m=s.model(); print({str(v):m[v] for v in m.decls() if v.arity()==0})

# vacuity + sensitivity
r,pc,d=res[0]
s=z3.Solver(); s.set('timeout',60000); s.add(*pc); t=time.time(); print('pc alone', s.check(), time.time()-t)
ALPHA[0][7]=F(-18975107,50803201)
E,N=ref_geo2grid(lat,lon,7,SymReal(a_),SymReal(invf_),*[SymReal(v) for v in (FE,FN,k0,zw,cm1)], south=(r[0]=='South'))
s=z3.Solver(); s.set('timeout',120000); s.add(*pc); s.add(r[2].z != rnd4(E.z)); t=time.time(); rr=s.check(); print('mutated ref', rr, time.time()-t)
if rr==z3.sat:
    m=s.model(); print({str(v):m[v] for v in m.decls() if v.arity()==0})
