#!/bin/bash
# Offline setup: solver packages from the local wheelhouse into /verif/.deps (nothing else is touched),
# then translator validation (the repository's own tests run through the instrumented importer).
set -e
cd "$(dirname "$0")"
VERIF="$(pwd)"
(
  flock 9
  if [ ! -f "$VERIF/.deps/.ok" ]; then
    rm -rf "$VERIF/.deps"
    PIP_NO_INDEX=1 /venv/bin/pip install -q --no-index --find-links /opt/veriftools/wheels --target "$VERIF/.deps" z3-solver mpmath cvc5 sympy
    PYTHONPATH="$VERIF/.deps" /venv/bin/python -c "import z3, mpmath; print('z3', z3.get_version_string())"
    touch "$VERIF/.deps/.ok"
  fi
) 9>"$VERIF/.deps.lock"
if [ "${1:-}" = "--deps-only" ]; then exit 0; fi
export PYTHONPATH="$VERIF:$VERIF/.deps"
export PYTHONDONTWRITEBYTECODE=1
/venv/bin/python -m vsym.selftest
