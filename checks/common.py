"""Shared harness pieces for the R-model checks."""
import z3
from vsym import core, mathx
from vsym.core import SymReal, Fraction, ratval

HPDEC = z3.Function('HPDEC', z3.RealSort(), z3.RealSort())
DEG_SLACK = Fraction(14, 10 ** 14)


def hpdec_uf(hp):
    """Summary of geodepy.angles.hp2dec for symbolic input: an uninterpreted function with the facts proved as
    lemma A in C06 (13-decimal parsing of |hp| < 0.00599: |value - hp*10000/3600| <= 1.4e-13 deg), oddness and
    HPDEC(0) = 0. The real hp2dec on doubles is decided by C08."""
    if isinstance(hp, SymReal):
        c = core.CTX
        h = hp.z
        v = HPDEC(h)
        if c is not None:
            lim = ratval(Fraction('0.00599'))
            c.add_fact(z3.And(HPDEC(-h) == -v, z3.Implies(h == 0, v == 0),
                              z3.Implies(z3.And(h <= lim, h >= -lim),
                                         z3.And(v - h * 10000 / 3600 <= ratval(DEG_SLACK),
                                                h * 10000 / 3600 - v <= ratval(DEG_SLACK)))), ('HPDEC', h.get_id()))
        return SymReal(v)
    import geodepy.angles as ga
    return ga.hp2dec(hp)


class swap_global:
    """temporarily replace a global of an instrumented module (callee summary)"""

    def __init__(self, mod, name, val):
        self.mod, self.name, self.val = mod, name, val

    def __enter__(self):
        self.old = self.mod.__dict__[self.name]
        self.mod.__dict__[self.name] = self.val

    def __exit__(self, *a):
        self.mod.__dict__[self.name] = self.old


class swap_globals:
    def __init__(self, mod, **kw):
        self.mod, self.kw = mod, kw

    def __enter__(self):
        self.old = {k: self.mod.__dict__.get(k) for k in self.kw}
        self.mod.__dict__.update(self.kw)

    def __exit__(self, *a):
        self.mod.__dict__.update(self.old)


def _hpdec_num(h):
    import mpmath
    neg = h < 0
    a = abs(h)
    r = mpmath.floor(a * mpmath.mpf(10) ** 13 + mpmath.mpf('0.5')) / mpmath.mpf(10) ** 13
    deg = mpmath.floor(r)
    mm = mpmath.floor((r - deg) * 100)
    ss = (r - deg) * 10000 - mm * 100
    v = deg + mm / 60 + ss / 3600
    return -v if neg else v


from vsym import solve as _solve
_solve.register_fn('HPDEC', _hpdec_num)


# --- callee summaries for wiring checks -----------------------------------------------------------------
class Tok:
    """opaque value (e.g. a covariance matrix) produced by a summarised callee: kind + arguments"""

    def __init__(self, kind, args=()):
        self.kind = kind
        self.args = tuple(args)
        self.shape = (3, 3)

    def __repr__(self):
        return 'Tok(%s, %s)' % (self.kind, ', '.join(repr(a)[:40] for a in self.args))


def enc(a):
    """flatten a Python argument into (z3 real terms, structural tag)"""
    from vsym.core import SymReal, SymBool, toz, exact_fraction
    if isinstance(a, (SymReal, SymBool)):
        return [toz(a)], 'r'
    if isinstance(a, bool) or a is None or isinstance(a, str):
        return [], repr(a)
    if type(a).__name__ in ('DECAngle', 'HPAngle', 'GONAngle', 'DMSAngle', 'DDMAngle'):
        return [toz(a.dec())], type(a).__name__
    if isinstance(a, (int, float)):
        return [toz(a)], 'r'
    if isinstance(a, Tok):
        ts, tags = [], ['T:' + a.kind]
        for x in a.args:
            t, g = enc(x)
            ts += t
            tags.append(g)
        return ts, '(' + ','.join(tags) + ')'
    if isinstance(a, (list, tuple)):
        ts, tags = [], []
        for x in a:
            t, g = enc(x)
            ts += t
            tags.append(g)
        return ts, '[' + ','.join(tags) + ']'
    cn = type(a).__name__
    if cn == 'Ellipsoid':
        return [toz(a.semimaj), toz(a.inversef)], 'Ell'
    if cn == 'Projection':
        return [toz(a.falseeast), toz(a.falsenorth), toz(a.cmscale), toz(a.zonewidth), toz(a.initialcm)], 'Prj'
    if cn == 'Transformation':
        return [toz(getattr(a, k)) for k in ('tx', 'ty', 'tz', 'sc', 'rx', 'ry', 'rz')], 'Trans(sd=%s)' % (a.tf_sd is not None)
    if cn in ('DECAngle', 'HPAngle', 'GONAngle', 'DMSAngle', 'DDMAngle'):
        return [toz(a.dec())], cn
    return [], 'obj:' + cn


def uf_call(name, n_out, *args):
    """n_out uninterpreted results of the summarised call name(args); the structural tags are part of the function symbol"""
    from vsym.core import SymReal
    ts, tags = [], []
    for a in args:
        t, g = enc(a)
        ts += t
        tags.append(g)
    sig = name + '<' + ';'.join(tags) + '>'
    outs = []
    for i in range(n_out):
        f = z3.Function('%s#%d' % (sig, i), *([z3.RealSort()] * (len(ts) + 1)))
        outs.append(SymReal(f(*ts)) if ts else SymReal(z3.Const('%s#%d' % (sig, i), z3.RealSort())))
    return outs


def tok_equal(a, b):
    """z3 formula: two opaque values are built the same way from equal numbers (None == None)"""
    if a is None or b is None:
        return z3.BoolVal(a is None and b is None)
    ta, ga = enc(a)
    tb, gb = enc(b)
    if ga != gb or len(ta) != len(tb):
        return z3.BoolVal(False)
    return z3.And(*[x == y for x, y in zip(ta, tb)]) if ta else z3.BoolVal(True)
