"""Shared harness pieces for the R-model checks."""
import z3
from vsym import core, mathx
from vsym.core import SymReal, Fraction, ratval

HPDEC = z3.Function('HPDEC', z3.RealSort(), z3.RealSort())
DEG_SLACK = Fraction(14, 10 ** 14)


def hpdec_uf(hp):
    """Summary of geodepy.angles.hp2dec for symbolic input: an uninterpreted function with the facts proved as
    lemma A in C06 (13-decimal parsing of |hp| < 0.00599: |value - hp*10000/3600| <= 1.4e-13 deg), oddness and
    HPDEC(0) = 0. The real hp2dec on doubles is decided by C08."""
    if isinstance(hp, SymReal):
        c = core.CTX
        h = hp.z
        v = HPDEC(h)
        if c is not None:
            lim = ratval(Fraction('0.00599'))
            c.add_fact(z3.And(HPDEC(-h) == -v, z3.Implies(h == 0, v == 0),
                              z3.Implies(z3.And(h <= lim, h >= -lim),
                                         z3.And(v - h * 10000 / 3600 <= ratval(DEG_SLACK),
                                                h * 10000 / 3600 - v <= ratval(DEG_SLACK)))), ('HPDEC', h.get_id()))
        return SymReal(v)
    import geodepy.angles as ga
    return ga.hp2dec(hp)


class swap_global:
    """temporarily replace a global of an instrumented module (callee summary)"""

    def __init__(self, mod, name, val):
        self.mod, self.name, self.val = mod, name, val

    def __enter__(self):
        self.old = self.mod.__dict__[self.name]
        self.mod.__dict__[self.name] = self.val

    def __exit__(self, *a):
        self.mod.__dict__[self.name] = self.old


class swap_globals:
    def __init__(self, mod, **kw):
        self.mod, self.kw = mod, kw

    def __enter__(self):
        self.old = {k: self.mod.__dict__.get(k) for k in self.kw}
        self.mod.__dict__.update(self.kw)

    def __exit__(self, *a):
        self.mod.__dict__.update(self.old)


def _hpdec_num(h):
    import mpmath
    neg = h < 0
    a = abs(h)
    r = mpmath.floor(a * mpmath.mpf(10) ** 13 + mpmath.mpf('0.5')) / mpmath.mpf(10) ** 13
    deg = mpmath.floor(r)
    mm = mpmath.floor((r - deg) * 100)
    ss = (r - deg) * 10000 - mm * 100
    v = deg + mm / 60 + ss / 3600
    return -v if neg else v


from vsym import solve as _solve
_solve.register_fn('HPDEC', _hpdec_num)
