"""C19 - survey reductions are geometrically and physically self-consistent."""
import z3
from vsym import core, solve, ob, mathx
from vsym.core import SymReal, Fraction, ratval, toz, explore, fresh_real, exact_fraction
from checks import tmcommon as TC
from checks.common import swap_globals

PID = 'C19'
QT = {'quick': 20, 'thorough': 120}
META = {
    'level': 'other',
    'explanation': 'Bounded symbolic execution of geodepy.survey (joins, radiations, va_conv, first_vel_params, part_h2o_vap_press, '
                   'first_vel_corrn, phase/group_refractivity, humidity2part_water_vapour_press) and convert.polar2rect/rect2polar (real '
                   'source): joins/radiations closure from the atan2 polar axiom, bearing range, rotation/scale arguments, Pythagoras of '
                   'va_conv on both zenith branches, absence of exception outcomes and definedness of every division over the physical '
                   'atmosphere box (0 degrees Celsius, 0 % humidity included), linearity in the distance, CO2-aware correction = '
                   '(n_ref/n_g - 1) d with the right argument order, and group refractivity = phase refractivity + sigma * d/d sigma '
                   '(forward-mode differentiation of the traced phase term; rational identity over the 5-dimensional box, exact literals).',
    'functions': ['geodepy.survey.joins', 'geodepy.survey.radiations', 'geodepy.convert.polar2rect', 'geodepy.convert.rect2polar',
                  'geodepy.survey.va_conv', 'geodepy.survey.first_vel_params', 'geodepy.survey.part_h2o_vap_press',
                  'geodepy.survey.first_vel_corrn', 'geodepy.survey.phase_refractivity', 'geodepy.survey.group_refractivity',
                  'geodepy.survey.humidity2part_water_vapour_press'],
    'bounds': {'plane coordinates': '|.| <= 1e7', 'zenith angle': '(0,180) and (180,360)', 'slope distance': '[0.1, 5e4]', 'heights': '[-5, 5]',
               'wavelength': '[0.4, 1.6] um', 'temperature': '[-20, 45] C', 'pressure': '[650, 1100] hPa', 'humidity': '[0, 100] %',
               'vapour pressure': '[0, 40] hPa', 'CO2': '[300, 600] ppm', 'distance': '[1, 5e4] m'},
    'outside': ['1 ppm agreement between the closed-form and the Ciddor branch (depends on values of exp, not its algebra) - NOT claimed',
                'IEEE rounding, except the bearing range [0, 360), which is decided on exact doubles (F-model, group bearing_ieee)'],
    'assumptions': ['floats are reals, literals exact decimals; exp/sin/cos/atan2/sqrt uninterpreted with axiom instances '
                    '(atan2 polar relation r sin a = y, r cos a = x)'],
}
DOM = {'e1': (-10 ** 7, 10 ** 7), 'n1': (-10 ** 7, 10 ** 7), 'e2': (-10 ** 7, 10 ** 7), 'n2': (-10 ** 7, 10 ** 7), 'rot': (-360, 360),
       'k': (Fraction(1, 2), 2), 'r': (0, 10 ** 7), 'th': (0, 360), 'za': (0, 360), 'sd': (Fraction(1, 10), 50000), 'hi': (-5, 5), 'ht': (-5, 5),
       'wl': (Fraction(4, 10), Fraction(16, 10)), 't': (-20, 45), 'p': (650, 1100), 'h': (0, 100), 'e': (0, 40), 'xc': (300, 600),
       'd': (1, 50000), 'nref': (Fraction(10001, 10000), Fraction(10005, 10000)), 'tw': (-20, 45), 'c': (0, 500), 'dd': (0, 200)}


def _mods():
    import geodepy.survey as sv
    import geodepy.convert as cv
    return sv, cv


def g_joins(tier, seed):
    sv, cv = _mods()
    out = []
    mk = lambda env: {'env': env}

    def run():
        e1, n1, e2, n2 = (fresh_real(k, -10 ** 7, 10 ** 7) for k in ('e1', 'n1', 'e2', 'n2'))
        dist, brg = sv.joins(e1, n1, e2, n2)
        back = sv.radiations(e1, n1, brg, dist)
        rot = fresh_real('rot', -360, 360)
        k = fresh_real('k', Fraction(1, 2), 2)
        rs = sv.radiations(e1, n1, brg, dist, rot, k)
        return (e1, n1, e2, n2, rot, k), dist, brg, back, rs
    paths, st = explore(run, max_paths=20)
    for p in paths:
        if p.kind != 'return':
            out.append(ob.decide_goal('O1', 'joins/radiations: no exception (%r)' % (p.value,), ob.path_conds(p), z3.BoolVal(False), pid=PID,
                                      oracle='oracles.c19:joins', args_from_model=mk, key='O1:raises', domain=DOM, num_conds=p.assumptions + p.pc))
            continue
        (e1, n1, e2, n2, rot, k), dist, brg, back, rs = p.value
        conds = ob.path_conds(p)
        dx, dy = toz(e2) - toz(e1), toz(n2) - toz(n1)
        out.append(ob.decide_goal('O1', 'distance^2 = dE^2 + dN^2, distance >= 0', conds, z3.And(toz(dist) * toz(dist) == dx * dx + dy * dy, toz(dist) >= 0),
                                  pid=PID, oracle='oracles.c19:joins', args_from_model=mk, key='O1:joins', domain=DOM, num_conds=p.assumptions + p.pc,
                                  timeout_s=QT[tier]))
        out.append(ob.decide_goal('O1', 'bearing in [0, 360)', conds, z3.And(toz(brg) >= 0, toz(brg) < 360), pid=PID, oracle='oracles.c19:joins',
                                  args_from_model=mk, key='O1:bearing-range', domain=DOM, num_conds=p.assumptions + p.pc, timeout_s=QT[tier],
                                  extra_points=[{'e1': 0, 'n1': 0, 'e2': 0, 'n2': 5, 'rot': 0, 'k': 1}, {'e1': 0, 'n1': 0, 'e2': 0, 'n2': 0, 'rot': 0, 'k': 1}]))
        goal = z3.Implies(toz(dist) > 0, z3.And(toz(back[0]) == toz(e2), toz(back[1]) == toz(n2)))
        out.append(ob.decide_goal('O1', 'radiations(joins(P1, P2)) from P1 reproduces P2', conds, goal, pid=PID, oracle='oracles.c19:joins',
                                  args_from_model=mk, key='O1:closure', domain=DOM, num_conds=p.assumptions + p.pc, timeout_s=QT[tier]))
        # rotation and scale arguments: radiated vector = k * dist * (sin, cos)(bearing + rot)
        (rx, ry), extra = TC.with_facts(lambda: (e1 + dist * k * mathx.sin(mathx.radians(brg + rot)), n1 + dist * k * mathx.cos(mathx.radians(brg + rot))))
        for got, refv, nm in ((rs[0], rx, 'east'), (rs[1], ry, 'north')):
            out.append(ob.decide_close('O1', 'rotation and scale arguments rotate and scale the radiated vector (%s)' % nm, p, got, refv, 0,
                                       pid=PID, key='O1:rotation-scale', oracle='oracles.c19:joins', domain=DOM, make_args=mk, extra_conds=extra,
                                       timeout_s=QT[tier]))
    return out


def g_vaconv(tier, seed):
    sv, cv = _mods()
    out = []
    mk = lambda env: {'env': env}

    def run():
        za = fresh_real('za', 0, 360)
        sd = fresh_real('sd', Fraction(1, 10), 50000)
        hi, ht = fresh_real('hi', -5, 5), fresh_real('ht', -5, 5)
        core.CTX.assume((za != 0) & (za != 180) & (za != 360) & (za != 90) & (za != 270))
        return (za, sd, hi, ht), sv.va_conv(za, sd, hi, ht), sv.va_conv(za, sd)
    paths, st = explore(run, max_paths=20)
    for p in paths:
        if p.kind != 'return':
            out.append(ob.decide_goal('O2', 'va_conv: no exception for zenith angles in (0,180) u (180,360) (%r)' % (p.value,), ob.path_conds(p),
                                      z3.BoolVal(False), pid=PID, oracle='oracles.c19:vaconv', args_from_model=mk, key='O2:raises', domain=DOM,
                                      num_conds=p.assumptions + p.pc, timeout_s=QT[tier]))
            continue
        (za, sd, hi, ht), (va, sp, hz, dh), (va0, sp0, hz0, dh0) = p.value
        conds = ob.path_conds(p)
        raw = toz(dh) - toz(hi) + toz(ht)
        out.append(ob.decide_goal('O2', 'hz^2 + (dH - hi + ht)^2 = slope^2 (Pythagoras)', conds, toz(hz) * toz(hz) + raw * raw == toz(sd) * toz(sd),
                                  pid=PID, oracle='oracles.c19:vaconv', args_from_model=mk, key='O2:pythagoras', domain=DOM,
                                  num_conds=p.assumptions + p.pc, timeout_s=QT[tier]))
        out.append(ob.decide_goal('O2', 'instrument and target heights shift only the height difference', conds,
                                  z3.And(toz(hz) == toz(hz0), toz(dh) == toz(dh0) + toz(hi) - toz(ht)), pid=PID, oracle='oracles.c19:vaconv',
                                  args_from_model=mk, key='O2:heights', domain=DOM, num_conds=p.assumptions + p.pc, timeout_s=QT[tier]))
        out.append(ob.decide_goal('O2', 'horizontal distance is non-negative... sign: hz = slope * sin(zenith) up to the zenith branch', conds,
                                  toz(sp) * toz(sp) == toz(dh) * toz(dh) + toz(hz) * toz(hz), pid=PID, oracle='oracles.c19:vaconv',
                                  args_from_model=mk, key='O2:slope-pt', domain=DOM, num_conds=p.assumptions + p.pc, timeout_s=QT[tier]))
    for bad in (0, 180, 360, -10, 400):
        pb, _ = explore(lambda: sv.va_conv(bad, 100.0))
        ok = all(q.kind == 'raise' and isinstance(q.value, ValueError) for q in pb)
        out.append(ob.res('O2', 'zenith angle %s is rejected' % bad, 'proved', [ob.qrec('ground', solve.prove([], z3.BoolVal(ok), 5, False))]) if ok else
                   ob.ground_violation('O2', 'zenith angle %s accepted' % bad, PID, 'O2:invalid-angle', 'oracles.c19:vaconv', {'env': {}}))
    return out


def _defined(p, tier, tag, out, mk, oracle):
    conds = ob.path_conds(p)
    if not p.defined:
        return
    goal = z3.And(*[c for c, _ in p.defined])
    out.append(ob.decide_goal('O3', '%s: all %d divisions / function arguments defined' % (tag, len(p.defined)), conds, goal, pid=PID,
                              oracle=oracle, args_from_model=mk, key='O3:defined', domain=DOM, num_conds=p.assumptions + p.pc, timeout_s=QT[tier]))


GRP = z3.Function('GROUPREF', *([z3.RealSort()] * 6))
H2P = z3.Function('HUM2PV', z3.RealSort(), z3.RealSort(), z3.RealSort())


def g_atmosphere(tier, seed):
    sv, cv = _mods()
    out = []
    mk = lambda env: {'env': env}
    cases = {
        'closed form, humidity': lambda v: sv.first_vel_corrn(v['d'], (v['c'], v['dd']), v['t'], v['p'], v['h']),
        'closed form, wet bulb': lambda v: sv.first_vel_corrn(v['d'], (v['c'], v['dd']), v['t'], v['p'], None, v['tw']),
        'CO2-aware': lambda v: sv.first_vel_corrn(v['d'], (v['c'], v['dd']), v['t'], v['p'], v['h'], None, v['xc'], v['wl']),
    }
    for nm, fn in cases.items():
        def run():
            v = {k: fresh_real(k, *DOM[k]) for k in ('d', 'c', 'dd', 't', 'p', 'h', 'tw', 'xc', 'wl')}
            r1 = fn(v)
            v1 = dict(v, d=1)
            return v, r1, fn(v1)
        if nm == 'CO2-aware':
            # the vapour pressure is summarised by a bounded uninterpreted function (exp values are not available to the solver;
            # 0 <= e <= 100 hPa covers the saturation pressure on the temperature box); its own definedness is checked below
            def h2p(h, t):
                u = H2P(toz(h), toz(t))
                core.CTX.add_fact(z3.And(u >= 0, u <= 100))
                return SymReal(u)
            with swap_globals(sv, humidity2part_water_vapour_press=h2p):
                paths, st = explore(run, max_paths=40)
        else:
            paths, st = explore(run, max_paths=40)
        nret = 0
        for p in paths:
            if p.kind != 'return':
                out.append(ob.decide_goal('O3', 'first_vel_corrn (%s): defined for every physically valid atmosphere (%s: %s)' % (nm, type(p.value).__name__, p.value),
                                          ob.path_conds(p), z3.BoolVal(False), pid=PID, oracle='oracles.c19:atmosphere', args_from_model=mk,
                                          key='O3:defined:zero', domain=DOM, num_conds=p.assumptions + p.pc, timeout_s=QT[tier],
                                          extra_points=[{'d': 1000, 'c': 281, 'dd': 79, 't': 0, 'p': 1013, 'h': 0, 'tw': 0, 'xc': 420, 'wl': Fraction(85, 100)}]))
                continue
            nret += 1
            v, r, r1 = p.value
            _defined(p, tier, 'first_vel_corrn (%s)' % nm, out, mk, 'oracles.c19:atmosphere')
            out.append(ob.decide_close('O3', 'first_vel_corrn (%s) is proportional to the distance' % nm, p, r, v['d'] * r1, 0, pid=PID,
                                       key='O3:linear', oracle='oracles.c19:atmosphere', domain=DOM, make_args=mk, timeout_s=QT[tier]))
        if nret == 0:
            out.append(ob.res('O3', nm, 'inconclusive', [], 'no returning path'))
    # saturation-pressure helper of the CO2 branch: defined on the whole box
    def run_h():
        h, t = fresh_real('h', *DOM['h']), fresh_real('t', *DOM['t'])
        return sv.humidity2part_water_vapour_press(h, t)
    ph, _ = explore(run_h, max_paths=10)
    for p in ph:
        if p.kind != 'return':
            out.append(ob.res('O3', 'humidity2part_water_vapour_press', 'inconclusive', [], 'path %r' % (p.value,)))
        else:
            _defined(p, tier, 'humidity2part_water_vapour_press', out, mk, 'oracles.c19:atmosphere')
    # vapour pressure (Rueger 5.27/5.29) on both input kinds
    for nm, args in (('humidity', ('t', 'p', 'h', None)), ('wet bulb', ('t', 'p', None, 'tw'))):
        def run():
            v = {k: fresh_real(k, *DOM[k]) for k in ('t', 'p', 'h', 'tw')}
            return v, sv.part_h2o_vap_press(*[v[a] if a else None for a in args])
        paths, st = explore(run, max_paths=20)
        for p in paths:
            if p.kind != 'return':
                out.append(ob.decide_goal('O3', 'part_h2o_vap_press (%s): defined on the whole box (%s)' % (nm, p.value), ob.path_conds(p), z3.BoolVal(False),
                                          pid=PID, oracle='oracles.c19:atmosphere', args_from_model=mk, key='O3:defined:zero', domain=DOM,
                                          num_conds=p.assumptions + p.pc, timeout_s=QT[tier], extra_points=[{'t': 0, 'p': 1013, 'h': 0, 'tw': 0}]))
                continue
            v, e = p.value

            def ref():
                tw = v['t'] if args[2] else v['tw']
                Ew = (Fraction('1.0007') + Fraction('3.46') * v['p'] / 1000000) * Fraction('6.1121') * mathx.exp(Fraction('17.502') * tw / (Fraction('240.94') + tw))
                return Ew * v['h'] / 100 if args[2] else Ew - Fraction('0.000662') * v['p'] * (v['t'] - v['tw'])
            refv, extra = TC.with_facts(ref)
            out.append(ob.decide_close('O3', 'partial water vapour pressure from %s = Rueger eqs 5.27-5.29 [%d path conds]' % (nm, len(p.pc)), p, e, refv, 0,
                                       pid=PID, key='O3:vapour', oracle='oracles.c19:atmosphere', domain=DOM, make_args=mk, extra_conds=extra,
                                       timeout_s=QT[tier], extra_points=[{'t': 40, 'p': 1000, 'h': 0, 'tw': 30}, {'t': 0, 'p': 1000, 'h': 50, 'tw': 0}]))
    return out


def g_co2_wiring(tier, seed):
    """CO2-aware correction = (n_ref / n_g - 1) * d with n_g from group_refractivity(wavelength, temp, pressure, e(humidity, temp), CO2)"""
    sv, cv = _mods()
    out = []
    mk = lambda env: {'env': env}

    import inspect
    sig = inspect.signature(sv.group_refractivity)

    def grp(*a, **k):
        # summary with the real function's signature (defaults included): the call is recorded as its full argument list
        b = sig.bind(*a, **k)
        b.apply_defaults()
        return SymReal(GRP(*[toz(x) for x in b.arguments.values()]))

    def h2p(h, t):
        return SymReal(H2P(toz(h), toz(t)))

    def run():
        v = {k: fresh_real(k, *DOM[k]) for k in ('d', 'c', 'dd', 't', 'p', 'h', 'xc', 'wl')}
        v['wl2'] = fresh_real('wl2', *DOM['wl'])
        r1 = sv.first_vel_corrn(v['d'], (v['c'], v['dd']), v['t'], v['p'], v['h'], None, v['xc'], v['wl'])
        # the same atmosphere again with another carrier wavelength (second instrument), then the first one again: one process
        r2 = sv.first_vel_corrn(v['d'], (v['c'], v['dd']), v['t'], v['p'], v['h'], None, v['xc'], v['wl2'])
        r3 = sv.first_vel_corrn(v['d'], (v['c'], v['dd']), v['t'], v['p'], v['h'], None, v['xc'], v['wl'])
        return v, (r1, r2, r3)
    with swap_globals(sv, group_refractivity=grp, humidity2part_water_vapour_press=h2p):
        paths, st = explore(run, max_paths=40)
    for p in paths:
        if p.kind == 'cut':
            out.append(ob.res('O3', 'CO2 wiring', 'inconclusive', [], 'path cut: %s' % p.value))
            continue
        if p.kind != 'return':
            out.append(ob.decide_goal('O3', 'CO2-aware correction: no exception (%s: %s)' % (type(p.value).__name__, p.value), ob.path_conds(p),
                                      z3.BoolVal(False), pid=PID, oracle='oracles.c19:atmosphere', args_from_model=mk, key='O3:co2-form',
                                      domain=DOM, num_conds=p.assumptions + p.pc, timeout_s=QT[tier]))
            continue
        v, rs = p.value
        nref = 1 + v['c'] / 1000000
        for r, wk, nm in zip(rs, ('wl', 'wl2', 'wl'), ('', ' (second call: same atmosphere, another wavelength)', ' (third call: first wavelength again)')):
            ng = 1 + grp(v[wk], v['t'], v['p'], h2p(v['h'], v['t']), v['xc']) / 100000000
            out.append(ob.decide_close('O3', 'CO2-aware correction = (n_ref / n_g - 1) * distance with arguments in the right order' + nm, p, r,
                                       (nref / ng - 1) * v['d'], 0, pid=PID, key='O3:co2-form', oracle='oracles.c19:atmosphere', domain=None,
                                       make_args=mk, timeout_s=QT[tier]))
    return out or [ob.res('O3', 'CO2 wiring', 'inconclusive', [], 'no path')]


class Dual:
    """forward-mode derivative pair over SymReal / numbers"""

    def __init__(self, v, d=0):
        self.v, self.d = v, d

    @staticmethod
    def lift(o):
        return o if isinstance(o, Dual) else Dual(o, 0)

    def __add__(s, o):
        o = Dual.lift(o)
        return Dual(s.v + o.v, s.d + o.d)
    __radd__ = __add__

    def __sub__(s, o):
        o = Dual.lift(o)
        return Dual(s.v - o.v, s.d - o.d)

    def __rsub__(s, o):
        o = Dual.lift(o)
        return Dual(o.v - s.v, o.d - s.d)

    def __mul__(s, o):
        o = Dual.lift(o)
        return Dual(s.v * o.v, s.d * o.v + s.v * o.d)
    __rmul__ = __mul__

    def __truediv__(s, o):
        o = Dual.lift(o)
        return Dual(s.v / o.v, (s.d * o.v - s.v * o.d) / (o.v * o.v))

    def __rtruediv__(s, o):
        return Dual.lift(o) / s

    def __neg__(s):
        return Dual(-s.v, -s.d)


def g_dispersion(tier, seed):
    """O4: group refractivity = phase refractivity + sigma * d(phase)/d(sigma)"""
    sv, cv = _mods()
    out = []
    mk = lambda env: {'env': env}

    def run():
        v = {k: fresh_real(k, *DOM[k]) for k in ('wl', 't', 'p', 'e', 'xc')}
        sigma = 1 / v['wl']
        lam = Dual(1, 0) / Dual(sigma, 1)              # wavelength as a function of sigma, derivative d/d sigma
        ph = sv.phase_refractivity(lam, v['t'], v['p'], v['e'], v['xc'])
        gr = sv.group_refractivity(v['wl'], v['t'], v['p'], v['e'], v['xc'])
        ph0 = sv.phase_refractivity(v['wl'], v['t'], v['p'], v['e'], v['xc'])
        return v, sigma, ph, gr, ph0
    paths, st = explore(run, max_paths=10)
    for p in paths:
        if p.kind != 'return':
            out.append(ob.res('O4', 'dispersion', 'inconclusive', [], 'path %s %r' % (p.kind, p.value)))
            continue
        v, sigma, ph, gr, ph0 = p.value
        _defined(p, tier, 'phase/group refractivity', out, mk, 'oracles.c19:dispersion')
        out.append(ob.decide_close('O4', 'traced phase term (dual run) equals the plain phase refractivity', p, ph.v, ph0, 0, pid=PID,
                                   key='O4:dispersion', oracle='oracles.c19:dispersion', domain=DOM, make_args=mk, timeout_s=QT[tier]))
        out.append(ob.decide_close('O4', 'group refractivity = phase refractivity + sigma * d(phase)/d(sigma)', p, gr, ph.v + sigma * ph.d, 0, pid=PID,
                                   key='O4:dispersion', oracle='oracles.c19:dispersion', domain=DOM, make_args=mk, timeout_s=max(60, QT[tier])))
    return out


def g_params(tier, seed):
    sv, cv = _mods()
    out = []
    mk = lambda env: {'env': env}

    def run():
        wl = fresh_real('wl', *DOM['wl'])
        nref = fresh_real('nref', *DOM['nref'])
        return (wl, nref), sv.first_vel_params(wl, None, nref)
    paths, st = explore(run, max_paths=10)
    for p in paths:
        if p.kind != 'return':
            out.append(ob.decide_goal('O3', 'first_vel_params: defined (%r)' % (p.value,), ob.path_conds(p), z3.BoolVal(False), pid=PID,
                                      oracle='oracles.c19:atmosphere', args_from_model=mk, key='O3:params', domain=DOM, num_conds=p.assumptions + p.pc))
            continue
        (wl, nref), (c, d) = p.value
        _defined(p, tier, 'first_vel_params', out, mk, 'oracles.c19:atmosphere')
        refd = Fraction('273.15') / Fraction('1013.25') * (Fraction('287.6155') + Fraction('4.8866') / wl ** 2 + Fraction('0.068') / wl ** 4)
        out.append(ob.decide_close('O3', 'parameter C = (n_ref - 1) 1e6', p, c, (nref - 1) * 1000000, 0, pid=PID, key='O3:params',
                                   oracle='oracles.c19:atmosphere', domain=DOM, make_args=mk))
        out.append(ob.decide_close('O3', 'parameter D = (273.15/1013.25) * group refractivity of standard air (IAG 1999)', p, d, refd, 0, pid=PID,
                                   key='O3:params', oracle='oracles.c19:atmosphere', domain=DOM, make_args=mk))
    return out


def g_vapour(tier, seed):
    """the helper of the CO2-aware branch: partial water vapour pressure (hPa) = RH/100 x saturation vapour pressure of Giacomo (1982) /
    Davis (1992) / Ciddor (1996): svp = exp(A T^2 + B T + C + D/T) Pa, for every humidity in [0, 100] % (exp uninterpreted: the claim is the
    algebra around it, in particular proportionality to the humidity over the whole range)"""
    sv, cv = _mods()
    out = []
    mk = lambda env: {'env': env}

    def run():
        h, t = fresh_real('h', 0, 100), fresh_real('t', -20, 45)
        return (h, t), sv.humidity2part_water_vapour_press(h, t)
    paths, st = explore(run, max_paths=12)
    for p in paths:
        if p.kind != 'return':
            out.append(ob.decide_goal('O3', 'humidity2part_water_vapour_press: no exception (%r)' % (p.value,), ob.path_conds(p), z3.BoolVal(False), pid=PID,
                                      oracle='oracles.c19:vapour', args_from_model=mk, key='O3:vapour', domain=DOM, num_conds=p.assumptions + p.pc))
            continue
        (h, t), r = p.value

        def ref():
            tk = t + Fraction('273.15')
            svp = mathx.exp(Fraction('1.2378847e-5') * tk * tk + Fraction('-1.9121316e-2') * tk + Fraction('33.93711047') + Fraction('-6.3431645e3') / tk)
            return h / 100 * svp / 100
        refv, extra = TC.with_facts(ref)
        out.append(ob.decide_close('O3', 'partial water vapour pressure = RH/100 x saturation vapour pressure (Giacomo 1982), hPa, for every RH in [0, 100] %',
                                   p, r, refv, 0, pid=PID, key='O3:vapour', oracle='oracles.c19:vapour', domain=DOM, make_args=mk, extra_conds=extra,
                                   timeout_s=QT[tier], extra_points=[{'h': Fraction(1, 2), 't': 40}, {'h': 1, 't': 45}, {'h': Fraction(1, 100), 't': 20}]))
    return out


_CF = [None]


def g_bearing_ieee(tier, seed):
    """bearing range in IEEE arithmetic (F-model): rect2polar with atan2 a nondeterministic double of every binade of [-pi, pi]
    (environment stub constrained by its documented range), degrees() exact (CPython: one multiplication by the double 180/pi),
    the +360 branch exact. The R-model claim 'bearing < 360' does not transfer to doubles when -theta is below half an ulp of 360."""
    import math
    import os
    from vsym import fmodel as fm, instr
    from checks.c08 import fmode
    out = []
    C = fm.XF.const(180.0 / math.pi)
    cur = {}

    def atan2_stub(x, y):
        return cur['theta']

    def fdegrees(x):
        return x * 180.0 / math.pi if not isinstance(x, fm.XF) else fm.rn(x._scale(C.const_value()))
    if _CF[0] is None:
        sh = dict(fm.F_SHADOWS)
        sh.update({'atan2': atan2_stub, 'degrees': fdegrees, 'sqrt': lambda v: 1.0})
        _CF[0] = (instr.load_file(os.path.join(instr.REPO_ROOT, 'geodepy', 'convert.py'), 'vs_convert_f', sh), cur)
    mod, cur = _CF[0]
    binades = list(range(1, -75, -1)) if tier != 'quick' else [1, 0, -1, -8, -20, -40, -44, -45, -46, -47, -48, -52, -60, -74]
    for E in binades:
        for neg in (True, False):
            def run():
                t = fm.input_double('m_in', E, None, F_PI_UP if E == 1 else None)
                cur['theta'] = -t if neg else t
                r, th = mod.rect2polar(0.0, 1.0)
                return fm.materialise(th) if isinstance(th, fm.XF) else th
            with fmode():
                paths, st = explore(run, max_paths=12, feas_timeout_ms=4000)
            for p in paths:
                name = 'rect2polar: bearing in [0, 360) on doubles, atan2 result %s in binade 2^%d' % ('negative' if neg else 'positive', E)
                if p.kind != 'return':
                    out.append(ob.res('O1', name, 'inconclusive', [], 'path %s: %s' % (p.kind, p.value)))
                    continue
                th = fm.XF.rat(p.value)
                goal = z3.And(th.num >= 0, th.num < 360 * th.den) if th.slack() == 0 else z3.BoolVal(False)
                out.append(ob.decide_goal('O1', name, ob.path_conds(p), goal, pid=PID, oracle='oracles.c19:bearing_ieee',
                                          args_from_model=lambda env, E=E, neg=neg: {'m': int(env.get('m_in', 2 ** 52)), 'E': E, 'neg': neg},
                                          key='O1:bearing-range-ieee', timeout_s=QT[tier]))
    return out


F_PI_UP = Fraction(884279719003555, 2 ** 48)      # the double pi: atan2 never exceeds it in magnitude


def g_argforms(tier, seed):
    from checks.c04 import argforms_generic
    import geodepy.constants as gc
    import geodepy.convert as cv
    r = fresh_real  # noqa
    return argforms_generic(PID, 'O1', 'polar2rect', lambda cv_, v: cv_.polar2rect(1000, v[0]), (('theta', 0, 359),), tier, lambda: (gc, cv))


def groups(tier):
    return [('argforms', g_argforms), ('joins', g_joins), ('vaconv', g_vaconv), ('atmosphere', g_atmosphere), ('co2_wiring', g_co2_wiring),
            ('dispersion', g_dispersion), ('params', g_params), ('vapour', g_vapour), ('bearing_ieee', g_bearing_ieee)]
