"""C09 - library calls are pure: no hidden state, no mutation of constants or arguments."""
import copy
import datetime
import types
import warnings
import z3
warnings.filterwarnings("ignore", category=UserWarning)
from vsym import core, solve, ob, npx, instr
from vsym.core import SymReal, SymBool, Fraction, ratval, toz, explore, fresh_real
from vsym.symdate import SymDate
from checks.common import hpdec_uf, swap_global

PID = 'C09'
GROUP_BUDGET = {'quick': 400, 'thorough': 2400}
META = {
    'level': 'other',
    'explanation': 'Frame conditions by bounded symbolic execution: every public function of convert, geodesy, statistics, survey, transform and the '
                   'Transformation operators (real source) is executed twice in a row on symbolic arguments along every explored path, with (a) '
                   'a write barrier on every shipped Ellipsoid / Projection / Transformation / TransformationSD constant, (b) a deep snapshot of '
                   'all module-level mutable containers of the library before/after, (c) tracked list/array/object arguments, (d) a solver '
                   'query that the two results are identical terms. No write to shared state + results that are functions of the arguments only '
                   'is an inductive invariant, so it extends to call sequences of any length and to any interleaving across threads.',
    'functions': ['all public functions of geodepy.convert, geodepy.geodesy, geodepy.statistics, geodepy.survey, geodepy.transform (except the '
                  'NTv2 file reader), geodepy.constants.Transformation.__neg__/__add__, iers2trans'],
    'bounds': {'paths per function': '<= 12 (quick) / 40 (thorough), loops unrolled once', 'arguments': 'symbolic reals in the domains of C01-C19; '
               'covariance given and absent; two different same-labelled parameter sets in sequence for the transformations'},
    'outside': ['thread-safety of CPython/numpy internals', 'functions doing file I/O (ntv2reader, gnss: C17, C18)',
                'paths beyond the per-function budget (counted in the evidence)'],
    'assumptions': ['hp2dec is replaced by its (pure) summary inside conform7 for symbolic sets'],
}


def _mods():
    import geodepy.constants as gc
    import geodepy.convert as cv
    import geodepy.geodesy as gd
    import geodepy.statistics as gs
    import geodepy.survey as sv
    import geodepy.transform as tr
    import geodepy.angles as ga
    return gc, cv, gd, gs, sv, tr, ga


# --- instrumentation -----------------------------------------------------------------------------
class Barrier:
    """logs attribute writes to pre-existing instances of the constants classes"""

    def __init__(self, gc):
        self.gc = gc
        self.classes = [gc.Ellipsoid, gc.Projection, gc.Transformation, gc.TransformationSD]
        self.protected = {}
        for k, v in vars(gc).items():
            if isinstance(v, tuple(self.classes)):
                self.protected[id(v)] = k
                sd = getattr(v, 'tf_sd', None)
                if sd is not None:
                    self.protected.setdefault(id(sd), k + '.tf_sd')
        self.log = []

    def __enter__(self):
        bar = self

        def make(cls):
            def _set(obj, name, value):
                if id(obj) in bar.protected:
                    bar.log.append((bar.protected[id(obj)], name))
                object.__setattr__(obj, name, value)
            return _set
        for c in self.classes:
            c.__setattr__ = make(c)
        return self

    def __exit__(self, *a):
        for c in self.classes:
            try:
                del c.__setattr__
            except AttributeError:
                pass


def _snap_val(v, depth=0):
    if isinstance(v, (SymReal, SymBool)):
        return ('sym', v.z.get_id())
    if isinstance(v, (int, float, str, bytes, bool, type(None), Fraction)):
        return v
    if isinstance(v, (list, tuple)):
        return (type(v).__name__,) + tuple(_snap_val(x, depth + 1) for x in v)
    if isinstance(v, dict):
        return ('dict',) + tuple(sorted(((repr(k), _snap_val(x, depth + 1)) for k, x in v.items()), key=lambda t: t[0]))
    if isinstance(v, set):
        return ('set',) + tuple(sorted(repr(x) for x in v))
    try:
        import numpy as np
        if isinstance(v, np.ndarray):
            return ('nd', v.shape) + tuple(_snap_val(x, depth + 1) for x in v.reshape(-1).tolist())
    except Exception:  # noqa
        pass
    if hasattr(v, '__dict__') and depth < 4 and not isinstance(v, (types.ModuleType, types.FunctionType, type)):
        return ('obj', type(v).__name__) + tuple((k, _snap_val(x, depth + 1)) for k, x in sorted(vars(v).items()))
    return ('id', id(v))


def module_state(mods):
    """deep snapshot of every module-level mutable container and of every constants instance"""
    st = {}
    for m in mods:
        for k, v in vars(m).items():
            if k.startswith('__') or isinstance(v, (types.ModuleType, types.FunctionType, type, types.BuiltinFunctionType)) or callable(v):
                continue
            if getattr(v, '__module__', None) and not isinstance(v, (list, dict, set)) and not hasattr(v, '__dict__'):
                continue
            st[(m.__name__, k)] = _snap_val(v)
    return st


def _func_state(f, st, key, depth=0):
    """mutable state reachable from a function object: closure cells, mutable defaults, function attributes (memo tables live there)"""
    if depth > 3 or not isinstance(f, types.FunctionType):
        return
    for i, cell in enumerate(f.__closure__ or ()):
        try:
            v = cell.cell_contents
        except ValueError:
            continue
        if isinstance(v, (dict, list, set)):
            st[key + ('closure', i)] = _snap_val(v)
        elif isinstance(v, types.FunctionType):
            _func_state(v, st, key + ('closure', i), depth + 1)
    for i, v in enumerate(f.__defaults__ or ()):
        if isinstance(v, (dict, list, set)):
            st[key + ('default', i)] = _snap_val(v)
    for k, v in (f.__dict__ or {}).items():
        if isinstance(v, (dict, list, set)):
            st[key + ('attr', k)] = _snap_val(v)
        elif isinstance(v, types.FunctionType) and k == '__wrapped__':
            _func_state(v, st, key + ('attr', k), depth + 1)


def function_state(mods):
    st = {}
    for m in mods:
        for k, v in vars(m).items():
            if isinstance(v, types.FunctionType) and getattr(v, '__module__', '').startswith(('geodepy', 'vs_')):
                _func_state(v, st, (m.__name__, k))
            elif isinstance(v, type) and getattr(v, '__module__', '').startswith('geodepy'):
                for kk, vv in vars(v).items():
                    if isinstance(vv, types.FunctionType):
                        _func_state(vv, st, (m.__name__, k, kk))
    return st


def full_state(mods):
    st = module_state(mods)
    st.update(function_state(mods))
    return st


def diff_state(a, b):
    return sorted(str(k) for k in set(a) | set(b) if a.get(k) != b.get(k))


# --- call specifications ---------------------------------------------------------------------------
HEAVY = ('geodesy.line_sf', 'geodesy.vincinv_utm', 'geodesy.vincdir_utm', 'transform.transform_mga94_to_mga2020[vcv]',
         'transform.transform_mga2020_to_mga94', 'convert.geo2grid[isg]')


def specs(tier, concrete_heavy=False):
    gc, cv, gd, gs, sv, tr, ga = _mods()
    mode = {'concrete': False}

    def R(name, lo=None, hi=None, is_int=False):
        # heavy composite functions run on concrete mid-range arguments in the quick tier (purity does not depend on the values;
        # their callees are explored symbolically on their own)
        if mode['concrete']:
            v = (Fraction(lo) * 2 + Fraction(hi)) / 3
            return int(v) if is_int else float(v)
        return fresh_real(name, lo, hi, is_int)

    def ell():
        return gc.Ellipsoid(R('a', 6300000, 6400000), R('invf', 280, 320))

    def vcv():
        m = [[None] * 3 for _ in range(3)]
        for i in range(3):
            for j in range(i, 3):
                m[i][j] = m[j][i] = R('q%d%d' % (i, j), -10, 10)
        return npx.FArr(m)

    def tset(pre, sd=True, ref=0, rates=False):
        v = [R(pre + k, -100, 100) for k in ('tx', 'ty', 'tz')] + [R(pre + 'sc', -50, 50)] + [R(pre + k, -30, 30) for k in ('rx', 'ry', 'rz')]
        r = [R(pre + 'd' + k, Fraction(-1, 100), Fraction(1, 100)) for k in ('tx', 'ty', 'tz', 'sc', 'rx', 'ry', 'rz')] if rates else [0.0] * 7
        tf_sd = gc.TransformationSD(*[R(pre + 'sd%d' % i, 0, 1) for i in range(7)], *[R(pre + 'sdd%d' % i, 0, 1) for i in range(7)]) if sd else None
        return gc.Transformation('A', 'B', ref, *v, *r, tf_sd=tf_sd)

    xyz = lambda: (R('x', -10 ** 7, 10 ** 7), R('y', -10 ** 7, 10 ** 7), R('z', -10 ** 7, 10 ** 7))
    ep = lambda: SymDate(R('dday', -20000, 20000, is_int=True) + datetime.date(2020, 1, 1).toordinal())
    S = []
    a = S.append
    # convert
    a(('convert.polar2rect', lambda: (cv.polar2rect, (R('r', 0, 10 ** 7), R('th', 0, 360)))))
    a(('convert.rect2polar', lambda: (cv.rect2polar, (R('x', -10 ** 7, 10 ** 7), R('y', -10 ** 7, 10 ** 7)))))
    a(('convert.rect_radius', lambda: (cv.rect_radius, (ell(),))))
    a(('convert.alpha_coeff', lambda: (cv.alpha_coeff, (ell(),))))
    a(('convert.beta_coeff', lambda: (cv.beta_coeff, (ell(),))))
    a(('convert.geo2grid', lambda: (cv.geo2grid, (R('lat', -80, 84), R('lon', -180, 179), 0, ell(), gc.utm))))
    a(('convert.geo2grid[isg]', lambda: (cv.geo2grid, (R('lat', -80, 84), R('lon', 141, 153), 551, gc.ans, gc.isg))))
    a(('convert.grid2geo', lambda: (cv.grid2geo, (R('zone', 1, 60, is_int=True), R('east', 100000, 900000), R('north', 0, 10 ** 7), 'south', ell(), gc.utm))))
    a(('convert.xyz2llh', lambda: (cv.xyz2llh, xyz() + (ell(),))))
    a(('convert.llh2xyz', lambda: (cv.llh2xyz, (R('lat', -90, 90), R('lon', -180, 180), R('h', -1000, 9000), ell()))))
    a(('convert.date_to_yyyydoy', lambda: (cv.date_to_yyyydoy, (datetime.date(2020, 3, 1),))))
    a(('convert.yyyydoy_to_date', lambda: (cv.yyyydoy_to_date, ('2020.061',))))
    # geodesy
    a(('geodesy.enu2xyz', lambda: (gd.enu2xyz, (R('lat', -90, 90), R('lon', -180, 180), R('e', -1e3, 1e3), R('n', -1e3, 1e3), R('u', -1e3, 1e3)))))
    a(('geodesy.xyz2enu', lambda: (gd.xyz2enu, (R('lat', -90, 90), R('lon', -180, 180)) + xyz())))
    a(('geodesy.vincdir', lambda: (gd.vincdir, (R('lat1', -90, 90), R('lon1', -180, 180), R('az', 0, 360), R('s', 0, 2 * 10 ** 7), ell()))))
    a(('geodesy.vincinv', lambda: (gd.vincinv, (R('lat1', -90, 90), R('lon1', -180, 180), R('lat2', -90, 90), R('lon2', -180, 180), ell()))))
    a(('geodesy.rho', lambda: (gd.rho, (R('lat', -90, 90), ell()))))
    a(('geodesy.nu', lambda: (gd.nu, (R('lat', -90, 90), ell()))))
    a(('geodesy.line_sf', lambda: (gd.line_sf, (55, R('e1', 10 ** 5, 9 * 10 ** 5), R('n1', 10 ** 6, 9 * 10 ** 6), 55, R('e2', 10 ** 5, 9 * 10 ** 5), R('n2', 10 ** 6, 9 * 10 ** 6), 'south', gc.grs80))))
    a(('geodesy.vincinv_utm', lambda: (gd.vincinv_utm, (55, R('e1', 10 ** 5, 9 * 10 ** 5), R('n1', 10 ** 6, 9 * 10 ** 6), 55, R('e2', 10 ** 5, 9 * 10 ** 5), R('n2', 10 ** 6, 9 * 10 ** 6), 'south', gc.grs80))))
    a(('geodesy.vincdir_utm', lambda: (gd.vincdir_utm, (55, R('e1', 10 ** 5, 9 * 10 ** 5), R('n1', 10 ** 6, 9 * 10 ** 6), R('brg', 0, 360), R('gd', 1, 10 ** 5), 'south', gc.grs80))))
    # statistics
    a(('statistics.rotation_matrix', lambda: (gs.rotation_matrix, (R('lat', -90, 90), R('lon', -180, 180)))))
    a(('statistics.vcv_cart2local', lambda: (gs.vcv_cart2local, (vcv(), R('lat', -90, 90), R('lon', -180, 180)))))
    a(('statistics.vcv_local2cart', lambda: (gs.vcv_local2cart, (vcv(), R('lat', -90, 90), R('lon', -180, 180)))))
    a(('statistics.vcv_local2cart[3x1]', lambda: (gs.vcv_local2cart, (npx.FArr([[R('d0', 0, 9)], [R('d1', 0, 9)], [R('d2', 0, 9)]]), R('lat', -90, 90), R('lon', -180, 180)))))
    a(('statistics.error_ellipse', lambda: (gs.error_ellipse, (vcv(),))))
    a(('statistics.relative_error', lambda: (gs.relative_error, (R('lat', -90, 90), R('lon', -180, 180), vcv(), vcv(), vcv()))))
    # a fixed first station (null covariance): special-cased inputs are where results get aliased to arguments
    a(('statistics.relative_error[fixed station]', lambda: (gs.relative_error, (R('lat', -90, 90), R('lon', -180, 180), npx.FArr([[0.0] * 3 for _ in range(3)]),
                                                                               vcv(), npx.FArr([[0.0] * 3 for _ in range(3)])))))
    a(('statistics.vcv_cart2local[null]', lambda: (gs.vcv_cart2local, (npx.FArr([[0.0] * 3 for _ in range(3)]), R('lat', -90, 90), R('lon', -180, 180)))))
    a(('statistics.circ_hz_pu', lambda: (gs.circ_hz_pu, (R('sa', 1, 10), R('sb', 0, 1)))))
    a(('statistics.k_val95', lambda: (gs.k_val95, (R('dof', -5, 200, is_int=True),))))
    # survey
    a(('survey.first_vel_params', lambda: (sv.first_vel_params, (R('wl', Fraction(4, 10), Fraction(16, 10)), None, R('nref', 1, 2)))))
    a(('survey.part_h2o_vap_press', lambda: (sv.part_h2o_vap_press, (R('t', -20, 45), R('p', 650, 1100), R('h', 0, 100)))))
    a(('survey.first_vel_corrn', lambda: (sv.first_vel_corrn, (R('d', 1, 50000), (R('c', 0, 500), R('dd', 0, 200)), R('t', -20, 45), R('p', 650, 1100), R('h', 0, 100)))))
    a(('survey.first_vel_corrn[CO2]', lambda: (sv.first_vel_corrn, (R('d', 1, 50000), (R('c', 0, 500), R('dd', 0, 200)), R('t', -20, 45), R('p', 650, 1100), R('h', 0, 100), None, R('xc', 300, 600), R('wl', Fraction(4, 10), Fraction(16, 10))))))
    a(('survey.mets_partial_differentials', lambda: (sv.mets_partial_differentials, (R('gri', 1, 2), R('t', -20, 45), R('p', 650, 1100), R('h', 1, 100)))))
    a(('survey.precise_inst_ht', lambda: (sv.precise_inst_ht, ([R('v1', 91, 92), R('v2', 92, 93), R('v3', 93, 94), R('v4', 94, 95)], R('sp', Fraction(1, 10), 1), R('off', 0, 2)))))
    a(('survey.joins', lambda: (sv.joins, (R('e1', -1e6, 1e6), R('n1', -1e6, 1e6), R('e2', -1e6, 1e6), R('n2', -1e6, 1e6)))))
    a(('survey.radiations', lambda: (sv.radiations, (R('e1', -1e6, 1e6), R('n1', -1e6, 1e6), R('brg', 0, 360), R('d', 0, 1e5), R('rot', -10, 10), R('k', Fraction(1, 2), 2)))))
    a(('survey.va_conv', lambda: (sv.va_conv, (R('za', 1, 179), R('sd', Fraction(1, 10), 50000), R('hi', -5, 5), R('ht', -5, 5)))))
    a(('survey.group_refractivity', lambda: (sv.group_refractivity, (R('wl', Fraction(4, 10), Fraction(16, 10)), R('t', -20, 45), R('p', 650, 1100), R('e', 0, 40), R('xc', 300, 600)))))
    a(('survey.phase_refractivity', lambda: (sv.phase_refractivity, (R('wl', Fraction(4, 10), Fraction(16, 10)), R('t', -20, 45), R('p', 650, 1100), R('e', 0, 40), R('xc', 300, 600)))))
    # constants operators
    a(('Transformation.__neg__', lambda: ((lambda t: -t), (tset('a_', rates=True, ref=datetime.date(2010, 1, 1)),))))
    a(('Transformation.__add__', lambda: ((lambda t, d: t + d), (tset('a_', rates=True, ref=datetime.date(2010, 1, 1)), ep()))))
    # a static 7-parameter set (reference epoch 0) shifted to a date, and conform14 on it: whatever the outcome (the pinned code raises a
    # TypeError for date - int), the set handed in must be left as it was
    a(('Transformation.__add__[static set, ref_epoch 0]', lambda: ((lambda t, d: t + d), (tset('s_', ref=0), ep()))))
    a(('transform.conform14[static set, ref_epoch 0]', lambda: (tr.conform14, xyz() + (ep(), tset('s_', ref=0)))))
    a(('constants.iers2trans', lambda: (gc.iers2trans, ('X', 'Y', datetime.date(2000, 1, 1)) + tuple(R('p%d' % i, -100, 100) for i in range(14)))))
    # transform: sequences with two same-labelled sets, with and without covariance, shipped constants
    a(('transform.conform7[two sets, vcv]', lambda: ((lambda x, y, z, t1, t2, q: (tr.conform7(x, y, z, t1, q), tr.conform7(x, y, z, t2, q), tr.conform7(x, y, z, t1))),
                                                      xyz() + (tset('a_'), tset('b_'), vcv()))))
    a(('transform.conform7[shipped gda94_to_gda2020, vcv]', lambda: (tr.conform7, xyz() + (gc.gda94_to_gda2020, vcv()))))
    a(('transform.conform14[two sets, vcv]', lambda: ((lambda x, y, z, e, t1, t2, q: (tr.conform14(x, y, z, e, t1, q), tr.conform14(x, y, z, e, t2, q))),
                                                       xyz() + (ep(), tset('a_', rates=True, ref=datetime.date(2020, 1, 1)), tset('b_', rates=True, ref=datetime.date(2020, 1, 1)), vcv()))))
    a(('transform.conform14[shipped itrf2014_to_gda2020, vcv]', lambda: (tr.conform14, xyz() + (ep(), gc.itrf2014_to_gda2020, vcv()))))
    a(('transform.transform_atrf2014_to_gda2020[vcv]', lambda: (tr.transform_atrf2014_to_gda2020, xyz() + (ep(), vcv()))))
    a(('transform.transform_gda2020_to_atrf2014[vcv]', lambda: (tr.transform_gda2020_to_atrf2014, xyz() + (ep(), vcv()))))
    a(('transform.transform_mga94_to_mga2020[vcv]', lambda: (tr.transform_mga94_to_mga2020, (55, R('east', 2 * 10 ** 5, 8 * 10 ** 5), R('north', 2 * 10 ** 6, 9 * 10 ** 6), R('h', -100, 3000), vcv()))))
    a(('transform.transform_mga2020_to_mga94', lambda: (tr.transform_mga2020_to_mga94, (55, R('east', 2 * 10 ** 5, 8 * 10 ** 5), R('north', 2 * 10 ** 6, 9 * 10 ** 6)))))
    if concrete_heavy:
        def wrap(mk):
            def f():
                mode['concrete'] = True
                try:
                    return mk()
                finally:
                    mode['concrete'] = False
            return f
        S = [(n, wrap(mk)) if n in HEAVY else (n, mk) for n, mk in S]
    return S


def _flat(v, _seen=None):
    _seen = set() if _seen is None else _seen
    if isinstance(v, (list, tuple)):
        out = []
        for x in v:
            out += _flat(x, _seen)
        return out
    try:
        import numpy as np
        if isinstance(v, np.ndarray):
            return _flat(v.reshape(-1).tolist())
    except Exception:  # noqa
        pass
    if hasattr(v, '__dict__') and not isinstance(v, (types.ModuleType, types.FunctionType, type)) and type(v).__module__.startswith('geodepy'):
        if id(v) in _seen:           # objects that link back to one another (a cycle) are flattened once
            return ['<cycle %s>' % type(v).__name__]
        _seen.add(id(v))
        out = []
        for k in sorted(vars(v)):
            out += _flat(getattr(v, k), _seen)
        return out
    return [v]


def check_spec(name, mk, tier, seed):
    gc, cv, gd, gs, sv, tr, ga = _mods()
    mods = [gc, cv, gd, gs, sv, tr, ga]
    maxp = 8 if tier == 'quick' else 40
    record = {}

    def run():
        fn, args = mk()
        def call():
            # an exception is an outcome like any other: what the call left behind is still compared
            try:
                return fn(*args)
            except Exception as ex:  # noqa
                return ('raised', type(ex).__name__)
        before_args = _snap_val(list(args))
        st0 = full_state(mods)
        r1 = call()
        mid_args = _snap_val(list(args))
        st1 = full_state(mods)
        r2 = call()
        st2 = full_state(mods)
        return r1, r2, before_args == mid_args, diff_state(st0, st1) + diff_state(st1, st2)
    out = []
    from checks import tmcommon as TC
    import contextlib
    summ = TC.summaries(cv) if not any(k in name for k in ('alpha_coeff', 'beta_coeff', 'rect_radius')) else contextlib.nullcontext()
    from checks.common import swap_globals
    from vsym import mathx

    def s_mean(xs):
        xs = list(xs)
        return sum(xs[1:], xs[0]) / len(xs)

    def s_stdev(xs):
        xs = list(xs)
        m = s_mean(xs)
        return mathx.sqrt(sum(((x - m) ** 2 for x in xs[1:]), (xs[0] - m) ** 2) / (len(xs) - 1))
    with Barrier(gc) as bar, swap_global(tr, 'hp2dec', hpdec_uf), summ, swap_globals(sv, mean=s_mean, stdev=s_stdev):
        paths, st = explore(run, max_paths=maxp, loop_bound=1, max_decisions=30)
        writes = list(bar.log)
    nret = 0
    shown = set()
    for p in paths:
        if p.kind != 'return':
            continue
        nret += 1
        r1, r2, args_same, sdiff = p.value
        if sdiff and 'state' not in shown:
            shown.add('state')
            out.append(ob.ground_violation('O3', '%s changes module-level state %s' % (name, sdiff[:4]), PID, 'O3:hidden-state:' + sdiff[0],
                                           'oracles.c09:purity', {'what': name}))
        if not args_same and 'args' not in shown:
            shown.add('args')
            out.append(ob.ground_violation('O2', '%s modifies an argument supplied by the caller' % name, PID, 'O2:arg:' + name.split('.')[-1].split('[')[0],
                                           'oracles.c09:purity', {'what': name}))
        f1, f2 = _flat(r1), _flat(r2)
        same = len(f1) == len(f2)
        eqs = []
        if same:
            for x, y in zip(f1, f2):
                if isinstance(x, (SymReal, SymBool)) or isinstance(y, (SymReal, SymBool)):
                    try:
                        eqs.append(toz(x) == toz(y))
                    except TypeError:
                        same = False
                elif isinstance(x, float) and isinstance(y, float):
                    same = same and (x == y or (x != x and y != y))
                elif isinstance(x, (int, str, bool, type(None), datetime.date, Fraction)):
                    same = same and x == y
        if not same:
            out.append(ob.ground_violation('O3', '%s: repeated call returns a different result' % name, PID, 'O3:repeat:' + name, 'oracles.c09:purity', {'what': name}))
        elif eqs:
            v = solve.prove(ob.path_conds(p), z3.And(*eqs), timeout_s=10, portfolio=False)
            if v.status == 'unsat':
                out.append(ob.res('O3', '%s: second call returns identical terms (path %d)' % (name, nret), 'proved', [ob.qrec('Q1', v)]))
            else:
                out.append(ob.ground_violation('O3', '%s: repeated call returns different terms' % name, PID, 'O3:repeat:' + name, 'oracles.c09:purity',
                                               {'what': name}, queries=[ob.qrec('Q1', v)]))
    if writes:
        w = sorted(set(writes))
        out.append(ob.ground_violation('O1', '%s writes to shipped constants: %s' % (name, w[:4]), PID, 'O1:write:' + w[0][0].split('.')[0],
                                       'oracles.c09:purity', {'what': name}))
    v = solve.prove([], z3.BoolVal(True), 5, False)
    if nret == 0:
        kinds = sorted({'%s:%s' % (p.kind, type(p.value).__name__ if p.kind == 'raise' else p.value) for p in paths})
        out.append(ob.res('O1', name, 'inconclusive', [], 'no returning path (%s)' % kinds))
    else:
        if not writes:
            out.append(ob.res('O1', '%s: no write to a shipped constant on %d paths' % (name, len(paths)), 'proved', [ob.qrec('frame', v)], paths=len(paths)))
        if 'args' not in shown:
            out.append(ob.res('O2', '%s: arguments unchanged on %d returning paths' % (name, nret), 'proved', [ob.qrec('frame', v)]))
        if 'state' not in shown:
            out.append(ob.res('O3', '%s: module-level state unchanged on %d returning paths' % (name, nret), 'proved', [ob.qrec('frame', v)]))
    return out


def _mk_group(idxs):
    def g(tier, seed):
        sp = specs(tier, concrete_heavy=(tier == 'quick'))
        out = []
        for i in idxs:
            if i < len(sp):
                out += check_spec(sp[i][0], sp[i][1], tier, seed)
        return out
    return g


def groups(tier):
    names = [n for n, _ in specs(tier)]
    return [(('s%02d_' % i) + n.replace('[', '_').replace(']', '').replace(' ', '_').replace(',', ''), _mk_group([i])) for i, n in enumerate(names)]
