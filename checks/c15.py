"""C15 - coordinate objects convert consistently and carry heights unchanged."""
import z3
from vsym import core, solve, ob
from vsym.core import SymReal, SymBool, Fraction, ratval, toz, explore, fresh_real
from checks.common import uf_call, swap_globals, enc

PID = 'C15'
META = {
    'level': 'other',
    'explanation': 'Wiring by bounded symbolic execution: CoordCart / CoordGeo / CoordTM methods (real source) on symbolic coordinates, heights '
                   '(present with symbolic value incl. exactly 0.0, absent, in every combination), a symbolic ellipsoid, UTM / ISG / symbolic '
                   'projection and all six notations, with xyz2llh, llh2xyz, grid2geo, geo2grid (hemisphere label an uninterpreted predicate) and '
                   'dec2hp/hp2dec as argument-recording summaries: every conversion is proved to return exactly what the functional conversion '
                   'gives for the same ellipsoid, projection and notation, heights are preserved by geo<->tm, N = h - H in every conversion to or '
                   'from Cartesian, the hemisphere flag follows the label returned by the grid conversion, and notation() returns the same angle '
                   'in the requested class for all 36 source/target pairs.',
    'functions': ['geodepy.coord.CoordCart.geo/tm', 'geodepy.coord.CoordGeo.cart/tm/notation', 'geodepy.coord.CoordTM.geo/cart',
                  'angle-class plumbing reached from them (DECAngle/HPAngle/GONAngle/DMSAngle/DDMAngle constructors and methods)'],
    'bounds': {'coordinates': 'symbolic reals', 'heights': 'symbolic in [-1000, 9000] (0 included) / absent', 'ellipsoid': 'symbolic',
               'projection': 'utm, isg and a symbolic Projection', 'notations': 'float, DECAngle, HPAngle, GONAngle, DMSAngle, DDMAngle'},
    'outside': ['0.3 mm closure of conversion chains: composition of C02/C03 bounds, not a query', 'decimal/binary effects inside HP conversion '
                '(dec2hp, hp2dec and HPAngle validation are summarised here; they are the subject of C08)'],
    'assumptions': ['callees are pure (C09)'],
}
DOM = {'x': (-10 ** 7, 10 ** 7), 'y': (-10 ** 7, 10 ** 7), 'z': (-10 ** 7, 10 ** 7), 'nval': (-100, 100), 'lat': (-80, 84), 'lon': (-180, 180),
       'h': (-1000, 9000), 'H': (-1000, 9000), 'east': (100000, 900000), 'north': (0, 10 ** 7), 'zone': (1, 60), 'a': (6300000, 6400000), 'invf': (280, 320),
       'v': (-360, 360)}
NOTATIONS = ['float', 'DECAngle', 'HPAngle', 'GONAngle', 'DMSAngle', 'DDMAngle']
NORTH = z3.Function('GEO2GRID_north', z3.RealSort(), z3.RealSort(), z3.BoolSort())


def _mods():
    import geodepy.constants as gc
    import geodepy.coord as co
    import geodepy.angles as ga
    return gc, co, ga


class patched_angles:
    """dec2hp / hp2dec summarised, HPAngle validation skipped for symbolic values (all three are C08's subject)"""

    def __init__(self, ga):
        self.ga = ga

    depth = 0

    def __enter__(self):
        ga = self.ga
        patched_angles.depth += 1
        if patched_angles.depth > 1:
            return
        self.old = (ga.dec2hp, ga.hp2dec, ga.HPAngle.__init__)
        o_d2h, o_h2d, o_init = self.old

        def dec2hp(x):
            return uf_call('dec2hp', 1, x)[0] if isinstance(x, SymReal) else o_d2h(x)

        def hp2dec(x):
            return uf_call('hp2dec', 1, x)[0] if isinstance(x, SymReal) else o_h2d(x)

        def init(self_, hp_angle=0.0):
            if isinstance(hp_angle, SymReal):
                self_.hp_angle = hp_angle
            else:
                o_init(self_, hp_angle)
        ga.__dict__['dec2hp'], ga.__dict__['hp2dec'] = dec2hp, hp2dec
        ga.HPAngle.__init__ = init

    def __exit__(self, *a):
        patched_angles.depth -= 1
        if patched_angles.depth > 0:
            return
        self.ga.__dict__['dec2hp'], self.ga.__dict__['hp2dec'], self.ga.HPAngle.__init__ = self.old


def summaries(gc):
    def S_XYZ(x, y, z, ellipsoid=gc.grs80):
        return tuple(uf_call('xyz2llh', 3, x, y, z, ellipsoid))

    def S_LLH(lat, lon, ellht=0, ellipsoid=gc.grs80):
        return tuple(uf_call('llh2xyz', 3, lat, lon, ellht, ellipsoid))

    def S_G2G(zone, east, north, hemisphere='south', ellipsoid=gc.grs80, prj=gc.utm):
        return tuple(uf_call('grid2geo', 4, zone, east, north, hemisphere.lower(), ellipsoid, prj))

    def S_GEO(lat, lon, zone=0, ellipsoid=gc.grs80, prj=gc.utm):
        o = uf_call('geo2grid', 5, lat, lon, zone, ellipsoid, prj)
        o[0] = SymReal(o[0].z, is_int=True)          # the zone number is an integer
        la, lo = enc(lat)[0][0], enc(lon)[0][0]
        hemi = 'North' if bool(SymBool(NORTH(la, lo))) else 'South'
        return (hemi,) + tuple(o)
    return dict(xyz2llh=S_XYZ, llh2xyz=S_LLH, grid2geo=S_G2G, geo2grid=S_GEO)


def mk_angle(ga, kind, v):
    if kind == 'float':
        return core.LitFloat(v) if not isinstance(v, SymReal) else v
    if kind == 'DECAngle':
        return ga.DECAngle(v)
    if kind == 'HPAngle':
        return ga.HPAngle(v)
    if kind == 'GONAngle':
        return ga.GONAngle(v)
    if kind == 'DMSAngle':
        return ga.dec2dms(v)
    return ga.dec2ddm(v)


def functional(ga, kind, dec):
    """what the functional conversion gives for a decimal-degree value in the requested notation"""
    if kind == 'float':
        return dec
    return {'DECAngle': ga.DECAngle, 'HPAngle': ga.dec2hpa, 'GONAngle': ga.dec2gona, 'DMSAngle': ga.dec2dms, 'DDMAngle': ga.dec2ddm}[kind](dec)


def same(a, b):
    """z3 formula: the two values are the same number / the same angle object (class and fields) / both None"""
    if a is None or b is None:
        return z3.BoolVal(a is None and b is None)
    if isinstance(a, (SymReal, int, float)) and isinstance(b, (SymReal, int, float)) and not isinstance(a, bool) and not isinstance(b, bool):
        from vsym import mathx
        ta, tb = type(a), type(b)
        if hasattr(ta, 'dec') != hasattr(tb, 'dec'):
            return z3.BoolVal(False)
        if hasattr(ta, 'dec'):        # DECAngle (float subclass)
            return z3.And(z3.BoolVal(ta.__name__ == tb.__name__), toz(a.dec_angle) == toz(b.dec_angle))
        return toz(a) == toz(b)
    if isinstance(a, (bool, str)) or isinstance(b, (bool, str)):
        return z3.BoolVal(a == b)
    if type(a).__name__ != type(b).__name__:
        return z3.BoolVal(False)
    va, vb = vars(a), vars(b)
    if set(va) != set(vb):
        return z3.BoolVal(False)
    return z3.And(*[same(va[k], vb[k]) for k in va]) if va else z3.BoolVal(True)


class ref_ctx:
    """evaluate reference expressions under the path's conditions (sign decisions are replayed, new ones recorded)"""

    def __init__(self, p):
        self.p = p
        self.extra = []

    def __enter__(self):
        core.CTX = core.Ctx(assumptions=self.p.assumptions + self.p.pc)
        return self

    def __exit__(self, *a):
        self.extra = list(core.CTX.pc) + list(core.CTX.facts)
        core.CTX = None
        return False


def sym_ell(gc):
    return gc.Ellipsoid(fresh_real('a', 6300000, 6400000), fresh_real('invf', 280, 320))


def opt_height(name, present):
    return fresh_real(name, -1000, 9000) if present else None


def _decide(out, p, tag, goal, key, mk, oracle='oracles.c15:objects', extra_points=(), extra=()):
    out.append(ob.decide_goal('O1' if key.startswith('O1') else key[:2], tag, ob.path_conds(p) + list(extra), goal, pid=PID, oracle=oracle, args_from_model=mk,
                              key=key, domain=DOM, num_conds=p.assumptions + p.pc, timeout_s=10,
                              extra_points=list(extra_points) + [{'lat': 0, 'lon': 10, 'h': 0, 'H': 0, 'nval': 0, 'x': 6378137, 'y': 0, 'z': 0,
                                                                   'a': 6378137, 'invf': 298, 'east': 500000, 'north': 0, 'zone': 31}]))


def g_cart(tier, seed):
    gc, co, ga = _mods()
    S = summaries(gc)
    out = []
    nots = NOTATIONS if tier == 'thorough' else ['float', 'DECAngle', 'HPAngle', 'DMSAngle']
    for nk in nots:
        for has_n in (True, False):
            def run():
                ell = sym_ell(gc)
                x, y, z = (fresh_real(k, -10 ** 7, 10 ** 7) for k in 'xyz')
                n = fresh_real('nval', -100, 100) if has_n else None
                c = co.CoordCart(x, y, z, n)
                T = float if nk == 'float' else getattr(ga, nk)
                T = getattr(co, nk) if nk != 'float' else co.__dict__['float']
                return (x, y, z, n, ell), c.geo(ell, T), c.tm(ell, gc.isg)
            with swap_globals(co, **S), patched_angles(ga):
                paths, st = explore(run, max_paths=16)
            mk = lambda env: {'env': env, 'what': 'cart'}
            nret = 0
            for p in paths:
                if p.kind != 'return':
                    _decide(out, p, 'CoordCart.geo(notation=%s): no exception (%r)' % (nk, p.value), z3.BoolVal(False), 'O1:raises', mk)
                    continue
                nret += 1
                (x, y, z, n, ell), g, t = p.value
                lat, lon, h = S['xyz2llh'](x, y, z, ell)
                with ref_ctx(p) as rc, patched_angles(ga):
                    elat, elon = functional(ga, nk, lat), functional(ga, nk, lon)
                    gd_lat, gd_lon = functional(ga, 'DECAngle', lat), functional(ga, 'DECAngle', lon)
                    eg = S['geo2grid'](gd_lat, gd_lon, 0, ell, gc.isg)
                goal = z3.And(same(g.lat, elat), same(g.lon, elon), same(g.ell_ht, h), same(g.orth_ht, (h - n) if n is not None else None))
                _decide(out, p, 'CoordCart(N %s).geo(ell, %s) = xyz2llh in that notation, orthometric height = h - N' % ('given' if has_n else 'absent', nk),
                        goal, 'O1:cart.geo', mk, extra=rc.extra)
                goal2 = z3.And(same(t.zone, eg[1]), same(t.east, eg[2]), same(t.north, eg[3]), same(t.ell_ht, h),
                               same(t.orth_ht, (h - n) if n is not None else None), z3.BoolVal(t.projection is gc.isg),
                               z3.BoolVal(bool(t.hemi_north)) == NORTH(toz(lat), toz(lon)))
                _decide(out, p, 'CoordCart(N %s).tm(ell, isg) = geo2grid of that position with the same ellipsoid and projection; heights carried' % (
                    'given' if has_n else 'absent'), goal2, 'O1:cart.tm', mk, extra=rc.extra)
            if nret == 0:
                out.append(ob.res('O1', 'CoordCart %s' % nk, 'inconclusive', [], 'no returning path'))
    return out


def g_geo(tier, seed):
    gc, co, ga = _mods()
    S = summaries(gc)
    out = []
    nots = NOTATIONS if tier == 'thorough' else ['float', 'HPAngle', 'DDMAngle']
    for nk in nots:
        for hh, HH in ((True, True), (True, False), (False, True), (False, False)):
            def run():
                ell = sym_ell(gc)
                lat, lon = fresh_real('lat', -80, 84), fresh_real('lon', -180, 180)
                h, H = opt_height('h', hh), opt_height('H', HH)
                prj = gc.Projection(fresh_real('FE', 0, 10 ** 6), fresh_real('FN', 0, 10 ** 7), fresh_real('k0', Fraction(9, 10), 1), 2, fresh_real('cm1', -180, 180))
                g = co.CoordGeo(mk_angle(ga, nk, lat), mk_angle(ga, nk, lon), h, H)
                return (lat, lon, h, H, ell, prj, g), g.cart(ell), g.tm(ell, prj)
            with swap_globals(co, **S), patched_angles(ga):
                paths, st = explore(run, max_paths=16)
            mk = lambda env: {'env': env, 'what': 'geo'}
            for p in paths:
                if p.kind != 'return':
                    _decide(out, p, 'CoordGeo(%s).cart/tm: no exception (%r)' % (nk, p.value), z3.BoolVal(False), 'O1:raises', mk)
                    continue
                (lat, lon, h, H, ell, prj, g), c, t = p.value
                ex = S['llh2xyz'](g.lat, g.lon, h if h is not None else 0, ell)
                en = (h - H) if (h is not None and H is not None) else None
                goal = z3.And(same(c.xaxis, ex[0]), same(c.yaxis, ex[1]), same(c.zaxis, ex[2]), same(c.nval, en))
                _decide(out, p, 'CoordGeo(%s, h %s, H %s).cart(ell) = llh2xyz on that ellipsoid, N = h - H' % (nk, 'given' if hh else 'absent', 'given' if HH else 'absent'),
                        goal, 'O2:geo.cart', mk)
                with ref_ctx(p) as rc:
                    eg = S['geo2grid'](g.lat, g.lon, 0, ell, prj)
                la, lo = enc(g.lat)[0][0], enc(g.lon)[0][0]
                goal2 = z3.And(same(t.zone, eg[1]), same(t.east, eg[2]), same(t.north, eg[3]), same(t.ell_ht, h), same(t.orth_ht, H),
                               z3.BoolVal(t.projection is prj), z3.BoolVal(bool(t.hemi_north)) == NORTH(la, lo))
                _decide(out, p, 'CoordGeo(%s).tm(ell, prj) = geo2grid with that ellipsoid and projection; heights preserved; hemisphere = returned label' % nk,
                        goal2, 'O1:geo.tm', mk, extra=rc.extra)
    return out


def g_tm(tier, seed):
    gc, co, ga = _mods()
    S = summaries(gc)
    out = []
    nots = NOTATIONS if tier == 'thorough' else ['float', 'DECAngle', 'GONAngle', 'DMSAngle']
    for nk in nots:
        for north in (False, True):
            for hh, HH in ((True, True), (False, False), (True, False)):
                def run():
                    ell = sym_ell(gc)
                    zone = fresh_real('zone', 1, 60, is_int=True)
                    east, nn = fresh_real('east', 100000, 900000), fresh_real('north', 0, 10 ** 7)
                    h, H = opt_height('h', hh), opt_height('H', HH)
                    t = co.CoordTM(zone, east, nn, h, H, north, gc.isg)
                    T = getattr(co, nk) if nk != 'float' else co.__dict__['float']
                    return (zone, east, nn, h, H, ell, t), t.geo(ell, T), t.cart(ell)
                with swap_globals(co, **S), patched_angles(ga):
                    paths, st = explore(run, max_paths=16)
                mk = lambda env: {'env': env, 'what': 'tm'}
                for p in paths:
                    if p.kind != 'return':
                        _decide(out, p, 'CoordTM.geo(%s): no exception (%r)' % (nk, p.value), z3.BoolVal(False), 'O1:raises', mk)
                        continue
                    (zone, east, nn, h, H, ell, t), g, c = p.value
                    eg = S['grid2geo'](zone, east, nn, 'north' if north else 'south', ell, gc.isg)
                    with ref_ctx(p) as rc, patched_angles(ga):
                        elat, elon = functional(ga, nk, eg[0]), functional(ga, nk, eg[1])
                        dl, dn = functional(ga, 'DECAngle', eg[0]), functional(ga, 'DECAngle', eg[1])
                    goal = z3.And(same(g.lat, elat), same(g.lon, elon), same(g.ell_ht, h), same(g.orth_ht, H))
                    _decide(out, p, 'CoordTM(%s, isg).geo(ell, %s) = grid2geo with that ellipsoid, the object\'s projection and hemisphere; heights preserved' % (
                        'north' if north else 'south', nk), goal, 'O1:tm.geo', mk, extra=rc.extra)
                    ex = S['llh2xyz'](dl, dn, h if h is not None else 0, ell)
                    en = (h - H) if (h is not None and H is not None) else None
                    goal2 = z3.And(same(c.xaxis, ex[0]), same(c.yaxis, ex[1]), same(c.zaxis, ex[2]), same(c.nval, en))
                    _decide(out, p, 'CoordTM.cart(ell) = llh2xyz(grid2geo(...)) on that ellipsoid, N = h - H', goal2, 'O2:tm.cart', mk, extra=rc.extra)
    return out


def g_notation(tier, seed):
    gc, co, ga = _mods()
    out = []
    for src in NOTATIONS:
        for dst in NOTATIONS:
            def run():
                lat, lon = fresh_real('lat', -80, 84), fresh_real('lon', -180, 180)
                h, H = fresh_real('h', -1000, 9000), fresh_real('H', -1000, 9000)
                g = co.CoordGeo(mk_angle(ga, src, lat), mk_angle(ga, src, lon), h, H)
                T = getattr(co, dst) if dst != 'float' else co.__dict__['float']
                return (g, h, H), g.notation(T)
            with patched_angles(ga):
                paths, st = explore(run, max_paths=12)
            mk = lambda env: {'env': env, 'what': 'notation', 'src': src, 'dst': dst}
            nret = 0
            for p in paths:
                if p.kind == 'cut':
                    out.append(ob.res('O3', 'notation %s -> %s' % (src, dst), 'inconclusive', [], 'path cut: %s' % p.value))
                    continue
                if p.kind != 'return':
                    _decide(out, p, 'CoordGeo(%s).notation(%s): no exception (%s: %s)' % (src, dst, type(p.value).__name__, p.value), z3.BoolVal(False),
                            'O3:notation-raises', mk)
                    continue
                nret += 1
                (g, h, H), r = p.value
                rc = ref_ctx(p)
                rc.__enter__()
                try:
                    with patched_angles(ga):
                        if src == 'float':
                            elat, elon = functional(ga, dst, g.lat), functional(ga, dst, g.lon)
                        else:
                            meth = {'float': 'dec', 'DECAngle': 'deca', 'HPAngle': 'hpa', 'GONAngle': 'gona', 'DMSAngle': 'dms', 'DDMAngle': 'ddm'}[dst]
                            if dst == src:
                                elat, elon = g.lat, g.lon
                            else:
                                elat, elon = getattr(g.lat, meth)(), getattr(g.lon, meth)()
                    extra = list(core.CTX.pc) + list(core.CTX.facts)
                except (core.PathAbort, core.PathCut, AttributeError) as e:
                    out.append(ob.res('O3', 'notation %s -> %s' % (src, dst), 'inconclusive', [], 'reference not computable: %r' % (e,)))
                    continue
                finally:
                    core.CTX = None
                goal = z3.And(same(r.lat, elat), same(r.lon, elon), same(r.ell_ht, h), same(r.orth_ht, H))
                out.append(ob.decide_goal('O3', 'CoordGeo(%s).notation(%s) = the same angle in class %s, heights unchanged' % (src, dst, dst),
                                          ob.path_conds(p) + extra, goal, pid=PID, oracle='oracles.c15:objects', args_from_model=mk, key='O3:notation',
                                          domain=DOM, num_conds=p.assumptions + p.pc, timeout_s=10))
            if nret == 0 and not any(r['name'].startswith('CoordGeo(%s).notation(%s)' % (src, dst)) for r in out):
                out.append(ob.res('O3', 'notation %s -> %s' % (src, dst), 'inconclusive', [], 'no returning path'))
    return out


def _patched(g):
    def f(tier, seed):
        gc, co, ga = _mods()
        with patched_angles(ga):
            return g(tier, seed)
    return f


def groups(tier):
    return [('cart', _patched(g_cart)), ('geo', _patched(g_geo)), ('tm', _patched(g_tm)), ('notation', _patched(g_notation))]
