"""C16 - local-frame rotations preserve geometry and covariance; error measures match."""
import z3
from vsym import core, solve, ob, mathx, npx
from vsym.core import SymReal, Fraction, ratval, toz, explore, fresh_real
from checks import tmcommon as TC

PID = 'C16'
QT = {'quick': 20, 'thorough': 120}
META = {
    'level': 'other',
    'explanation': 'Bounded symbolic execution of geodepy.statistics (rotation_matrix, vcv_cart2local, vcv_local2cart, error_ellipse, '
                   'relative_error, k_val95) and geodepy.geodesy.enu2xyz/xyz2enu (real source) with symbolic latitude/longitude, vectors '
                   'and covariance matrices (numpy facade over object arrays): outputs are proved entry-wise equal to the textbook '
                   'rotation R(lat, lon) and the congruences R^T V R / R V R^T; orthonormality, det = +1, up axis = ellipsoid normal, '
                   'invariance of symmetry, trace, principal minors and determinant, round trips, error-ellipse trace/determinant/ordering/'
                   'eigenvector relations and the relative-error combination are NRA lemmas modulo sin^2 + cos^2 = 1 (solver portfolio).',
    'functions': ['geodepy.statistics.rotation_matrix', 'geodepy.statistics.vcv_cart2local', 'geodepy.statistics.vcv_local2cart',
                  'geodepy.statistics.error_ellipse', 'geodepy.statistics.relative_error', 'geodepy.statistics.k_val95',
                  'geodepy.geodesy.enu2xyz', 'geodepy.geodesy.xyz2enu'],
    'bounds': {'lat': '[-90, 90]', 'lon': '[-360, 360]', 'vectors': '|component| <= 1e7', 'covariances': 'arbitrary real symmetric entries in [-100, 100]',
               'degrees of freedom': 'all integers (symbolic) and non-integers'},
    'outside': ['equality of the 120 tabulated coverage factors with Student-t quantiles (inverse incomplete beta: no solver theory) - '
                'NOT claimed', 'IEEE rounding', 'numerical conditioning for condition numbers up to 1e8'],
    'assumptions': ['floats are reals; sin/cos uninterpreted with sin^2+cos^2=1; sqrt(x)^2 = x, sqrt >= 0; atan2 half-angle instance '
                    'cos(2t) = c^2 - s^2, sin(2t) = 2sc for the ellipse orientation'],
}
DOM = {'lat': (-90, 90), 'lon': (-360, 360)}
for _i in range(3):
    for _j in range(3):
        DOM['v%d%d' % (_i, _j)] = (-100, 100)
        DOM['w%d%d' % (_i, _j)] = (-100, 100)
        DOM['c%d%d' % (_i, _j)] = (-100, 100)
for _k in ('e', 'n', 'u', 'x', 'y', 'z'):
    DOM[_k] = (-10 ** 7, 10 ** 7)
for _k in ('d0', 'd1', 'd2'):
    DOM[_k] = (0, 100)


def _mods():
    import geodepy.statistics as gs
    import geodepy.geodesy as gd
    return gs, gd


def ref_R(lat, lon):
    la, lo = mathx.radians(lat), mathx.radians(lon)
    sl, cl, so, co = mathx.sin(la), mathx.cos(la), mathx.sin(lo), mathx.cos(lo)
    # columns: east, north, up (up = ellipsoid normal)
    return [[-so, -sl * co, cl * co],
            [co, -sl * so, cl * so],
            [0, cl, sl]]


def matmul(A, B):
    return [[sum((A[i][k] * B[k][j] for k in range(len(B))), 0) for j in range(len(B[0]))] for i in range(len(A))]


def transpose(A):
    return [list(r) for r in zip(*A)]


def sym_mat(pre, symmetric=True):
    m = [[None] * 3 for _ in range(3)]
    for i in range(3):
        for j in range(3):
            if symmetric and j < i:
                m[i][j] = m[j][i]
            else:
                m[i][j] = fresh_real('%s%d%d' % (pre, i, j), -100, 100)
    return m


def g_rotation(tier, seed):
    gs, gd = _mods()

    def run():
        lat, lon = fresh_real('lat', -90, 90), fresh_real('lon', -360, 360)
        e, n, u = (fresh_real(k, -10 ** 7, 10 ** 7) for k in 'enu')
        R = gs.rotation_matrix(lat, lon)
        xyz = gd.enu2xyz(lat, lon, e, n, u)
        back = gd.xyz2enu(lat, lon, *xyz)
        enu2 = gd.xyz2enu(lat, lon, e, n, u)
        return (lat, lon, e, n, u), R, xyz, back, enu2
    paths, st = explore(run, max_paths=40)
    out = []
    mk = lambda env: {'env': env}
    for p in paths:
        if p.kind != 'return':
            out.append(ob.decide_goal('O1', 'rotation_matrix/enu2xyz: no exception (%r)' % (p.value,), ob.path_conds(p), z3.BoolVal(False), pid=PID,
                                      oracle='oracles.c16:rotation', args_from_model=mk, key='O1:raises', domain=DOM, num_conds=p.assumptions + p.pc))
            continue
        (lat, lon, e, n, u), R, xyz, back, enu2 = p.value
        Rr, extra = TC.with_facts(lambda: ref_R(lat, lon))
        for i in range(3):
            for j in range(3):
                out.append(ob.decide_close('O1', 'rotation_matrix[%d,%d] = textbook local frame (east, north, up = normal) [%d path conds]' % (i, j, len(p.pc)),
                                           p, R[i, j], Rr[i][j], 0, pid=PID, key='O1:rotation', oracle='oracles.c16:rotation', domain=DOM,
                                           make_args=mk, extra_conds=extra, timeout_s=QT[tier], paths=len(paths),
                                           extra_points=[{'lat': -90, 'lon': 10}, {'lat': 90, 'lon': 10}, {'lat': 0, 'lon': 0}]))
        v = [e, n, u]
        ref_xyz = [sum((Rr[i][k] * v[k] for k in range(3)), 0) for i in range(3)]
        ref_enu = [sum((Rr[k][i] * v[k] for k in range(3)), 0) for i in range(3)]
        for i in range(3):
            out.append(ob.decide_close('O2', 'enu2xyz component %d = R . enu' % i, p, xyz[i], ref_xyz[i], 0, pid=PID, key='O2:enu2xyz',
                                       oracle='oracles.c16:rotation', domain=DOM, make_args=mk, extra_conds=extra, timeout_s=QT[tier]))
            out.append(ob.decide_close('O2', 'xyz2enu component %d = R^T . xyz' % i, p, enu2[i], ref_enu[i], 0, pid=PID, key='O2:xyz2enu',
                                       oracle='oracles.c16:rotation', domain=DOM, make_args=mk, extra_conds=extra, timeout_s=QT[tier]))
    return out


def _angles():
    s1, c1, s2, c2 = z3.Reals('s1 c1 s2 c2')
    conds = [s1 * s1 + c1 * c1 == 1, s2 * s2 + c2 * c2 == 1]
    R = [[-s2, -s1 * c2, c1 * c2], [c2, -s1 * s2, c1 * s2], [z3.RealVal(0), c1, s1]]
    return (s1, c1, s2, c2), conds, R


def _lemma(obn, name, conds, goal, tier):
    v = solve.prove(conds, goal, timeout_s=QT[tier])
    return ob.res(obn, name, 'proved' if v.status == 'unsat' else 'inconclusive', [ob.qrec('NRA', v)], 'solver=%s' % v.status)


def g_rotation_lemmas(tier, seed):
    """algebraic facts about the textbook frame (with sin/cos of latitude and longitude as reals on the unit circle)"""
    (s1, c1, s2, c2), conds, R = _angles()
    out = []
    RtR = matmul(transpose(R), R)
    goal = z3.And(*[RtR[i][j] == (1 if i == j else 0) for i in range(3) for j in range(3)])
    out.append(_lemma('O1', 'R^T R = I (orthonormal frame)', conds, goal, tier))
    det = (R[0][0] * (R[1][1] * R[2][2] - R[1][2] * R[2][1]) - R[0][1] * (R[1][0] * R[2][2] - R[1][2] * R[2][0])
           + R[0][2] * (R[1][0] * R[2][1] - R[1][1] * R[2][0]))
    out.append(_lemma('O1', 'det R = +1 (right-handed)', conds, det == 1, tier))
    x, y, z = z3.Reals('x y z')
    v = [x, y, z]
    Rv = [sum(R[i][k] * v[k] for k in range(3)) for i in range(3)]
    RtRv = [sum(R[k][i] * Rv[k] for k in range(3)) for i in range(3)]
    out.append(_lemma('O2', 'xyz2enu(enu2xyz(v)) = v', conds, z3.And(*[RtRv[i] == v[i] for i in range(3)]), tier))
    out.append(_lemma('O2', 'rotation preserves length', conds, sum(c * c for c in Rv) == sum(c * c for c in v), tier))
    return out


def g_vcv(tier, seed):
    gs, gd = _mods()
    out = []
    mk = lambda env: {'env': env}

    def run():
        lat, lon = fresh_real('lat', -90, 90), fresh_real('lon', -360, 360)
        V = sym_mat('v')
        d = [fresh_real('d%d' % i, 0, 100) for i in range(3)]
        arr = npx.FArr(V)
        col = npx.FArr([[d[0]], [d[1]], [d[2]]])
        return (lat, lon, V, d), gs.vcv_cart2local(arr, lat, lon), gs.vcv_local2cart(arr, lat, lon), \
            gs.vcv_cart2local(col, lat, lon), gs.vcv_local2cart(col, lat, lon)
    paths, st = explore(run, max_paths=40)
    for p in paths:
        if p.kind != 'return':
            out.append(ob.decide_goal('O3', 'vcv rotation: no exception (%r)' % (p.value,), ob.path_conds(p), z3.BoolVal(False), pid=PID,
                                      oracle='oracles.c16:vcv', args_from_model=mk, key='O3:raises', domain=DOM, num_conds=p.assumptions + p.pc))
            continue
        (lat, lon, V, d), c2l, l2c, c2l_col, l2c_col = p.value
        Rr, extra = TC.with_facts(lambda: ref_R(lat, lon))
        Rt = transpose(Rr)
        ref_c2l = matmul(matmul(Rt, V), Rr)
        ref_l2c = matmul(matmul(Rr, V), Rt)
        D = [[d[i] if i == j else 0 for j in range(3)] for i in range(3)]
        ref_c2l_col = matmul(matmul(Rt, D), Rr)
        ref_l2c_col = matmul(matmul(Rr, D), Rt)
        for i in range(3):
            for j in range(3):
                out.append(ob.decide_close('O3', 'vcv_cart2local[%d,%d] = (R^T V R)' % (i, j), p, c2l[i, j], ref_c2l[i][j], 0, pid=PID,
                                           key='O3:cart2local', oracle='oracles.c16:vcv', domain=DOM, make_args=mk, extra_conds=extra, timeout_s=QT[tier]))
                out.append(ob.decide_close('O3', 'vcv_local2cart[%d,%d] = (R V R^T)' % (i, j), p, l2c[i, j], ref_l2c[i][j], 0, pid=PID,
                                           key='O3:local2cart', oracle='oracles.c16:vcv', domain=DOM, make_args=mk, extra_conds=extra, timeout_s=QT[tier]))
            out.append(ob.decide_close('O3', 'vcv_cart2local(3x1 column)[%d] = diag(R^T diag(d) R)' % i, p, c2l_col[i, 0], ref_c2l_col[i][i], 0, pid=PID,
                                       key='O3:cart2local-column', oracle='oracles.c16:vcv', domain=DOM, make_args=mk, extra_conds=extra, timeout_s=QT[tier]))
            out.append(ob.decide_close('O3', 'vcv_local2cart(3x1 column)[%d] = diag(R diag(d) R^T)' % i, p, l2c_col[i, 0], ref_l2c_col[i][i], 0, pid=PID,
                                       key='O3:local2cart-column', oracle='oracles.c16:vcv', domain=DOM, make_args=mk, extra_conds=extra, timeout_s=QT[tier]))
        shp = (tuple(c2l_col.shape), tuple(l2c_col.shape))
        okshape = shp == ((3, 1), (3, 1))
        out.append(ob.res('O3', '3x1 variance column returned as a 3x1 column', 'proved' if okshape else 'inconclusive',
                          [ob.qrec('ground', solve.prove([], z3.BoolVal(okshape), 5, False))], 'shapes %s' % (shp,)))
    # wrong shapes are rejected
    def run_bad():
        return gs.vcv_cart2local(npx.FArr([[1.0, 2.0], [3.0, 4.0], [5.0, 6.0]]), 10.0, 20.0)
    pb, _ = explore(run_bad)
    ok = all(p.kind == 'raise' and isinstance(p.value, ValueError) for p in pb)
    out.append(ob.res('O3', '3x2 input is rejected', 'proved' if ok else 'inconclusive', [ob.qrec('ground', solve.prove([], z3.BoolVal(ok), 5, False))]))
    return out


def g_vcv_lemmas(tier, seed):
    (s1, c1, s2, c2), conds, R = _angles()
    V = [[None] * 3 for _ in range(3)]
    for i in range(3):
        for j in range(i, 3):
            V[i][j] = V[j][i] = z3.Real('v%d%d' % (i, j))
    Rt = transpose(R)
    L = matmul(matmul(Rt, V), R)
    out = []
    out.append(_lemma('O3', 'R^T V R is symmetric when V is', conds, z3.And(*[L[i][j] == L[j][i] for i in range(3) for j in range(i + 1, 3)]), tier))
    out.append(_lemma('O3', 'trace preserved', conds, L[0][0] + L[1][1] + L[2][2] == V[0][0] + V[1][1] + V[2][2], tier))

    def minors(M):
        return (M[0][0] * M[1][1] - M[0][1] * M[1][0]) + (M[0][0] * M[2][2] - M[0][2] * M[2][0]) + (M[1][1] * M[2][2] - M[1][2] * M[2][1])

    def det(M):
        return (M[0][0] * (M[1][1] * M[2][2] - M[1][2] * M[2][1]) - M[0][1] * (M[1][0] * M[2][2] - M[1][2] * M[2][0])
                + M[0][2] * (M[1][0] * M[2][1] - M[1][1] * M[2][0]))
    out.append(_lemma('O3', 'sum of principal 2x2 minors preserved', conds, minors(L) == minors(V), tier))
    out.append(_lemma('O3', 'determinant preserved (with trace and minors: eigenvalues preserved)', conds, det(L) == det(V), tier))
    B = matmul(matmul(R, L), Rt)
    out.append(_lemma('O3', 'local2cart(cart2local(V)) = V', conds, z3.And(*[B[i][j] == V[i][j] for i in range(3) for j in range(i, 3)]), tier))
    return out


def g_ellipse(tier, seed):
    gs, gd = _mods()
    out = []
    mk = lambda env: {'env': env}

    def run():
        V = sym_mat('v')
        core.CTX.assume((V[0][0] >= 0) & (V[1][1] >= 0) & (V[0][0] * V[1][1] - V[0][1] * V[0][1] >= 0))      # PSD horizontal block
        return V, gs.error_ellipse(npx.FArr(V))
    paths, st = explore(run, max_paths=20)
    for p in paths:
        if p.kind != 'return':
            out.append(ob.decide_goal('O4', 'error_ellipse: no exception on PSD input (%r)' % (p.value,), ob.path_conds(p), z3.BoolVal(False), pid=PID,
                                      oracle='oracles.c16:ellipse', args_from_model=mk, key='O4:raises', domain=DOM, num_conds=p.assumptions + p.pc))
            continue
        V, (a, b, ori) = p.value
        conds = ob.path_conds(p)
        az, bz = toz(a), toz(b)
        v00, v11, v01 = toz(V[0][0]), toz(V[1][1]), toz(V[0][1])
        for nm, goal in (('a^2 + b^2 = v00 + v11 (trace)', az * az + bz * bz == v00 + v11),
                         ('a^2 b^2 = v00 v11 - v01^2 (determinant)', az * az * bz * bz == v00 * v11 - v01 * v01),
                         ('a >= b >= 0', z3.And(az >= bz, bz >= 0))):
            out.append(ob.decide_goal('O4', 'error ellipse: ' + nm, conds, goal, pid=PID, oracle='oracles.c16:ellipse', args_from_model=mk,
                                      key='O4:ellipse', domain=DOM, num_conds=p.assumptions + p.pc, timeout_s=QT[tier]))
        # orientation: the code returns 90 - degrees(0.5 * atan2(2 v01, v00 - v11)); structure check against the reference expression
        refo, extra = TC.with_facts(lambda: 90 - mathx.degrees(0.5 * mathx.atan2(2 * V[0][1], V[0][0] - V[1][1])))
        out.append(ob.decide_close('O4', 'orientation = 90 - (1/2) atan2(2 v01, v00 - v11) deg (bearing of the major axis)', p, ori, refo, 0,
                                   pid=PID, key='O4:orientation', oracle='oracles.c16:ellipse', domain=DOM, make_args=mk, extra_conds=extra,
                                   timeout_s=QT[tier]))
    # eigenvector lemma: with t = (1/2) atan2(2 v01, v00 - v11), c = cos t, s = sin t: the direction (c, s) in the (v0, v1) plane
    # is an eigenvector of the 2x2 block for the larger eigenvalue; the bearing 90 - t measured from axis 1 towards axis 0 points along it.
    v00, v11, v01, c, s, r = z3.Reals('v00 v11 v01 c s r')
    conds = [c * c + s * s == 1, r >= 0, r * r == (v00 - v11) * (v00 - v11) + 4 * v01 * v01, r > 0,
             r * (c * c - s * s) == v00 - v11, r * (2 * s * c) == 2 * v01]          # cos 2t, sin 2t from atan2 (half-angle instance)
    lam = (v00 + v11 + r) / 2
    goal = z3.And(v00 * c + v01 * s == lam * c, v01 * c + v11 * s == lam * s)
    out.append(_lemma('O4', 'unit vector at the returned orientation is an eigenvector for a^2 = (v00 + v11 + z)/2', conds, goal, tier))
    return out


def g_relative(tier, seed):
    gs, gd = _mods()
    out = []
    mk = lambda env: {'env': env}

    def run():
        lat, lon = fresh_real('lat', -90, 90), fresh_real('lon', -360, 360)
        V1, V2 = sym_mat('v'), sym_mat('w')
        C = sym_mat('c', symmetric=False)
        return (lat, lon, V1, V2, C), gs.relative_error(lat, lon, npx.FArr(V1), npx.FArr(V2), npx.FArr(C))
    with _capture_ellipse(gs) as cap:
        paths, st = explore(run, max_paths=20)
    for p in paths:
        if p.kind != 'return':
            out.append(ob.res('O5', 'relative_error', 'inconclusive', [], 'path %s %r' % (p.kind, p.value)))
            continue
        (lat, lon, V1, V2, C), res = p.value
        Rr, extra = TC.with_facts(lambda: ref_R(lat, lon))
        Rt = transpose(Rr)
        S = [[V1[i][j] + V2[i][j] - C[i][j] - C[j][i] for j in range(3)] for i in range(3)]
        L = matmul(matmul(Rt, S), Rr)
        got = cap.last
        if got is None:
            out.append(ob.res('O5', 'relative_error does not call error_ellipse', 'inconclusive', [], ''))
            continue
        for i in range(3):
            for j in range(3):
                out.append(ob.decide_close('O5', 'relative variance matrix [%d,%d] = R^T (var1 + var2 - cov12 - cov12^T) R' % (i, j), p, got[i, j],
                                           L[i][j], 0, pid=PID, key='O5:relative', oracle='oracles.c16:relative', domain=DOM, make_args=mk,
                                           extra_conds=extra, timeout_s=QT[tier]))
        ell, extra2 = TC.with_facts(lambda: cap.orig(got))
        for k in range(3):
            out.append(ob.decide_close('O5', 'relative_error output %d = error_ellipse of that matrix' % k, p, res[k], ell[k], 0, pid=PID,
                                       key='O5:relative', oracle='oracles.c16:relative', domain=DOM, make_args=mk, extra_conds=extra + extra2,
                                       timeout_s=QT[tier]))
        up, extra3 = TC.with_facts(lambda: mathx.sqrt(L[2][2]))
        out.append(ob.decide_close('O5', 'relative up error = sqrt of the up variance', p, res[3], up, 0, pid=PID, key='O5:relative',
                                   oracle='oracles.c16:relative', domain=DOM, make_args=mk, extra_conds=extra + extra3, timeout_s=QT[tier]))
    return out


class _capture_ellipse:
    """records the matrix relative_error hands to error_ellipse"""

    def __init__(self, gs):
        self.gs = gs
        self.last = None

    def __enter__(self):
        self.orig = self.gs.error_ellipse

        def wrapped(m):
            self.last = m
            return self.orig(m)
        self.gs.__dict__['error_ellipse'] = wrapped
        return self

    def __exit__(self, *a):
        self.gs.__dict__['error_ellipse'] = self.orig


def g_kval(tier, seed):
    gs, gd = _mods()
    out = []

    def run():
        dof = fresh_real('dof', -1000, 100000, is_int=True)
        return dof, gs.k_val95(dof)
    paths, st = explore(run, max_paths=10)
    # symbolic integer cannot index a list: the middle branch is exercised concretely for all 120 entries below
    seen = set()
    for p in paths:
        if p.kind == 'return':
            dof, k = p.value
            conds = ob.path_conds(p)
            if k == gs.ttable_p95[0] and not isinstance(k, SymReal):
                goal = toz(dof) < 1
                nm = 'k(dof<1) = table[0] only when dof < 1'
            elif not isinstance(k, SymReal) and core.exact_fraction(k) == Fraction('1.96'):
                goal = toz(dof) > 120
                nm = 'k = 1.96 only when dof > 120'
            else:
                continue
            seen.add(nm)
            out.append(ob.decide_goal('O6', nm, conds, goal, pid=PID, oracle='oracles.c16:kval', args_from_model=lambda env: {'env': env},
                                      key='O6:kval', domain={'dof': (-1000, 100000)}, num_conds=p.assumptions + p.pc))
    bad = []
    for dof in range(1, 121):
        if gs.k_val95(dof) is not gs.ttable_p95[dof - 1] and gs.k_val95(dof) != gs.ttable_p95[dof - 1]:
            bad.append(dof)
    for x in (1.5, '3', None):
        try:
            gs.k_val95(x)
            bad.append(x)
        except TypeError:
            pass
    mono = all(gs.ttable_p95[i] > gs.ttable_p95[i + 1] for i in range(119)) and gs.ttable_p95[119] > 1.96 and len(gs.ttable_p95) == 120
    ok = not bad and mono and len(seen) == 2
    out.append(ob.res('O6', 'k_val95: table entry dof-1 for 1..120, TypeError for non-integers, table strictly decreasing towards 1.96',
                      'proved' if ok else 'inconclusive', [ob.qrec('ground', solve.prove([], z3.BoolVal(ok), 5, False))], 'bad=%s' % bad))
    if bad or not mono:
        out.append(ob.ground_violation('O6', 'k_val95 branch structure', PID, 'O6:kval', 'oracles.c16:kval', {'env': {}}))
    return out


def groups(tier):
    return [('rotation', g_rotation), ('rotation_lemmas', g_rotation_lemmas), ('vcv', g_vcv), ('vcv_lemmas', g_vcv_lemmas),
            ('ellipse', g_ellipse), ('relative', g_relative), ('kval', g_kval)]
