"""C08 - all angle notations convert to one another without changing the angle (F-model: exact IEEE doubles as QF_LIA)."""
import os
import math
import z3
from vsym import core, instr, solve, ob, fmodel as fm
from vsym.core import explore, Fraction as F
Fraction = F
from checks.common import swap_global

PID = 'C08'
GROUP_BUDGET = {'quick': 420, 'thorough': 3000}
QT = {'quick': 40, 'thorough': 300}
TOL_DEG = F(1, 10 ** 8) / 3600 / 4       # per function: a quarter of 1e-8 arc-seconds (degrees), so chains of <= 3 conversions stay within 1e-8"
META = {
    'level': 'other',
    'explanation': 'The real geodepy/angles.py is executed through the instrumented importer in the F-model: every Python float is an exact IEEE-754 '
                   'double (integer mantissa variable, concrete exponent; each rounding a linear integer constraint, forks on result binades), '
                   'f-strings / slicing / float(text) are decimal-text objects (digit extraction = div/mod by powers of ten), divmod and round are '
                   'exact. Inputs: every double of a magnitude chunk, or the double nearest to q/10^13 for an integer q with valid (or invalid) '
                   'minute/second fields. Per function the solver (QF_LIA portfolio) decides: no exception for valid input, exception for invalid '
                   'HP, result denotes the input angle within 2.5e-9 arc-seconds with the same sign (non-negative fields, sign in the flag), '
                   'produced HP values read as valid 13-decimal HP. unsat on a chunk = holds for EVERY double of the chunk; sat = a concrete '
                   'double, replayed on the un-instrumented module with exact rational arithmetic. dec2hp: two lemma queries per path (the '
                   '13-decimal reading of the result is the decimal text parsed; its digit groups are the fields) are proved first and then used as '
                   'facts. DMSAngle/DDMAngle.hp(): dec2hp is a callee summary, the argument handed to it is proved within tolerance (its contract '
                   'is the dec2hp obligations). Wiring group (R-model): each of the 14 wrapper functions and every object method of the five '
                   'classes equals the composition source -> decimal degrees -> target of the leaf conversions (hp2dec/dec2hp uninterpreted).',
    'functions': ['geodepy.angles.HPAngle.__init__', 'hp2dec', 'dec2hp', 'dec2dms', 'dec2ddm', 'dec2gon', 'gon2dec', 'DMSAngle.dec/hp/ddm', 'DDMAngle.dec/hp/dms',
                  'dec2hpa dec2gona hp2deca hp2rad hp2gon hp2gona hp2dms hp2ddm gon2deca gon2hp gon2hpa gon2rad gon2dms gon2ddm (wiring)',
                  'rad/dec/deca/hp/hpa/gon/gona/dms/ddm methods of DECAngle, HPAngle, GONAngle, DMSAngle, DDMAngle (wiring)'],
    'bounds': {'magnitudes': 'quick: chunks of [0.25, 720) deg - every binade below 8 deg, every fourth 4-degree chunk above (rotating with VERIF_SEED; first and '
                             'last chunk of each binade and the chunks around 512 deg always), whole-arc-second lattice for HP inputs; thorough: all 201 chunks '
                             'of [2^-20, 720) deg and all 13-decimal HP values',
               'HPAngle constructor': 'an eighth (quick) / a quarter (thorough) of the chunks (it delegates to hp2dec, proved on all of them)',
               'objects': 'degrees 0..510, minutes 0..59 symbolic integers; seconds / decimal minutes every double of [0.25,0.5), [1,2), [4,8), [32,60)',
               'sign': 'positive inputs on every chunk, negative inputs on every seventh chunk; negative DMS/DDM objects in the wiring group',
               'solver timeout': '40 s (quick) / 300 s (thorough) per query'},
    'outside': ['radians()/degrees() (libm): the rad notation is covered by wiring only', 'vectorised variants dec2hp_v / hp2dec_v (numpy element-wise code paths)',
                'negative zero, NaN, infinities, magnitudes below 2^-20 deg (quick: below 0.25 deg)',
                'chains of conversions as such: they follow from the per-function claims (each produced value lies in the accepted input set of the next '
                'function; 4 x 2.5e-9 = 1e-8 arc-seconds)', 'field ranges of DMS/DDM results (minute or second may read 60.0): the property bounds the angle, '
                'not the fields', 'HP values of magnitude 512..720: known findings (double spacing above 1e-13)'],
    'assumptions': ['CPython float divmod by a positive integer constant is exact (fmod exact, quotient < 2^53)', 'round(x, n) and "%.nf" formatting round the '
                    'exact binary value half-even (correctly rounded dtoa)', 'float(decimal text) is correctly rounded',
                    'callee summaries: dec2hp inside DMSAngle.hp()/DDMAngle.hp(); hp2dec/dec2hp in the wiring group'],
}
_A = [None]


def angles():
    if _A[0] is None:
        _A[0] = instr.load_file(os.path.join(instr.REPO_ROOT, 'geodepy', 'angles.py'), 'vs_angles_f', fm.F_SHADOWS)
    return _A[0]


class fmode:
    def __enter__(self):
        self.old = instr.TEXT_HOOK[0]
        instr.TEXT_HOOK[0] = fm.text_hook

    def __exit__(self, *a):
        instr.TEXT_HOOK[0] = self.old


def all_chunks(elo=-20):
    """(lo, hi) magnitude chunks covering [2^elo, 720): one per binade below 8 deg, at most 4 deg wide above"""
    out = []
    for E in range(elo, 10):
        lo, hi = F(2) ** E, F(2) ** (E + 1)
        if E < 3:
            out.append((lo, hi))
            continue
        a = lo
        while a < min(hi, 720):
            out.append((a, min(a + 4, hi, F(720))))
            a += 4
    return out


def chunks(tier, seed=0):
    """thorough: every chunk of [2^-20, 720). quick: every chunk of [0.25, 8) and every fourth 4-degree chunk above (rotating with
    VERIF_SEED), always including the first and last chunk of each binade and the chunks around 512 deg"""
    if tier != 'quick':
        return all_chunks(-20)
    out = []
    cs = all_chunks(-2)
    for i, (lo, hi) in enumerate(cs):
        first = fm.log2floor(lo) != fm.log2floor(cs[i - 1][0]) if i else True
        last = (i + 1 == len(cs)) or fm.log2floor(cs[i + 1][0]) != fm.log2floor(lo)
        if lo < 8 or first or last or (i + seed) % 4 == 0 or 504 <= lo <= 516:
            out.append((lo, hi))
    return out


def hp_input(lo, hi, tier, valid=True, neg=False):
    """the double nearest to q / 10^13 whose decimal fields are valid (or: minutes or seconds field >= 60)"""
    q, x = fm.decimal_input('q', 13, lo, hi)
    deg, mm, ss = z3.Int('f_deg'), z3.Int('f_mm'), z3.Int('f_ss')
    fm.assume(q == deg * 10 ** 13 + mm * 10 ** 11 + ss, mm >= 0, mm < 100, ss >= 0, ss < 10 ** 11, deg >= 0)
    if valid:
        fm.assume(mm < 60, ss < 60 * 10 ** 9)
    else:
        fm.assume(z3.Or(mm >= 60, ss >= 60 * 10 ** 9))
    if tier == 'quick':
        k = z3.Int('f_k')
        fm.assume(ss == k * 10 ** 9)        # whole arc-seconds
    return (q, deg, mm, ss), (-x if neg else x)


def denoted(deg, mm, ss):
    """(numerator, denominator) of the angle in degrees the fields denote: deg + mm/60 + ss/(3600e9)"""
    return deg * 3600 * 10 ** 9 + mm * 60 * 10 ** 9 + ss, 3600 * 10 ** 9


def close_to(x, tnum, tden, tol=TOL_DEG, sign=1):
    """z3: | x - sign*tnum/tden | <= tol - slack(x)   (x an XF, possibly with pending rounding / error bound)"""
    eff = tol - x.slack()
    if eff <= 0:
        return z3.BoolVal(False)
    d = x.num * tden - sign * tnum * x.den         # (x - t) * x.den * tden
    bound = eff * x.den * tden
    bn, bd = bound.numerator, bound.denominator
    return z3.And(d * bd <= bn, d * bd >= -bn)


def _witness_args(fn, kind, E=None):
    def mk(env):
        a = {'fn': fn, 'kind': kind}
        if E is not None:
            a['e2'] = E - 52
        if 'q' in env:
            a['q'] = int(env['q'])
        if 'm_in' in env:
            a['m'] = int(env['m_in'])
        return a
    return mk


def _decide_paths(out, obn, name, paths, pred, key, oracle_args, tier, want='return'):
    """pred(p) -> z3 goal for returning paths; raising paths are violations when want == 'return' (and vice versa)"""
    n = 0
    for p in paths:
        if p.kind == 'cut':
            out.append(ob.res(obn, name, 'inconclusive', [], 'path cut: %s' % p.value))
            continue
        n += 1
        conds = ob.path_conds(p)
        if p.kind != want:
            what = ('raises %s' % type(p.value).__name__) if p.kind == 'raise' else 'returns'
            out.append(ob.decide_goal(obn, '%s: never %s' % (name, what), conds, z3.BoolVal(False), pid=PID, oracle='oracles.c08:check',
                                      args_from_model=oracle_args, key=key, timeout_s=QT[tier]))
            continue
        if pred is not None:
            g = pred(p)
            if isinstance(g, tuple):
                conds = conds + list(g[0])
                g = g[1]
            if g is not None:
                out.append(ob.decide_goal(obn, name, conds, g, pid=PID, oracle='oracles.c08:check', args_from_model=oracle_args, key=key,
                                          timeout_s=QT[tier]))
    if n == 0:
        out.append(ob.res(obn, name, 'inconclusive', [], 'no path'))


def g_hp_inputs(fn):
    """acceptance (O1), rejection (O2) and value (O3) of the functions taking HP input"""
    def g(tier, seed, chunk_sel=None):
        A = angles()
        out = []
        for ci, (lo, hi) in enumerate(chunks(tier, seed)):
            if chunk_sel is not None and ci % chunk_sel[1] != chunk_sel[0]:
                continue
            tag = '%s on HP values in [%s, %s)' % (fn, float(lo), float(hi))
            for neg in ((False, True) if ci % 7 == 3 else (False,)):
                def run():
                    f, x = hp_input(lo, hi, tier, True, neg)
                    r = _call(A, fn, x)
                    ax = -x if neg else x
                    # the 13-decimal reading of |x|: rounded integers are memoised per path, so this is the very integer the code
                    # extracted its digits from
                    return f, x, r, fm.rnint(fm.XF(ax.num, ax.den, ax.lo, ax.hi), 10 ** 13)
                with fmode():
                    paths, st = explore(run, max_paths=60, feas_timeout_ms=4000, max_decisions=80)
                sgn = -1 if neg else 1

                def pred(p, sgn=sgn):
                    (q, deg, mm, ss), x, r, R = p.value
                    tn, td = denoted(deg, mm, ss)
                    g = _value_goal(fn, r, tn, td, sgn, x)
                    if g is None or lo >= 512 or fn == 'HPAngle':
                        return g
                    # lemma: below 512 the double spacing is < 1e-13, so the 13-decimal reading of the double is the decimal it was
                    # written as; proved first, then used as a fact for the value claim
                    v = solve.prove(ob.path_conds(p), R == q, timeout_s=QT[tier])
                    return (([R == q] if v.status == 'unsat' else []), g)
                _decide_paths(out, 'O1/O3', '%s%s: accepted, and the result denotes the same angle within 1e-8"' % (tag, ' (negative)' if neg else ''), paths, pred,
                              'O1:%s:%s' % (fn, 'beyond512' if lo >= 512 else 'below512'), _witness_args(fn, 'hp-valid' + ('-neg' if neg else '')), tier)
            if fn in ('hp2dec', 'HPAngle') and hi > F(6, 1000):      # (below 0.006 no HP value has a minutes or seconds field of 60 or more)
                def run_bad():
                    f, x = hp_input(lo, hi, tier, False)
                    return f, x, _call(A, fn, x)
                with fmode():
                    paths, st = explore(run_bad, max_paths=60, feas_timeout_ms=4000, max_decisions=80)
                _decide_paths(out, 'O2', '%s: minutes or seconds field >= 60 is rejected' % tag, paths, None,
                              'O2:%s:%s' % (fn, 'beyond512' if lo >= 512 else 'below512'), _witness_args(fn, 'hp-invalid'), tier, want='raise')
        return out
    return g


def _call(A, fn, x):
    if fn == 'HPAngle':
        return A.HPAngle(x)
    return getattr(A, fn)(x)


def _value_goal(fn, r, tn, td, sgn, x=None):
    """what the result of an HP-taking function must satisfy"""
    A = angles()
    if fn == 'HPAngle':       # the object holds exactly the double it was given
        h = fm.XF.rat(r.hp_angle)
        if h.slack() != 0 or x is None:
            return z3.BoolVal(False)
        return h.num * x.den == x.num * h.den
    if fn == 'hp2dec':
        return close_to(fm.XF.rat(r), tn, td, sign=sgn)
    if fn == 'hp2dms':
        return _dms_goal(r, tn, td, sgn)
    if fn == 'hp2ddm':
        return _ddm_goal(r, tn, td, sgn)
    raise ValueError(fn)


def _as_xf(v):
    return fm.XF.rat(v)


def _nonneg(x):
    """the double behind x (within x.err of the exact part) is >= 0"""
    e = x.err
    return z3.BoolVal(True) if x.known_nonneg() else x.num * e.denominator - e.numerator * x.den >= 0


def _below(x, c):
    """the double behind x is < c: exact part + err < c, in exact rational arithmetic"""
    e = x.err
    return x.num * e.denominator + e.numerator * x.den < c * x.den * e.denominator


def _dms_goal(r, tn, td, sgn):
    """DMSAngle r denotes sgn * tn/td: fields in range and degree + minute/60 + second/3600 close to the target"""
    d, m, s = _as_xf(r.degree), _as_xf(r.minute), _as_xf(r.second).settled()
    if d.den != 1 or m.den != 1:
        return z3.BoolVal(False)
    # exact value of the fields: (d*3600 + m*60)*s.den + s.num over 3600*s.den
    num = (d.num * 3600 + m.num * 60) * s.den + s.num
    den = 3600 * s.den
    eff = TOL_DEG - s.err / 3600
    dd = num * td - tn * den
    bound = eff * den * td
    pos = (r.positive is True) if sgn > 0 else (r.positive is False)
    return z3.And(z3.BoolVal(bool(pos)), m.num >= 0, _nonneg(s), d.num >= 0,
                  dd * bound.denominator <= bound.numerator, dd * bound.denominator >= -bound.numerator)


def _ddm_goal(r, tn, td, sgn):
    d, m = _as_xf(r.degree), _as_xf(r.minute).settled()
    if d.den != 1:
        return z3.BoolVal(False)
    num = d.num * 60 * m.den + m.num
    den = 60 * m.den
    eff = TOL_DEG - m.err / 60
    dd = num * td - tn * den
    bound = eff * den * td
    pos = (r.positive is True) if sgn > 0 else (r.positive is False)
    return z3.And(z3.BoolVal(bool(pos)), _nonneg(m), d.num >= 0,
                  dd * bound.denominator <= bound.numerator, dd * bound.denominator >= -bound.numerator)


def dec_input(lo, hi, neg=False):
    E = fm.log2floor(lo)
    x = fm.input_double('m_in', E, lo, hi)
    return -x if neg else x


def g_dec_inputs(fn):
    """O4: dec2hp / dec2dms / dec2ddm / dec2gon / gon2dec on every double of the chunk"""
    def g(tier, seed, chunk_sel=None):
        A = angles()
        out = []
        for ci, (lo, hi) in enumerate(chunks(tier, seed)):
            if chunk_sel is not None and ci % chunk_sel[1] != chunk_sel[0]:
                continue
            tag = '%s on every double in [%s, %s)' % (fn, float(lo), float(hi))
            for neg in ((False, True) if ci % 7 == 3 else (False,)):
                def run():
                    del fm.PARSED[:]
                    x = dec_input(lo, hi, neg)
                    r = getattr(A, fn)(x)
                    return x, (fm.materialise(r) if isinstance(r, fm.XF) else r), (fm.PARSED[-1] if fm.PARSED else None)
                with fmode():
                    paths, st = explore(run, max_paths=80, feas_timeout_ms=4000, max_decisions=80)
                sgn = -1 if neg else 1

                def pred(p, sgn=sgn):
                    x, r, parsed = p.value
                    ax = -x if sgn < 0 else x
                    if fn == 'dec2hp':
                        return _hp_goal_with_lemma(p, fm.XF.rat(r), ax, sgn, parsed, hi, tier)
                    if fn == 'dec2dms':
                        return _dms_goal(r, ax.num, ax.den, sgn)
                    if fn == 'dec2ddm':
                        return _ddm_goal(r, ax.num, ax.den, sgn)
                    if fn == 'dec2gon':      # gradians: value * 9/10 is the angle
                        return close_to(fm.XF.rat(r)._scale(F(9, 10)), x.num, x.den)
                    if fn == 'gon2dec':
                        return close_to(fm.XF.rat(r), (x._scale(F(9, 10))).num, (x._scale(F(9, 10))).den)
                    raise ValueError(fn)
                _decide_paths(out, 'O4', '%s%s: result is valid and denotes the same angle within 1e-8"' % (tag, ' (negative)' if neg else ''), paths, pred,
                              'O4:%s:%s' % (fn, 'beyond512' if lo >= 512 else 'below512'), _witness_args(fn, 'dec' + ('-neg' if neg else ''), fm.log2floor(lo)), tier)
        return out
    return g


LAST_R13 = [None]
LAST_FIELDS = [None]


def _hp_valid_goal(y, ax, sgn):
    """y (XF) is a valid HP value (read with 13 decimals) that denotes the decimal-degree value ax (>0) with sign sgn.
    Returns (definitions, goal): the 13-decimal reading R and its fields are functionally determined by y, so they are added as
    definitional constraints (always satisfiable, unique) and the goal speaks about them."""
    ay = -y if sgn < 0 else y
    ay = ay.settled()
    if ay.err != 0:
        return [], z3.BoolVal(False)
    R = fm.fresh_int('R13')
    LAST_R13[0] = str(R)
    d = R * ay.den - ay.num * 10 ** 13
    deg, mm, ss = fm.fresh_int('g_deg'), fm.fresh_int('g_mm'), fm.fresh_int('g_ss')
    LAST_FIELDS[0] = (str(deg), str(mm), str(ss))
    defs = [2 * d <= ay.den, 2 * d >= -ay.den, z3.Implies(z3.Or(2 * d == ay.den, 2 * d == -ay.den), R % 2 == 0),
            R == deg * 10 ** 13 + mm * 10 ** 11 + ss, mm >= 0, mm < 100, ss >= 0, ss < 10 ** 11]
    tn, td = denoted(deg, mm, ss)
    dd = tn * ax.den - ax.num * td
    bound = TOL_DEG * ax.den * td
    goal = z3.And(ay.num >= 0, deg >= 0, mm < 60, ss < 60 * 10 ** 9, dd * bound.denominator <= bound.numerator, dd * bound.denominator >= -bound.numerator)
    return defs, goal


def _hp_goal_with_lemma(p, y, ax, sgn, parsed, hi, tier):
    """dec2hp builds its result as float(decimal text). Below 512 the double spacing is under 1e-13, so the 13-decimal reading of
    the double is the decimal text itself: proved first as a lemma (solver query over the same path), then used as a fact."""
    defs, goal = _hp_valid_goal(y, ax, sgn)
    if parsed is None or hi > 512 or 10 ** 13 % parsed[1] != 0:
        return defs, goal
    R = z3.Int(LAST_R13[0])
    lemma = R * parsed[1] == parsed[0] * 10 ** 13
    v = solve.prove(ob.path_conds(p) + defs, lemma, timeout_s=QT[tier])
    if v.status != 'unsat':
        return defs, goal
    defs = defs + [lemma]
    # second lemma: the digit groups of the text are the fields of the reading (unique decomposition)
    fs, pos, mm_t, ss_t = parsed[3], 0, z3.IntVal(0), z3.IntVal(0)
    for term, w in fs:
        if pos < 2 and pos + w <= 2:
            mm_t = mm_t * 10 ** w + term
        elif pos >= 2:
            ss_t = ss_t * 10 ** w + term
        else:
            return defs, goal
        pos += w
    if pos < 2 or pos > 13:
        return defs, goal
    ss_t = ss_t * 10 ** (13 - pos)
    deg, mm, ss = (z3.Int(n) for n in LAST_FIELDS[0])
    lemma2 = z3.And(deg == parsed[2], mm == mm_t, ss == ss_t)
    v = solve.prove(ob.path_conds(p) + defs, lemma2, timeout_s=QT[tier])
    if v.status == 'unsat':
        defs = defs + [lemma2]
    return defs, goal


class Dec2hpCall:
    """summary of a call of dec2hp: remembers the argument; the result is used only as a return value"""

    def __init__(self, arg):
        self.arg = arg


def g_objects(tier, seed):
    """DMSAngle / DDMAngle methods on symbolic integer degrees, minutes and a symbolic double second / minute"""
    A = angles()
    out = []

    def fields():
        d = z3.Int('o_deg')
        m = z3.Int('o_min')
        fm.assume(d >= 0, d < 511, m >= 0, m < 60)
        return fm.XI(d, 0, 510), fm.XI(m, 0, 59)
    for lo, hi in ((F(1, 4), F(1, 2)), (1, 2), (4, 8), (32, 60)):
        for cls, meth in (('DMSAngle', 'dec'), ('DMSAngle', 'hp'), ('DMSAngle', 'ddm'), ('DDMAngle', 'dec'), ('DDMAngle', 'hp'), ('DDMAngle', 'dms')):
            tag = '%s.%s(), seconds/minutes in [%s, %s)' % (cls, meth, float(lo), float(hi))

            def run():
                d, m = fields()
                v = dec_input(lo, min(hi, 60))
                fm.assume(v.num < 60 * v.den)       # seconds / decimal minutes are below 60
                o = A.DMSAngle(d, m, v, positive=True) if cls == 'DMSAngle' else A.DDMAngle(d, v, positive=True)
                del fm.PARSED[:]
                if meth == 'hp':
                    # callee summary: dec2hp's contract (valid HP denoting its argument within TOL_DEG, for every double below 512)
                    # is what the O4 dec2hp obligations discharge; here the wiring and the argument are checked
                    with swap_global(A, 'dec2hp', Dec2hpCall):
                        r = getattr(o, meth)()
                else:
                    r = getattr(o, meth)()
                return (d, m, v), (fm.materialise(r) if isinstance(r, fm.XF) else r), (fm.PARSED[-1] if fm.PARSED else None)
            with fmode():
                paths, st = explore(run, max_paths=60, feas_timeout_ms=4000, max_decisions=80)

            def pred(p):
                (d, m, v), r, parsed = p.value
                if cls == 'DMSAngle':
                    tn, td = (d.z * 3600 + m.z * 60) * v.den + v.num, 3600 * v.den
                else:
                    tn, td = d.z * 60 * v.den + v.num, 60 * v.den
                if meth == 'dec':
                    return close_to(fm.XF.rat(r), tn, td)
                if meth == 'hp' and isinstance(r, Dec2hpCall):
                    a = fm.XF.rat(r.arg).settled()
                    return z3.And(_nonneg(a), close_to(a, tn, td))
                if meth == 'hp':
                    return _hp_goal_with_lemma(p, fm.XF.rat(r), fm.XF(tn, td, F(0), F(512)), 1, parsed, 511, tier)
                if meth == 'ddm':
                    return _ddm_goal(r, tn, td, 1)
                return _dms_goal(r, tn, td, 1)
            _decide_paths(out, 'O3', tag + ': denotes the same angle within 1e-8"', paths, pred, 'O3:%s.%s' % (cls, meth),
                          lambda env: {'fn': '%s.%s' % (cls, meth), 'kind': 'object', 'deg': int(env.get('o_deg', 0)), 'min': int(env.get('o_min', 0)),
                                       'm': int(env.get('m_in', 2 ** 52)), 'E': fm.log2floor(lo)}, tier)
    return out


# --- wiring of the wrappers (R-model with the leaf conversions as summaries) --------------------------------------------------
WRAPPERS = {
    'dec2hpa': ('dec', 'hpa'), 'dec2gona': ('dec', 'gona'), 'hp2deca': ('hp', 'deca'), 'hp2rad': ('hp', 'rad'), 'hp2gon': ('hp', 'gon'),
    'hp2gona': ('hp', 'gona'), 'hp2dms': ('hp', 'dms'), 'hp2ddm': ('hp', 'ddm'), 'gon2deca': ('gon', 'deca'), 'gon2hp': ('gon', 'hp'),
    'gon2hpa': ('gon', 'hpa'), 'gon2rad': ('gon', 'rad'), 'gon2dms': ('gon', 'dms'), 'gon2ddm': ('gon', 'ddm'),
}
METHODS = ('rad', 'dec', 'deca', 'hp', 'hpa', 'gon', 'gona', 'dms', 'ddm')
OBJ_CLASSES = ('DECAngle', 'HPAngle', 'GONAngle', 'DMSAngle', 'DDMAngle')


def g_wiring(tier, seed):
    """every wrapper function and every object method returns exactly the composition 'source notation -> decimal degrees -> target
    notation' of the leaf conversions (dec2hp, hp2dec summarised as uninterpreted functions of their argument; dec2dms, dec2ddm, the
    gradian factor and radians() executed); the leaves themselves are the F-model obligations above"""
    from vsym.core import fresh_real, SymReal
    from vsym import mathx
    from checks.c15 import patched_angles, same, ref_ctx
    from checks.common import uf_call
    instr.install()
    import geodepy.angles as ga
    out = []

    def src_value(kind, positive):
        """(python value handed to the code, its decimal-degree value as a reference term)"""
        if kind in ('dec', 'DECAngle'):
            v = fresh_real('v', -720, 720)
            return (ga.DECAngle(v) if kind == 'DECAngle' else v), v
        if kind in ('hp', 'HPAngle'):
            v = fresh_real('v', -720, 720)
            return (ga.HPAngle(v) if kind == 'HPAngle' else v), uf_call('hp2dec', 1, v)[0]
        if kind in ('gon', 'GONAngle'):
            v = fresh_real('v', -800, 800)
            return (ga.GONAngle(v) if kind == 'GONAngle' else v), v * Fraction(9, 10)
        d = fresh_real('d', 0, 719, is_int=True)
        sg = 1 if positive else -1
        if kind == 'DMSAngle':
            m, s = fresh_real('m', 0, 59, is_int=True), fresh_real('s', 0, 60)
            core.CTX.assume(s < 60)
            return ga.DMSAngle(d, m, s, positive=positive), sg * (d + m / 60 + s / 3600)
        m = fresh_real('mm', 0, 60)
        core.CTX.assume(m < 60)
        return ga.DDMAngle(d, m, positive=positive), sg * (d + m / 60)

    def target(kind, dec):
        if kind == 'dec':
            return dec
        if kind == 'deca':
            return ga.DECAngle(dec)
        if kind in ('hp', 'hpa'):
            h = uf_call('dec2hp', 1, dec)[0]
            return h if kind == 'hp' else ga.HPAngle(h)
        if kind in ('gon', 'gona'):
            g = dec * Fraction(10, 9)
            return g if kind == 'gon' else ga.GONAngle(g)
        if kind == 'rad':
            return mathx.radians(dec)
        return ga.dec2dms(dec) if kind == 'dms' else ga.dec2ddm(dec)

    cases = [(fn, sk, tk, None, True) for fn, (sk, tk) in sorted(WRAPPERS.items())]
    for cls in OBJ_CLASSES:
        for meth in METHODS:
            if hasattr(getattr(ga, cls), meth):
                for positive in ((True, False) if cls in ('DMSAngle', 'DDMAngle') else (True,)):
                    cases.append(('%s.%s' % (cls, meth), cls, meth, meth, positive))
    for name, sk, tk, meth, positive in cases:
        def run():
            val, dec = src_value(sk, positive)
            r = getattr(val, meth)() if meth else getattr(ga, name)(val)
            return (dec, val), r
        with patched_angles(ga):
            paths, st = explore(run, max_paths=24)
        label = '%s%s' % (name, '' if positive else ' (negative object)')
        mk = lambda env, name=name, positive=positive: {'what': name, 'env': env, 'positive': positive}
        nret = 0
        for p in paths:
            if p.kind == 'cut':
                out.append(ob.res('O5', label, 'inconclusive', [], 'path cut: %s' % p.value))
                continue
            conds = ob.path_conds(p)
            if p.kind != 'return':
                out.append(ob.decide_goal('O5', '%s: no exception (%s: %s)' % (label, type(p.value).__name__, p.value), conds, z3.BoolVal(False), pid=PID,
                                          oracle='oracles.c08:wiring', args_from_model=mk, key='O5:%s' % name, timeout_s=10))
                continue
            nret += 1
            (dec, val), r = p.value
            if (sk, tk) in (('HPAngle', 'hp'), ('HPAngle', 'hpa')):
                # same notation: the value itself, not a round trip through decimal degrees
                g = same(r, val.hp_angle if tk == 'hp' else val)
                out.append(ob.decide_goal('O5', '%s = the object\'s own HP value' % label, conds, g, pid=PID, oracle='oracles.c08:wiring',
                                          args_from_model=mk, key='O5:%s' % name, timeout_s=10))
                continue
            if (sk, tk) in (('DMSAngle', 'ddm'), ('DDMAngle', 'dms')):
                # fields are recombined directly: claim the value and the sign flag (exact in the R-model)
                val_r = core.toz(r.degree) + core.toz(r.minute) / 60 + (core.toz(r.second) / 3600 if tk == 'dms' else 0)
                g = z3.And(z3.BoolVal(type(r).__name__ == {'ddm': 'DDMAngle', 'dms': 'DMSAngle'}[tk]),
                           z3.Or(z3.BoolVal(r.positive is positive), core.toz(dec) == 0),      # the flag of a zero angle carries no sign
                           core.toz(r.minute) >= 0, core.toz(r.degree) >= 0, (core.toz(r.second) >= 0 if tk == 'dms' else z3.BoolVal(True)),
                           val_r == core.toz(dec) * (1 if positive else -1))
                out.append(ob.decide_goal('O5', '%s denotes the same angle with the same sign flag' % label, conds, g, pid=PID,
                                          oracle='oracles.c08:wiring', args_from_model=mk, key='O5:%s' % name, timeout_s=10))
                continue
            rc = ref_ctx(p)
            rc.__enter__()
            try:
                with patched_angles(ga):
                    exp = target(tk, dec)
                extra = list(core.CTX.pc) + list(core.CTX.facts)
            except (core.PathAbort, core.PathCut) as e:
                out.append(ob.res('O5', label, 'inconclusive', [], 'reference not computable: %r' % (e,)))
                continue
            finally:
                core.CTX = None
            out.append(ob.decide_goal('O5', '%s = the leaf conversions composed (source -> decimal degrees -> %s)' % (label, tk), conds + extra,
                                      same(r, exp), pid=PID, oracle='oracles.c08:wiring', args_from_model=mk, key='O5:%s' % name, timeout_s=10))
        if nret == 0:
            out.append(ob.res('O5', label, 'inconclusive', [], 'no returning path'))
    return out


def _slice(g, k, n):
    def f(tier, seed):
        return g(tier, seed, (k, n))
    return f


def groups(tier):
    gs = []
    n = 6 if tier == 'quick' else 12
    for k in range(n):
        gs.append(('hp_hp2dec_%d' % k, _slice(g_hp_inputs('hp2dec'), k, n)))
    # the HPAngle constructor on an eighth (quick) / a quarter (thorough) of the chunks: it delegates to hp2dec, whose chunks are all above
    for k in range(1 if tier == 'quick' else 3):
        gs.append(('hp_HPAngle_%d' % k, _slice(g_hp_inputs('HPAngle'), k, 8 if tier == 'quick' else 12)))
    for fn in ('dec2hp', 'dec2dms', 'dec2ddm'):
        for k in range(n):
            gs.append(('dec_%s_%d' % (fn, k), _slice(g_dec_inputs(fn), k, n)))
    for fn in ('dec2gon', 'gon2dec'):
        for k in range(2):
            gs.append(('dec_%s_%d' % (fn, k), _slice(g_dec_inputs(fn), k, 2)))
    gs.append(('objects', g_objects))
    gs.append(('wiring', g_wiring))
    return gs
