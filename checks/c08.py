"""C08 - all angle notations convert to one another without changing the angle (F-model: exact IEEE doubles as QF_LIA)."""
import os
import z3
from vsym import core, instr, solve, ob, fmodel as fm
from vsym.core import explore, Fraction as F

PID = 'C08'
GROUP_BUDGET = {'quick': 420, 'thorough': 3000}
QT = {'quick': 40, 'thorough': 300}
TOL_DEG = F(1, 10 ** 8) / 3600           # 1e-8 arc-seconds in degrees
META = {
    'level': 'other',
    'explanation': 'The real geodepy/angles.py is executed through the instrumented importer in the F-model: every Python float is an exact IEEE-754 '
                   'double (integer mantissa variable, concrete exponent; each rounding a linear integer constraint, forks on result binades), '
                   'f-strings / slicing / float(text) are decimal-text objects (digit extraction = div/mod by powers of ten), divmod and round are '
                   'exact. Inputs: every double of a binade chunk, or the double nearest to q/10^13 for an integer q with valid (or invalid) '
                   'minute/second fields. Per function the solver (QF_LIA portfolio) decides: no exception for valid input, exception for invalid '
                   'HP, result fields in range, result denotes the input angle within 1e-8 arc-seconds with the same sign, produced HP values '
                   'are valid 13-decimal HP. unsat on a chunk = holds for EVERY double in the chunk; sat = a concrete double, replayed on the '
                   'un-instrumented module with exact rational arithmetic.',
    'functions': ['geodepy.angles.HPAngle.__init__', 'hp2dec', 'dec2hp', 'hp2dms', 'hp2ddm', 'dec2dms', 'dec2ddm', 'dec2gon', 'gon2dec',
                  'DMSAngle.dec/hp/ddm', 'DDMAngle.dec/hp/dms', 'DECAngle/HPAngle/GONAngle method delegation'],
    'bounds': {'magnitudes': 'quick: [0.25, 720) deg, whole-arc-second lattice for HP inputs; thorough: [2^-20, 720), all 13-decimal HP values',
               'chunks': 'one chunk per binade below 32 deg, 4..16 deg chunks above', 'sign': 'positive inputs on every chunk, negative inputs on representative chunks'},
    'outside': ['radians()/degrees() (libm) and therefore the rad notation', 'vectorised variants dec2hp_v / hp2dec_v (numpy element-wise code paths are not encoded)',
                'negative zero, NaN, infinities', 'chains of length > 1 are covered by composing the per-function claims (each produced value lies in the '
                'accepted input set of the next function, each step moves the angle by far less than 1e-8")'],
    'assumptions': ['CPython float divmod by a positive integer constant is exact (fmod exact, quotient < 2^53)', 'round(x, n) and "%.nf" formatting round the '
                    'exact binary value half-even (correctly rounded dtoa)', 'float(decimal text) is correctly rounded'],
}
_A = [None]


def angles():
    if _A[0] is None:
        _A[0] = instr.load_file(os.path.join(instr.REPO_ROOT, 'geodepy', 'angles.py'), 'vs_angles_f', fm.F_SHADOWS)
    return _A[0]


class fmode:
    def __enter__(self):
        self.old = instr.TEXT_HOOK[0]
        instr.TEXT_HOOK[0] = fm.text_hook

    def __exit__(self, *a):
        instr.TEXT_HOOK[0] = self.old


def chunks(tier):
    """(lo, hi) magnitude chunks, each inside one binade"""
    out = []
    elo = -2 if tier == 'quick' else -20
    for E in range(elo, 10):
        lo, hi = F(2) ** E, F(2) ** (E + 1)
        if E < 5:
            out.append((lo, hi))
            continue
        step = {5: 16, 6: 16, 7: 16, 8: 16, 9: 16}[E] if tier == 'quick' else 4
        a = lo
        while a < min(hi, 720):
            out.append((a, min(a + step, hi, F(720))))
            a += step
    return out


def hp_input(lo, hi, tier, valid=True, neg=False):
    """the double nearest to q / 10^13 whose decimal fields are valid (or: minutes or seconds field >= 60)"""
    q, x = fm.decimal_input('q', 13, lo, hi)
    deg, mm, ss = z3.Int('f_deg'), z3.Int('f_mm'), z3.Int('f_ss')
    fm.assume(q == deg * 10 ** 13 + mm * 10 ** 11 + ss, mm >= 0, mm < 100, ss >= 0, ss < 10 ** 11, deg >= 0)
    if valid:
        fm.assume(mm < 60, ss < 60 * 10 ** 9)
    else:
        fm.assume(z3.Or(mm >= 60, ss >= 60 * 10 ** 9))
    if tier == 'quick':
        k = z3.Int('f_k')
        fm.assume(ss == k * 10 ** 9)        # whole arc-seconds
    return (q, deg, mm, ss), (-x if neg else x)


def denoted(deg, mm, ss):
    """(numerator, denominator) of the angle in degrees the fields denote: deg + mm/60 + ss/(3600e9)"""
    return deg * 3600 * 10 ** 9 + mm * 60 * 10 ** 9 + ss, 3600 * 10 ** 9


def close_to(x, tnum, tden, tol=TOL_DEG, sign=1):
    """z3: | x - sign*tnum/tden | <= tol - slack(x)   (x an XF, possibly with pending rounding / error bound)"""
    eff = tol - x.slack()
    if eff <= 0:
        return z3.BoolVal(False)
    d = x.num * tden - sign * tnum * x.den         # (x - t) * x.den * tden
    bound = eff * x.den * tden
    bn, bd = bound.numerator, bound.denominator
    return z3.And(d * bd <= bn, d * bd >= -bn)


def _witness_args(fn, kind, E=None):
    def mk(env):
        a = {'fn': fn, 'kind': kind}
        if E is not None:
            a['e2'] = E - 52
        if 'q' in env:
            a['q'] = int(env['q'])
        if 'm_in' in env:
            a['m'] = int(env['m_in'])
        return a
    return mk


def _decide_paths(out, obn, name, paths, pred, key, oracle_args, tier, want='return'):
    """pred(p) -> z3 goal for returning paths; raising paths are violations when want == 'return' (and vice versa)"""
    n = 0
    for p in paths:
        if p.kind == 'cut':
            out.append(ob.res(obn, name, 'inconclusive', [], 'path cut: %s' % p.value))
            continue
        n += 1
        conds = ob.path_conds(p)
        if p.kind != want:
            what = ('raises %s' % type(p.value).__name__) if p.kind == 'raise' else 'returns'
            out.append(ob.decide_goal(obn, '%s: never %s' % (name, what), conds, z3.BoolVal(False), pid=PID, oracle='oracles.c08:check',
                                      args_from_model=oracle_args, key=key, timeout_s=QT[tier]))
            continue
        if pred is not None:
            g = pred(p)
            if isinstance(g, tuple):
                conds = conds + list(g[0])
                g = g[1]
            if g is not None:
                out.append(ob.decide_goal(obn, name, conds, g, pid=PID, oracle='oracles.c08:check', args_from_model=oracle_args, key=key,
                                          timeout_s=QT[tier]))
    if n == 0:
        out.append(ob.res(obn, name, 'inconclusive', [], 'no path'))


def g_hp_inputs(fn):
    """acceptance (O1), rejection (O2) and value (O3) of the functions taking HP input"""
    def g(tier, seed, chunk_sel=None):
        A = angles()
        out = []
        for ci, (lo, hi) in enumerate(chunks(tier)):
            if chunk_sel is not None and ci % chunk_sel[1] != chunk_sel[0]:
                continue
            tag = '%s on HP values in [%s, %s)' % (fn, float(lo), float(hi))
            for neg in ((False, True) if ci % 7 == 3 else (False,)):
                def run():
                    f, x = hp_input(lo, hi, tier, True, neg)
                    return f, x, _call(A, fn, x)
                with fmode():
                    paths, st = explore(run, max_paths=60, feas_timeout_ms=4000, max_decisions=80)
                sgn = -1 if neg else 1

                def pred(p, sgn=sgn):
                    (q, deg, mm, ss), x, r = p.value
                    tn, td = denoted(deg, mm, ss)
                    return _value_goal(fn, r, tn, td, sgn)
                _decide_paths(out, 'O1/O3', '%s%s: accepted, and the result denotes the same angle within 1e-8"' % (tag, ' (negative)' if neg else ''), paths, pred,
                              'O1:%s:%s' % (fn, 'beyond512' if lo >= 512 else 'below512'), _witness_args(fn, 'hp-valid' + ('-neg' if neg else '')), tier)
            if fn in ('hp2dec', 'HPAngle'):
                def run_bad():
                    f, x = hp_input(lo, hi, tier, False)
                    return f, x, _call(A, fn, x)
                with fmode():
                    paths, st = explore(run_bad, max_paths=60, feas_timeout_ms=4000, max_decisions=80)
                _decide_paths(out, 'O2', '%s: minutes or seconds field >= 60 is rejected' % tag, paths, None,
                              'O2:%s:%s' % (fn, 'beyond512' if lo >= 512 else 'below512'), _witness_args(fn, 'hp-invalid'), tier, want='raise')
        return out
    return g


def _call(A, fn, x):
    if fn == 'HPAngle':
        return A.HPAngle(x)
    return getattr(A, fn)(x)


def _value_goal(fn, r, tn, td, sgn):
    """what the result of an HP-taking function must satisfy"""
    A = angles()
    if fn == 'HPAngle':
        return None
    if fn == 'hp2dec':
        return close_to(fm.XF.rat(r), tn, td, sign=sgn)
    if fn == 'hp2dms':
        return _dms_goal(r, tn, td, sgn)
    if fn == 'hp2ddm':
        return _ddm_goal(r, tn, td, sgn)
    raise ValueError(fn)


def _as_xf(v):
    return fm.XF.rat(v)


def _dms_goal(r, tn, td, sgn):
    """DMSAngle r denotes sgn * tn/td: fields in range and degree + minute/60 + second/3600 close to the target"""
    d, m, s = _as_xf(r.degree), _as_xf(r.minute), _as_xf(r.second).settled()
    if d.den != 1 or m.den != 1:
        return z3.BoolVal(False)
    # exact value of the fields: (d*3600 + m*60)*s.den + s.num over 3600*s.den
    num = (d.num * 3600 + m.num * 60) * s.den + s.num
    den = 3600 * s.den
    eff = TOL_DEG - s.err / 3600
    dd = num * td - tn * den
    bound = eff * den * td
    pos = (r.positive is True) if sgn > 0 else (r.positive is False)
    return z3.And(z3.BoolVal(bool(pos)), m.num >= 0, m.num < 60, s.num >= 0, s.num < 60 * s.den, d.num >= 0,
                  dd * bound.denominator <= bound.numerator, dd * bound.denominator >= -bound.numerator)


def _ddm_goal(r, tn, td, sgn):
    d, m = _as_xf(r.degree), _as_xf(r.minute).settled()
    if d.den != 1:
        return z3.BoolVal(False)
    num = d.num * 60 * m.den + m.num
    den = 60 * m.den
    eff = TOL_DEG - m.err / 60
    dd = num * td - tn * den
    bound = eff * den * td
    pos = (r.positive is True) if sgn > 0 else (r.positive is False)
    return z3.And(z3.BoolVal(bool(pos)), m.num >= 0, m.num < 60 * m.den, d.num >= 0,
                  dd * bound.denominator <= bound.numerator, dd * bound.denominator >= -bound.numerator)


def dec_input(lo, hi, neg=False):
    E = fm.log2floor(lo)
    x = fm.input_double('m_in', E, lo, hi)
    return -x if neg else x


def g_dec_inputs(fn):
    """O4: dec2hp / dec2dms / dec2ddm / dec2gon / gon2dec on every double of the chunk"""
    def g(tier, seed):
        A = angles()
        out = []
        for ci, (lo, hi) in enumerate(chunks(tier)):
            tag = '%s on every double in [%s, %s)' % (fn, float(lo), float(hi))
            for neg in ((False, True) if ci % 7 == 3 else (False,)):
                def run():
                    x = dec_input(lo, hi, neg)
                    return x, getattr(A, fn)(x)
                with fmode():
                    paths, st = explore(run, max_paths=80, feas_timeout_ms=4000, max_decisions=80)
                sgn = -1 if neg else 1

                def pred(p, sgn=sgn):
                    x, r = p.value
                    ax = -x if sgn < 0 else x
                    if fn == 'dec2hp':
                        return _hp_valid_goal(fm.XF.rat(r), ax, sgn)
                    if fn == 'dec2dms':
                        return _dms_goal(r, ax.num, ax.den, sgn)
                    if fn == 'dec2ddm':
                        return _ddm_goal(r, ax.num, ax.den, sgn)
                    if fn == 'dec2gon':      # gradians: value * 9/10 is the angle
                        return close_to(fm.XF.rat(r)._scale(F(9, 10)), x.num, x.den)
                    if fn == 'gon2dec':
                        return close_to(fm.XF.rat(r), (x._scale(F(9, 10))).num, (x._scale(F(9, 10))).den)
                    raise ValueError(fn)
                _decide_paths(out, 'O4', '%s%s: result is valid and denotes the same angle within 1e-8"' % (tag, ' (negative)' if neg else ''), paths, pred,
                              'O4:%s' % fn, _witness_args(fn, 'dec' + ('-neg' if neg else ''), fm.log2floor(lo)), tier)
        return out
    return g


def _hp_valid_goal(y, ax, sgn):
    """y (XF) is a valid HP value (read with 13 decimals) that denotes the decimal-degree value ax (>0) with sign sgn.
    Returns (definitions, goal): the 13-decimal reading R and its fields are functionally determined by y, so they are added as
    definitional constraints (always satisfiable, unique) and the goal speaks about them."""
    ay = -y if sgn < 0 else y
    ay = ay.settled()
    if ay.err != 0:
        return [], z3.BoolVal(False)
    R = fm.fresh_int('R13')
    d = R * ay.den - ay.num * 10 ** 13
    deg, mm, ss = fm.fresh_int('g_deg'), fm.fresh_int('g_mm'), fm.fresh_int('g_ss')
    defs = [2 * d <= ay.den, 2 * d >= -ay.den, z3.Implies(z3.Or(2 * d == ay.den, 2 * d == -ay.den), R % 2 == 0),
            R == deg * 10 ** 13 + mm * 10 ** 11 + ss, mm >= 0, mm < 100, ss >= 0, ss < 10 ** 11]
    tn, td = denoted(deg, mm, ss)
    dd = tn * ax.den - ax.num * td
    bound = TOL_DEG * ax.den * td
    goal = z3.And(ay.num >= 0, deg >= 0, mm < 60, ss < 60 * 10 ** 9, dd * bound.denominator <= bound.numerator, dd * bound.denominator >= -bound.numerator)
    return defs, goal


def g_objects(tier, seed):
    """DMSAngle / DDMAngle methods on symbolic integer degrees, minutes and a symbolic double second / minute"""
    A = angles()
    out = []

    def fields():
        d = z3.Int('o_deg')
        m = z3.Int('o_min')
        fm.assume(d >= 0, d < 720, m >= 0, m < 60)
        return fm.XI(d, 0, 719), fm.XI(m, 0, 59)
    for lo, hi in ((F(1, 4), F(1, 2)), (1, 2), (4, 8), (32, 60)):
        for cls, meth in (('DMSAngle', 'dec'), ('DMSAngle', 'hp'), ('DMSAngle', 'ddm'), ('DDMAngle', 'dec'), ('DDMAngle', 'hp'), ('DDMAngle', 'dms')):
            tag = '%s.%s(), seconds/minutes in [%s, %s)' % (cls, meth, float(lo), float(hi))

            def run():
                d, m = fields()
                v = dec_input(lo, min(hi, 60))
                o = A.DMSAngle(d, m, v, positive=True) if cls == 'DMSAngle' else A.DDMAngle(d, v, positive=True)
                return (d, m, v), getattr(o, meth)()
            with fmode():
                paths, st = explore(run, max_paths=60, feas_timeout_ms=4000, max_decisions=80)

            def pred(p):
                (d, m, v), r = p.value
                if cls == 'DMSAngle':
                    tn, td = (d.z * 3600 + m.z * 60) * v.den + v.num, 3600 * v.den
                else:
                    tn, td = d.z * 60 * v.den + v.num, 60 * v.den
                if meth == 'dec':
                    return close_to(fm.XF.rat(r), tn, td)
                if meth == 'hp':
                    return _hp_valid_goal(fm.XF.rat(r), fm.XF(tn, td, F(0), F(721)), 1)
                if meth == 'ddm':
                    return _ddm_goal(r, tn, td, 1)
                return _dms_goal(r, tn, td, 1)
            _decide_paths(out, 'O3', tag + ': denotes the same angle within 1e-8"', paths, pred, 'O3:%s.%s' % (cls, meth),
                          lambda env: {'fn': '%s.%s' % (cls, meth), 'kind': 'object', 'deg': int(env.get('o_deg', 0)), 'min': int(env.get('o_min', 0)),
                                       'm': int(env.get('m_in', 2 ** 52)), 'E': fm.log2floor(lo)}, tier)
    return out


def groups(tier):
    gs = []
    for fn in ('HPAngle', 'hp2dec', 'hp2dms', 'hp2ddm'):
        gs.append(('hp_' + fn, g_hp_inputs(fn)))
    for fn in ('dec2hp', 'dec2dms', 'dec2ddm', 'dec2gon', 'gon2dec'):
        gs.append(('dec_' + fn, g_dec_inputs(fn)))
    gs.append(('objects', g_objects))
    return gs
