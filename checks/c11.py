"""C11 - the shipped transformation catalogue is labelled, reversible and self-consistent."""
import datetime
import itertools
import re
import z3

from vsym import core, solve, ob
from vsym.core import SymReal, Fraction, exact_fraction, ratval, toz, explore, fresh_real
from vsym.symdate import SymDate

PID = 'C11'
PARAMS = ['tx', 'ty', 'tz', 'sc', 'rx', 'ry', 'rz']
RATES = ['d_' + p for p in PARAMS]
TOL = {'tx': Fraction('0.00015'), 'ty': Fraction('0.00015'), 'tz': Fraction('0.00015'), 'sc': Fraction('0.000015'),
       'rx': Fraction('0.000015'), 'ry': Fraction('0.000015'), 'rz': Fraction('0.000015')}

META = {
    'level': 'other',
    'explanation': 'Bounded symbolic execution of geodepy.constants (Transformation.__neg__, __add__, iers2trans) on '
                   'symbolic parameter sets, symbolic day offsets and a symbolic common epoch; catalogue constants '
                   'lifted to exact rationals; each obligation discharged as an SMT validity query (QF_LRA/NRA), every '
                   'failing query replayed on the un-instrumented repository before being reported.',
    'functions': ['geodepy.constants.Transformation.__neg__', 'geodepy.constants.Transformation.__add__',
                  'geodepy.constants.iers2trans', 'all module-level Transformation constants'],
    'bounds': {'day offset': '[-30000, 30000]', 'common epoch': 'hull of the catalogue reference epochs',
               'symbolic parameters': 'arbitrary reals'},
    'outside': ['IEEE rounding of p + rate*dt (R-model)', 'whether the published IERS numbers were transcribed correctly '
                'beyond what chain consistency shows'],
    'assumptions': ['a concrete float denotes the decimal rational of its shortest repr (R-model literal semantics)',
                    'round(x, 8) is within 0.5e-8 of x'],
}


def _cat():
    import geodepy.constants as gc
    return gc, {k: v for k, v in vars(gc).items() if isinstance(v, gc.Transformation)}


def _fr(x):
    return exact_fraction(x)


# ---------------------------------------------------------------------------------------------
def g_labels(tier, seed):
    gc, cat = _cat()
    out = []
    bad = []
    for name, t in sorted(cat.items()):
        m = re.match(r'^([a-z]+[0-9]+)_to_([a-z]+[0-9]+)(_[a-z]+)?$', name)
        if not m:
            bad.append((name, 'name does not follow frame_to_frame[_suffix]'))
            continue
        if str(t.from_datum).lower() != m.group(1) or str(t.to_datum).lower() != m.group(2):
            bad.append((name, 'labels %r -> %r' % (t.from_datum, t.to_datum)))
    # the label check is a ground string comparison; it is discharged as a trivial solver query over encoded booleans
    v = solve.prove([], z3.BoolVal(not bad), timeout_s=5, portfolio=False)
    if not bad:
        out.append(ob.res('O1', 'labels of %d constants match their names' % len(cat), 'proved', [ob.qrec('ground', v)]))
    for name, why in bad:
        out.append(ob.ground_violation('O1', 'label ' + name, PID, 'O1:label:' + name, 'oracles.c11:label',
                                       {'name': name}, why, [ob.qrec('ground', v)]))
    return out


def g_neg_symbolic(tier, seed):
    gc, _ = _cat()

    def run():
        vals = {p: fresh_real(p) for p in PARAMS + RATES}
        sd = gc.TransformationSD(sd_tx=fresh_real('sd_tx'))
        t = gc.Transformation('A', 'B', datetime.date(2001, 2, 3), *[vals[p] for p in PARAMS],
                              *[vals[p] for p in RATES], tf_sd=sd)
        return vals, t, -t
    paths, st = explore(run)
    out = []
    for p in paths:
        if p.kind != 'return':
            out.append(ob.res('O2', '__neg__ symbolic', 'inconclusive', [], 'path %s: %r' % (p.kind, p.value)))
            continue
        vals, t, n = p.value
        goal = z3.And(*[toz(getattr(n, k)) == -toz(vals[k]) for k in PARAMS + RATES])
        r = ob.decide_goal('O2', '__neg__ negates all 14 parameters (symbolic set)', ob.path_conds(p), goal, pid=PID,
                           oracle='oracles.c11:neg_numbers', args_from_model=lambda env: {'vals': env},
                           key='O2:neg:numbers')
        out.append(r)
        okmeta = (n.from_datum == 'B' and n.to_datum == 'A' and n.ref_epoch == datetime.date(2001, 2, 3))
        v = solve.prove([], z3.BoolVal(bool(okmeta)), timeout_s=5, portfolio=False)
        if okmeta:
            out.append(ob.res('O2', '__neg__ swaps labels, keeps epoch', 'proved', [ob.qrec('ground', v)]))
        else:
            out.append(ob.ground_violation('O2', '__neg__ labels/epoch', PID, 'O2:neg:labels', 'oracles.c11:neg_labels', {},
                                           'labels %r %r epoch %r' % (n.from_datum, n.to_datum, n.ref_epoch)))
    return out


def g_pairs(tier, seed):
    gc, cat = _cat()
    out, qs, n = [], [], 0
    for name, t in sorted(cat.items()):
        m = re.match(r'^([a-z0-9]+)_to_([a-z0-9]+)((_[a-z]+)?)$', name)
        if not m:
            continue
        rname = '%s_to_%s%s' % (m.group(2), m.group(1), m.group(3))
        if rname not in cat or rname < name:
            continue
        r = cat[rname]
        n += 1
        eqs = [ratval(_fr(getattr(t, k))) == -ratval(_fr(getattr(r, k))) for k in PARAMS + RATES]
        meta_ok = (t.ref_epoch == r.ref_epoch and t.from_datum == r.to_datum and t.to_datum == r.from_datum)
        v = solve.prove([], z3.And(z3.BoolVal(bool(meta_ok)), *eqs), timeout_s=5, portfolio=False)
        qs.append(ob.qrec('ground-LRA', v))
        if v.status != 'unsat':
            out.append(ob.ground_violation('O2', 'pair %s / %s' % (name, rname), PID, 'O2:pair:' + name,
                                           'oracles.c11:pair', {'a': name, 'b': rname}, queries=[qs[-1]]))
    if not out:
        out.append(ob.res('O2', '%d forward/reverse pairs carry negated parameters, same epoch, swapped labels' % n,
                          'proved', qs))
    return out


def g_add_symbolic(tier, seed):
    gc, _ = _cat()
    ref = datetime.date(2005, 6, 7)

    def run():
        vals = {p: fresh_real(p, -1000, 1000) for p in PARAMS + RATES}
        d = fresh_real('d', -30000, 30000, is_int=True)
        t = gc.Transformation('A', 'B', ref, *[vals[p] for p in PARAMS], *[vals[p] for p in RATES])
        target = SymDate(d + ref.toordinal())
        return vals, d, target, t + target
    paths, st = explore(run)
    out = []
    for p in paths:
        if p.kind != 'return' or p.value[3] is None:
            out.append(ob.res('O3', '__add__ symbolic', 'inconclusive', [], 'path %s: %r' % (p.kind, p.value)))
            continue
        vals, d, target, n = p.value
        conds = ob.path_conds(p)
        half = ratval(Fraction(1, 2 * 10 ** 8))
        goals = []
        for k in PARAMS:
            exp = toz(vals[k]) + toz(vals['d_' + k]) * toz(d) / ratval(Fraction('365.25'))
            goals.append(ob.zabs(toz(getattr(n, k)) - exp) <= half)
        for k in RATES:
            goals.append(toz(getattr(n, k)) == toz(vals[k]))

        def mk(env):
            return {'vals': {k: env.get(k, 0) for k in PARAMS + RATES}, 'd': env.get('d', 0), 'ref': ref.isoformat()}
        out.append(ob.decide_goal('O3', '__add__: p + rate*days/365.25 (8-decimal rounding), rates kept', conds,
                                  z3.And(*goals), pid=PID, oracle='oracles.c11:add_numbers', args_from_model=mk,
                                  key='O3:add:numbers', timeout_s=60))
        okmeta = (n.from_datum == 'A' and n.to_datum == 'B' and n.ref_epoch is target)
        v = solve.prove([], z3.BoolVal(bool(okmeta)), timeout_s=5, portfolio=False)
        if okmeta:
            out.append(ob.res('O3', '__add__ keeps labels, epoch = target', 'proved', [ob.qrec('ground', v)]))
        else:
            out.append(ob.ground_violation('O3', '__add__ labels', PID, 'O3:add:labels', 'oracles.c11:add_labels', {},
                                           'labels %r %r' % (n.from_datum, n.to_datum)))
    return out


def _itrf_sets(cat):
    s = {}
    for name, t in cat.items():
        m = re.match(r'^(itrf[0-9]+)_to_(itrf[0-9]+)$', name)
        if m and isinstance(t.ref_epoch, datetime.date):
            s[(m.group(1), m.group(2))] = (name, t)
    return s


def g_triples(tier, seed):
    gc, cat = _cat()
    sets = _itrf_sets(cat)
    frames = sorted({a for a, _ in sets} | {b for _, b in sets})
    epochs = sorted({t.ref_epoch.toordinal() for _, t in cat.items() if isinstance(t.ref_epoch, datetime.date)})
    T = z3.Real('epoch_ordinal')
    dom = [T >= epochs[0], T <= epochs[-1]]
    out, qs, n = [], [], 0
    yr = ratval(Fraction('365.25'))
    for a, b, c in itertools.permutations(frames, 3):
        if (a, b) in sets and (b, c) in sets and (a, c) in sets:
            n += 1
            (nab, ab), (nbc, bc), (nac, ac) = sets[(a, b)], sets[(b, c)], sets[(a, c)]
            goals = []
            for k in PARAMS:
                def at(t):
                    return ratval(_fr(getattr(t, k))) + ratval(_fr(getattr(t, 'd_' + k))) * (T - t.ref_epoch.toordinal()) / yr
                goals.append(ob.zabs(at(ab) + at(bc) - at(ac)) <= ratval(TOL[k]))
                dr = _fr(getattr(ab, 'd_' + k)) + _fr(getattr(bc, 'd_' + k)) - _fr(getattr(ac, 'd_' + k))
                goals.append(ob.zabs(ratval(dr)) <= ratval(TOL[k]))
            v = solve.prove(dom, z3.And(*goals), timeout_s=20, portfolio=False)
            qs.append(ob.qrec('QF_LRA', v))
            if v.status != 'unsat':
                env = solve.model_env(v.model, {'epoch_ordinal': T}) if v.model is not None else {'epoch_ordinal': epochs[0]}
                out.append(ob.ground_violation('O4', 'triple %s %s %s' % (nab, nbc, nac), PID,
                                               'O4:triple:%s+%s=%s' % (nab, nbc, nac), 'oracles.c11:triple',
                                               {'ab': nab, 'bc': nbc, 'ac': nac, 'ordinal': int(env['epoch_ordinal'] // 1)},
                                               queries=[qs[-1]]))
    if not out:
        out.append(ob.res('O4', '%d ordered ITRF triples consistent over the epoch hull %s..%s' % (
            n, datetime.date.fromordinal(epochs[0]), datetime.date.fromordinal(epochs[-1])), 'proved', qs))
    return out


def g_iers(tier, seed):
    gc, _ = _cat()

    def run():
        vals = {p: fresh_real(p, -10 ** 6, 10 ** 6) for p in PARAMS + RATES}
        return vals, gc.iers2trans('X', 'Y', datetime.date(2000, 1, 1), *[vals[p] for p in PARAMS], *[vals[p] for p in RATES])
    paths, st = explore(run)
    out = []
    for p in paths:
        if p.kind != 'return':
            out.append(ob.res('O5', 'iers2trans', 'inconclusive', [], 'path %s %r' % (p.kind, p.value)))
            continue
        vals, t = p.value
        half = ratval(Fraction(1, 2 * 10 ** 8))
        goals = []
        for k in PARAMS + RATES:
            sgn = -1 if k.lstrip('d_').startswith('r') else 1
            goals.append(ob.zabs(toz(getattr(t, k)) - sgn * toz(vals[k]) / 1000) <= half)
        okmeta = (t.from_datum == 'X' and t.to_datum == 'Y' and t.ref_epoch == datetime.date(2000, 1, 1))
        goals.append(z3.BoolVal(bool(okmeta)))
        out.append(ob.decide_goal('O5', 'iers2trans: /1000, rotations negated, 8-decimal rounding', ob.path_conds(p),
                                  z3.And(*goals), pid=PID, oracle='oracles.c11:iers',
                                  args_from_model=lambda env: {'vals': {k: env.get(k, 0) for k in PARAMS + RATES}},
                                  key='O5:iers2trans'))
    return out


def groups(tier):
    return [('labels', g_labels), ('neg_symbolic', g_neg_symbolic), ('pairs', g_pairs),
            ('add_symbolic', g_add_symbolic), ('triples', g_triples), ('iers', g_iers)]
