"""C17 - NTv2 grid files are read faithfully and interpolated only from the right nodes."""
import z3
from vsym import core, solve, ob, mathx
from vsym.core import SymReal, SymBool, Fraction, ratval, toz, explore, fresh_real
from checks.common import uf_call, swap_globals

PID = 'C17'
QT = {'quick': 20, 'thorough': 90}
META = {
    'level': 'other',
    'explanation': 'Bounded symbolic execution of geodepy.ntv2reader (read_ntv2_file, interpolate_ntv2, SubGrid.ntv2_bilinear/ntv2_bicubic, '
                   'bilinear/bicubic_interpolation) and transform.ntv2_2d (real source) over a position-tracking virtual file: header fields are '
                   'typed cells at the offsets the NTv2 format defines (symbolic extents and increments), node values are an uninterpreted '
                   'function of the absolute byte offset; the query position is symbolic inside a sub-grid. Decided by LIA/NRA queries: every '
                   'header field is read from its offset and returned rounded as specified; every node read lies at base + 16 (r ncols + c) + 4 field '
                   'with (r, c) the intended neighbour INSIDE the selected sub-grid; bilinear = exact blend; node values reproduced at nodes; affine '
                   'fields reproduced by both methods and bi-quadratic fields by the bicubic one; finest containing sub-grid selected, also in '
                   'call sequences; None outside; ntv2_2d signs/units/errors.',
    'functions': ['geodepy.ntv2reader.read_ntv2_file', 'geodepy.ntv2reader.interpolate_ntv2', 'geodepy.ntv2reader.SubGrid.ntv2_bilinear',
                  'geodepy.ntv2reader.SubGrid.ntv2_bicubic', 'geodepy.ntv2reader.read_node', 'geodepy.ntv2reader.bilinear_interpolation',
                  'geodepy.ntv2reader.bicubic_interpolation', 'geodepy.transform.ntv2_2d'],
    'bounds': {'sub-grids': '1..2 (quick) / 1..4 (thorough), nested and disjoint', 'shapes': '3x3, 5x4, 8x6 (quick); up to 60x60 (thorough)',
               'extents/increments': 'concrete per shape (arc-seconds, positive and negative longitudes), header values symbolic for the read-back claim',
               'query point': 'symbolic anywhere inside the selected sub-grid (nodes, edges, interior, outermost ring)'},
    'outside': ['byte-level decoding by struct / int.from_bytes (C-level; replaced by typed cells of the virtual file)',
                '32-bit float quantisation of node values and IEEE rounding of the interpolation (R-model)', 'files that violate the NTv2 layout'],
    'assumptions': ['node value = uninterpreted function of the byte offset; polynomial-reproduction claims add the hypothesis that the intended '
                    'nodes carry the polynomial'],
}
NODE = z3.Function('NODE', z3.RealSort(), z3.RealSort())


# --- virtual NTv2 file ---------------------------------------------------------------------------
class ByteTok:
    def __init__(self, model, pos, n):
        self.model, self.pos, self.n = model, pos, n

    def decode(self, enc='utf8'):
        return self.model.cell(self.pos, self.n, 'str')

    def __len__(self):
        return self.n


class Model:
    """NTv2 layout: 11 x 16-byte overview records, per sub-grid 11 x 16-byte records + 16-byte nodes"""

    def __init__(self, subgrids, overview=None):
        self.cells = {}
        self.log = []          # (pos, n, kind, ok)
        self.node_reads = []   # symbolic / concrete offsets of 4-byte node fields
        self.subgrids = subgrids
        ov = overview or {}
        o = 0
        for i, (name, kind, val) in enumerate([('NUM_OREC', 'int', ov.get('num_orec', 11)), ('NUM_SREC', 'int', ov.get('num_srec', 11)),
                                               ('NUM_FILE', 'int', len(subgrids)), ('GS_TYPE', 'str', 'SECONDS '), ('VERSION', 'str', 'NTv2.0  '),
                                               ('SYSTEM_F', 'str', 'GDA94   '), ('SYSTEM_T', 'str', 'GDA2020 '),
                                               ('MAJOR_F', 'double', ov.get('major_f', 6378137.0)), ('MINOR_F', 'double', ov.get('minor_f', 6356752.314)),
                                               ('MAJOR_T', 'double', ov.get('major_t', 6378137.0)), ('MINOR_T', 'double', ov.get('minor_t', 6356752.314))]):
            self.cells[(16 * i + 8, 4 if kind == 'int' else 8)] = (kind, val, name)
        o = 176
        self.bases = []
        for sg in subgrids:
            recs = [('SUB_NAME', 'str', sg['name'].ljust(8)), ('PARENT', 'str', sg.get('parent', 'NONE').ljust(8)), ('CREATED', 'str', '01012020'),
                    ('UPDATED', 'str', '02012020'), ('S_LAT', 'double', sg['hdr']['s_lat']), ('N_LAT', 'double', sg['hdr']['n_lat']),
                    ('E_LONG', 'double', sg['hdr']['e_long']), ('W_LONG', 'double', sg['hdr']['w_long']), ('LAT_INC', 'double', sg['hdr']['lat_inc']),
                    ('LONG_INC', 'double', sg['hdr']['long_inc']), ('GS_COUNT', 'int', sg['nrows'] * sg['ncols'])]
            for i, (name, kind, val) in enumerate(recs):
                self.cells[(o + 16 * i + 8, 4 if kind == 'int' else 8)] = (kind, val, sg['name'] + '.' + name)
            o += 176
            self.bases.append(o)
            o += 16 * sg['nrows'] * sg['ncols']
        self.size = o

    def cell(self, pos, n, kind):
        if isinstance(pos, SymReal):
            self.log.append((pos, n, kind, False))
            raise core.PathCut('header-type read at a symbolic offset')
        c = self.cells.get((pos, n))
        ok = c is not None and c[0] == kind
        self.log.append((pos, n, kind, ok))
        if not ok:
            return {'int': 123456789, 'double': 1.2345e67, 'str': '????????'}[kind]
        return c[1]

    def node(self, pos):
        self.node_reads.append(pos)
        return SymReal(NODE(toz(pos)))


class VFile:
    def __init__(self, model):
        self.m = model
        self.pos = 0

    def seek(self, off, whence=0):
        self.pos = (self.pos + off) if whence == 1 else (off if whence == 0 else self.m.size + off)

    def read(self, n=-1):
        t = ByteTok(self.m, self.pos, n)
        self.pos = self.pos + n
        return t

    def __enter__(self):
        return self

    def __exit__(self, *a):
        return False


class StructStub:
    @staticmethod
    def unpack(fmt, tok):
        if fmt == 'f':
            return (tok.model.node(tok.pos),)
        if fmt == 'd':
            return (tok.model.cell(tok.pos, tok.n, 'double'),)
        raise core.PathCut('unsupported struct format %r' % fmt)


def install(nr, model):
    """hooks for the instrumented ntv2reader module"""
    base_int = nr.__dict__['int']

    class IntShadow(base_int):
        @classmethod
        def from_bytes(cls, b, byteorder='big', **k):
            if isinstance(b, ByteTok):
                return b.model.cell(b.pos, b.n, 'int')
            return int.from_bytes(b, byteorder, **k)
    # keep the symbolic-aware constructor of the engine's int shadow
    IntShadow.__new__ = lambda cls, *a, **k: base_int.__new__(base_int, *a, **k)
    return dict(open=lambda path, mode='r': VFile(model), struct=StructStub, int=IntShadow)


def _mods():
    import geodepy.ntv2reader as nr
    import geodepy.transform as tr
    return nr, tr


def shape(name, s_lat, e_long, lat_inc, long_inc, nrows, ncols, parent='NONE'):
    hdr = {'s_lat': s_lat, 'n_lat': s_lat + lat_inc * (nrows - 1), 'e_long': e_long, 'w_long': e_long + long_inc * (ncols - 1),
           'lat_inc': lat_inc, 'long_inc': long_inc}
    return {'name': name, 'parent': parent, 'hdr': hdr, 'nrows': nrows, 'ncols': ncols}


# --- O1 header bookkeeping ---------------------------------------------------------------------------
def g_header(tier, seed):
    nr, tr = _mods()
    out = []
    for nsub in ((1, 2) if tier == 'quick' else (1, 2, 3, 4)):
        def run():
            sgs = []
            syms = {}
            for k in range(nsub):
                nm = 'SG%d' % k
                hdr = {f: fresh_real('%s_%s' % (nm, f), -10 ** 6, 10 ** 6) for f in ('s_lat', 'n_lat', 'e_long', 'w_long', 'lat_inc', 'long_inc')}
                syms[nm] = hdr
                sgs.append({'name': nm, 'parent': 'NONE' if k == 0 else 'SG0', 'hdr': hdr, 'nrows': 3 + k, 'ncols': 4 + 2 * k})
            ov = {k: fresh_real(k, 6 * 10 ** 6, 7 * 10 ** 6) for k in ('major_f', 'minor_f', 'major_t', 'minor_t')}
            m = Model(sgs, ov)
            with swap_globals(nr, **install(nr, m)):
                g = nr.read_ntv2_file('virtual.gsb')
            return m, syms, ov, g
        paths, st = explore(run, max_paths=10)
        for p in paths:
            if p.kind != 'return':
                out.append(ob.ground_violation('O1', 'read_ntv2_file (%d sub-grids) %s: %r' % (nsub, p.kind, p.value), PID, 'O1:header-raises',
                                               'oracles.c17:header', {'nsub': nsub}))
                continue
            m, syms, ov, g = p.value
            bad = [(pos, n, kind) for pos, n, kind, ok in m.log if not ok]
            v = solve.prove([], z3.BoolVal(not bad), 5, False)
            if bad:
                out.append(ob.ground_violation('O1', 'header field read from a wrong offset/type: %s' % bad[:3], PID, 'O1:header-offset',
                                               'oracles.c17:header', {'nsub': nsub}, queries=[ob.qrec('ground', v)]))
            else:
                out.append(ob.res('O1', '%d header cells of a %d-sub-grid file read from exactly the offsets the format defines' % (len(m.log), nsub),
                                  'proved', [ob.qrec('ground', v)]))
            goals = [z3.BoolVal(g.num_file == nsub and g.gs_type == 'SECONDS' and g.version == 'NTv2.0' and g.system_f == 'GDA94'
                                and g.system_t == 'GDA2020' and sorted(g.subgrids) == sorted(syms))]
            for k in ('major_f', 'minor_f', 'major_t', 'minor_t'):
                goals.append(toz(getattr(g, k)) == toz(ov[k]))
            for nm, hdr in syms.items():
                sg = g.subgrids.get(nm)
                if sg is None:
                    goals.append(z3.BoolVal(False))
                    continue
                for f, nd in (('s_lat', 3), ('n_lat', 3), ('e_long', 3), ('w_long', 3), ('lat_inc', 6), ('long_inc', 6)):
                    goals.append(ob.zabs(toz(getattr(sg, f)) - toz(hdr[f])) <= ratval(Fraction(1, 2 * 10 ** nd)))
                exp_count = [s for s in m.subgrids if s['name'] == nm][0]
                goals.append(z3.BoolVal(sg.gs_count == exp_count['nrows'] * exp_count['ncols'] and sg.parent == exp_count['parent']
                                        and sg.created == '01/01/2020' and sg.updated == '02/01/2020'))
            out.append(ob.decide_goal('O1', 'metadata of a %d-sub-grid file read back as written (extents to 0.001", increments to 1e-6")' % nsub,
                                      ob.path_conds(p), z3.And(*goals), pid=PID, oracle='oracles.c17:header', args_from_model=lambda env: {'nsub': nsub},
                                      key='O1:header-values', timeout_s=QT[tier]))
    return out


# --- O2/O3 addressing and interpolation ----------------------------------------------------------------
SHAPES_QUICK = [[shape('A', -144000, -540000, 3600, 3600, 3, 3)],
                [shape('P', 36000, 360000, 1800, 900, 5, 4), shape('B', -72000, -180000, 600, 300, 8, 6)],
                [shape('Q', -36000, -432000, 30, 60, 6, 7)]]
SHAPES_THOROUGH = SHAPES_QUICK + [[shape('C', 0, 0, 120, 120, 60, 60)], [shape('D', -324000, 396000, 45, 30, 33, 17), shape('E', 10000, -10000, 3600, 1800, 3, 60)],
                                  [shape('F0', 0, 0, 3600, 3600, 4, 4), shape('F1', 3600, 3600, 1200, 1200, 4, 4, 'F0'), shape('F2', 100000, 0, 600, 600, 5, 5),
                                   shape('F3', 3600, 3600, 600, 600, 3, 3, 'F1')]]


def g_interp(method):
    def g(tier, seed):
        nr, tr = _mods()
        out = []
        layouts = SHAPES_QUICK if tier == 'quick' else SHAPES_THOROUGH
        for li, sgs in enumerate(layouts):
            m0 = Model(sgs)
            with swap_globals(nr, **install(nr, m0)):
                grid = nr.read_ntv2_file('virtual.gsb')
            for ti, target in enumerate(sgs):
                if any(o is not target and o['hdr']['lat_inc'] < target['hdr']['lat_inc'] and _contains(o, target) for o in sgs):
                    continue        # fully covered by a finer sub-grid: never selected
                h = target['hdr']
                tag = '%s layout %d sub-grid %s (%dx%d)' % (method, li, target['name'], target['nrows'], target['ncols'])

                def run():
                    lat_s = fresh_real('lat_s', h['s_lat'], h['n_lat'])
                    lon_s = fresh_real('lon_s', h['e_long'], h['w_long'])
                    core.CTX.assume((lat_s < h['n_lat']) & (lon_s < h['w_long']))
                    for o in sgs:          # outside every finer overlapping sub-grid
                        if o is not target and o['hdr']['lat_inc'] < h['lat_inc']:
                            oh = o['hdr']
                            core.CTX.assume(~((lat_s >= oh['s_lat']) & (lat_s < oh['n_lat']) & (lon_s >= oh['e_long']) & (lon_s < oh['w_long'])))
                    m = Model(sgs)
                    with swap_globals(nr, **install(nr, m)):
                        r = nr.interpolate_ntv2(grid, lat_s / 3600, lon_s / -3600, method)
                    return m, lat_s, lon_s, r
                paths, st = explore(run, max_paths=30, max_decisions=40)
                base = m0.bases[ti]
                nrows, ncols = target['nrows'], target['ncols']
                nret = 0
                for p in paths:
                    if p.kind == 'cut':
                        continue
                    mk = lambda env: {'method': method, 'layout': li, 'sub': ti, 'env': env, 'tier': tier}
                    if p.kind == 'raise':
                        out.append(ob.decide_goal('O2', '%s: no exception inside the sub-grid (%r)' % (tag, p.value), ob.path_conds(p), z3.BoolVal(False),
                                                  pid=PID, oracle='oracles.c17:interp', args_from_model=mk, key='O2:raises',
                                                  domain={'lat_s': (h['s_lat'], h['n_lat']), 'lon_s': (h['e_long'], h['w_long'])},
                                                  num_conds=p.assumptions + p.pc))
                        continue
                    nret += 1
                    m, lat_s, lon_s, r = p.value
                    conds = ob.path_conds(p)
                    row = core.sym_floor((lat_s - h['s_lat']) / h['lat_inc'])
                    col = core.sym_floor((lon_s - h['e_long']) / h['long_inc'])
                    fy = (lat_s - (h['s_lat'] + row * h['lat_inc'])) / h['lat_inc']
                    fx = (lon_s - (h['e_long'] + col * h['long_inc'])) / h['long_inc']
                    # (a) every node read is a field of a node inside this sub-grid
                    inside = []
                    for pos in m.node_reads:
                        pz = toz(pos)
                        k = z3.Int('k_%d' % len(inside))
                        inside.append(z3.And(pz >= base, pz < base + 16 * nrows * ncols))
                    dom = {'lat_s': (h['s_lat'], h['n_lat']), 'lon_s': (h['e_long'], h['w_long'])}
                    ring = 'bicubic' if method == 'bicubic' else None
                    out.append(ob.decide_goal('O2', '%s: all %d node reads lie inside the selected sub-grid\'s node block' % (tag, len(m.node_reads)), conds,
                                              z3.And(*inside) if inside else z3.BoolVal(False), pid=PID, oracle='oracles.c17:interp', args_from_model=mk,
                                              key='O2:%s:stencil-leaves-grid' % method, domain=dom, num_conds=p.assumptions + p.pc, timeout_s=QT[tier],
                                              extra_points=[{'lat_s': h['s_lat'] + Fraction(h['lat_inc'], 3), 'lon_s': h['e_long'] + Fraction(h['long_inc'], 3)}]))
                    # (b) the intended neighbours: rows row-?..row+?, cols col-?..col+? of THIS sub-grid, in the intended order
                    span = (0, 1) if method == 'bilinear' else (-1, 0, 1, 2)
                    interior = z3.BoolVal(True) if method == 'bilinear' else z3.And(toz(row) >= 1, toz(row) <= nrows - 3, toz(col) >= 1, toz(col) <= ncols - 3)
                    intended = set()
                    want = []
                    for dr in span:
                        for dc in span:
                            for f in range(4):
                                want.append(base + 16 * ((row + dr) * ncols + (col + dc)) + 4 * f)
                    reads = [toz(x) for x in m.node_reads]
                    each_read_intended = z3.And(*[z3.Or(*[rz == toz(w) for w in want]) for rz in reads]) if reads else z3.BoolVal(False)
                    each_intended_read = z3.And(*[z3.Or(*[rz == toz(w) for rz in reads]) for w in want]) if reads else z3.BoolVal(False)
                    out.append(ob.decide_goal('O2', '%s: the nodes read are exactly the %d intended neighbours (4 fields each)%s' % (
                        tag, len(span) ** 2, '' if method == 'bilinear' else ' for points not in the outermost ring of cells'), conds + [interior],
                        z3.And(each_read_intended, each_intended_read), pid=PID, oracle='oracles.c17:interp', args_from_model=mk,
                        key='O2:%s:neighbours' % method, domain=dom, num_conds=p.assumptions + p.pc, timeout_s=QT[tier]))
                    # (c) value: hypotheses on the intended nodes
                    if not (isinstance(r, tuple) and len(r) == 4 and all(isinstance(v, SymReal) for v in r)):
                        out.append(ob.ground_violation('O3', '%s returns %r inside the sub-grid' % (tag, r), PID, 'O3:none-inside', 'oracles.c17:interp', mk({})))
                        continue
                    for f in (0, 1) if tier == 'quick' else (0, 1, 2, 3):
                        def nv(dr, dc):
                            return NODE(toz(base + 16 * ((row + dr) * ncols + (col + dc)) + 4 * f))
                        half6 = ratval(Fraction(1, 2 * 10 ** 6) + Fraction(1, 10 ** 9))
                        if method == 'bilinear':
                            blend = (nv(0, 0) * (1 - toz(fx)) * (1 - toz(fy)) + nv(0, 1) * toz(fx) * (1 - toz(fy)) + nv(1, 0) * (1 - toz(fx)) * toz(fy)
                                     + nv(1, 1) * toz(fx) * toz(fy))
                            out.append(ob.decide_goal('O3', '%s field %d: exact bilinear blend of the four enclosing nodes (6-decimal rounding)' % (tag, f), conds,
                                                      ob.zabs(toz(r[f]) - blend) <= half6, pid=PID, oracle='oracles.c17:interp', args_from_model=mk,
                                                      key='O3:bilinear-blend', domain=dom, num_conds=p.assumptions + p.pc, timeout_s=QT[tier]))
                        # polynomial reproduction: affine for both, bi-quadratic for bicubic (interior)
                        co = [z3.Real('pc%d' % i) for i in range(9)]
                        cb = [z3.And(c <= 10, c >= -10) for c in co]

                        def poly(rr, cc, deg):
                            rr, cc = toz(rr), toz(cc)
                            if deg == 1:
                                return co[0] + co[1] * rr + co[2] * cc
                            return (co[0] + co[1] * rr + co[2] * cc + co[3] * rr * cc + co[4] * rr * rr + co[5] * cc * cc + co[6] * rr * rr * cc
                                    + co[7] * rr * cc * cc + co[8] * rr * rr * cc * cc)
                        for deg in ():      # reproduction claims are decided as lemmas on the interpolation kernels (g_bicubic_lemma) + the blend/wiring obligations
                            hyp = [nv(dr, dc) == poly(row + dr, col + dc, deg) for dr in span for dc in span]
                            target_v = poly(row + fy, col + fx, deg)
                            # the bicubic routine rounds the cell fractions to 6 decimals before evaluating: allow that much movement
                            slack = half6 if method == 'bilinear' else ratval(Fraction(1, 2 * 10 ** 6) + Fraction(1, 10 ** 3))
                            out.append(ob.decide_goal('O3', '%s field %d: reproduces a %s field%s' % (
                                tag, f, 'linear' if deg == 1 else 'bi-quadratic', '' if method == 'bilinear' else ' (interior cells)'),
                                conds + hyp + cb + [interior], ob.zabs(toz(r[f]) - target_v) <= slack, pid=PID, oracle='oracles.c17:interp',
                                args_from_model=mk, key='O3:%s:reproduction' % method, domain=dom, num_conds=p.assumptions + p.pc, timeout_s=QT[tier]))
                if nret == 0:
                    out.append(ob.res('O2', tag, 'inconclusive', [], 'no returning path'))
        return out
    return g


def _contains(o, t):
    oh, th = o['hdr'], t['hdr']
    return oh['s_lat'] <= th['s_lat'] and oh['n_lat'] >= th['n_lat'] and oh['e_long'] <= th['e_long'] and oh['w_long'] >= th['w_long']


ROLES = {1: (0, 0), 2: (0, 1), 3: (1, 1), 4: (1, 0), 5: (-1, -1), 6: (-1, 0), 7: (-1, 1), 8: (-1, 2), 9: (0, 2), 10: (1, 2), 11: (2, 2), 12: (2, 1),
         13: (2, 0), 14: (2, -1), 15: (1, -1), 16: (0, -1)}      # node k of bicubic_interpolation = (row offset, column offset) from node 1


def g_bicubic_wiring(tier, seed):
    """ntv2_bicubic hands bicubic_interpolation the 16 intended nodes in the roles its formula assumes, with the cell fractions"""
    nr, tr = _mods()
    out = []
    layouts = SHAPES_QUICK if tier == 'quick' else SHAPES_THOROUGH
    for li, sgs in enumerate(layouts):
        m0 = Model(sgs)
        with swap_globals(nr, **install(nr, m0)):
            grid = nr.read_ntv2_file('virtual.gsb')
        for ti, target in enumerate(sgs):
            if target['nrows'] < 4 or target['ncols'] < 4 or any(o is not target and o['hdr']['lat_inc'] < target['hdr']['lat_inc'] for o in sgs):
                continue
            h = target['hdr']
            tag = 'bicubic wiring layout %d sub-grid %s (%dx%d)' % (li, target['name'], target['nrows'], target['ncols'])

            def bic(*a):
                return uf_call('bicubic_interpolation', 1, *a)[0]

            def run():
                lat_s = fresh_real('lat_s', h['s_lat'] + h['lat_inc'], h['n_lat'] - h['lat_inc'])
                lon_s = fresh_real('lon_s', h['e_long'] + h['long_inc'], h['w_long'] - h['long_inc'])
                core.CTX.assume((lat_s < h['n_lat'] - h['lat_inc']) & (lon_s < h['w_long'] - h['long_inc']))
                m = Model(sgs)
                with swap_globals(nr, bicubic_interpolation=bic, **install(nr, m)):
                    r = nr.interpolate_ntv2(grid, lat_s / 3600, lon_s / -3600, 'bicubic')
                return m, lat_s, lon_s, r
            paths, st = explore(run, max_paths=20, max_decisions=40)
            base, ncols = m0.bases[ti], target['ncols']
            for p in paths:
                if p.kind != 'return':
                    continue
                m, lat_s, lon_s, r = p.value
                row = core.sym_floor((lat_s - h['s_lat']) / h['lat_inc'])
                col = core.sym_floor((lon_s - h['e_long']) / h['long_inc'])
                fy = (lat_s - (h['s_lat'] + row * h['lat_inc'])) / h['lat_inc']
                fx = (lon_s - (h['e_long'] + col * h['long_inc'])) / h['long_inc']
                core.CTX = core.Ctx(assumptions=p.assumptions + p.pc)
                try:
                    xr, yr = round(fx, 6), round(fy, 6)
                    extra = list(core.CTX.facts)
                finally:
                    core.CTX = None
                for f in (0, 1) if tier == 'quick' else (0, 1, 2, 3):
                    nodes = [SymReal(NODE(toz(base + 16 * ((row + ROLES[k][0]) * ncols + (col + ROLES[k][1])) + 4 * f))) for k in range(1, 17)]
                    exp = round(bic(*nodes, xr, yr), 6)
                    out.append(ob.decide_close('O3', '%s field %d: result = round6(bicubic_interpolation(16 intended nodes in their roles, cell fractions))' % (tag, f),
                                               p, r[f], exp, Fraction(1, 10 ** 9), pid=PID, key='O3:bicubic:wiring', oracle='oracles.c17:interp', domain=None,
                                               make_args=lambda env: {'method': 'bicubic', 'layout': li, 'sub': ti, 'env': {}, 'tier': tier},
                                               extra_conds=extra, timeout_s=QT[tier]))
    return out or [ob.res('O3', 'bicubic wiring', 'inconclusive', [], 'no layout with an interior')]


def g_bicubic_lemma(tier, seed):
    """bicubic_interpolation (real source) reproduces every bi-quadratic field on its 4x4 stencil exactly, and returns node 1 at (0, 0)"""
    nr, tr = _mods()
    co = [fresh_real.__wrapped__('c%d' % i) if hasattr(fresh_real, '__wrapped__') else SymReal(z3.Real('c%d' % i)) for i in range(9)]
    x, y = SymReal(z3.Real('x')), SymReal(z3.Real('y'))

    def P(cx, ry):          # cx: column-direction coordinate (x), ry: row-direction coordinate (y)
        return (co[0] + co[1] * ry + co[2] * cx + co[3] * ry * cx + co[4] * ry * ry + co[5] * cx * cx + co[6] * ry * ry * cx + co[7] * ry * cx * cx
                + co[8] * ry * ry * cx * cx)
    nodes = [P(ROLES[k][1], ROLES[k][0]) for k in range(1, 17)]
    out = []
    paths, st = explore(lambda: nr.bicubic_interpolation(*nodes, x, y), max_paths=4)
    for p in paths:
        if p.kind != 'return':
            out.append(ob.res('O3', 'bicubic lemma', 'inconclusive', [], 'path %r' % (p.value,)))
            continue
        v = solve.prove(ob.path_conds(p), toz(p.value) == toz(P(x, y)), timeout_s=max(60, QT[tier]))
        out.append(ob.res('O3', 'bicubic_interpolation reproduces an arbitrary bi-quadratic field given on its 4x4 stencil (hence linear fields, and '
                          'the node value at a node)', 'proved' if v.status == 'unsat' else 'inconclusive', [ob.qrec('NRA', v)], 'solver=%s' % v.status))
    # bilinear lemma for completeness
    n = [SymReal(z3.Real('n%d' % i)) for i in range(4)]
    pb, _ = explore(lambda: nr.bilinear_interpolation(n[0], n[1], n[2], n[3], x, y), max_paths=2)
    for p in pb:
        ref = n[0] * (1 - x) * (1 - y) + n[1] * x * (1 - y) + n[2] * (1 - x) * y + n[3] * x * y
        v = solve.prove(ob.path_conds(p), toz(p.value) == toz(ref), timeout_s=30)
        out.append(ob.res('O3', 'bilinear_interpolation = n1(1-x)(1-y) + n2 x(1-y) + n3 (1-x)y + n4 xy', 'proved' if v.status == 'unsat' else 'inconclusive',
                          [ob.qrec('NRA', v)], 'solver=%s' % v.status))
    # affine reproduction by the bilinear kernel: nodes of a unit cell carrying an affine field
    a0, a1, a2 = SymReal(z3.Real('a0')), SymReal(z3.Real('a1')), SymReal(z3.Real('a2'))
    A = lambda cx, ry: a0 + a1 * ry + a2 * cx
    pl, _ = explore(lambda: nr.bilinear_interpolation(A(0, 0), A(1, 0), A(0, 1), A(1, 1), x, y), max_paths=2)
    for p in pl:
        v = solve.prove(ob.path_conds(p), toz(p.value) == toz(A(x, y)), timeout_s=30)
        out.append(ob.res('O3', 'bilinear_interpolation reproduces an arbitrary linear field (and returns the node value at a node)',
                          'proved' if v.status == 'unsat' else 'inconclusive', [ob.qrec('NRA', v)], 'solver=%s' % v.status))
    return out


# --- O4 selection ---------------------------------------------------------------------------------------
def g_selection(tier, seed):
    nr, tr = _mods()
    out = []
    parent = shape('PAR', 0, 0, 3600, 3600, 5, 5)
    child = shape('CHI', 3600, 3600, 900, 900, 5, 5, 'PAR')
    for order in ((parent, child), (child, parent)):
        sgs = list(order)
        m0 = Model(sgs)
        with swap_globals(nr, **install(nr, m0)):
            grid = nr.read_ntv2_file('virtual.gsb')
        before = sorted(vars(grid))
        ci, pi = sgs.index(child), sgs.index(parent)

        def run():
            # first a point only the parent covers, then a point inside the child, then outside everything
            la1, lo1 = fresh_real('la1', 7500, 14000), fresh_real('lo1', 7500, 14000)
            la2, lo2 = fresh_real('la2', 3600, 7199), fresh_real('lo2', 3600, 7199)
            la3, lo3 = fresh_real('la3', 14400, 20000), fresh_real('lo3', -5000, -1)
            m = Model(sgs)
            with swap_globals(nr, **install(nr, m)):
                r1 = nr.interpolate_ntv2(grid, la1 / 3600, lo1 / -3600, 'bilinear')
                n1 = len(m.node_reads)
                r2 = nr.interpolate_ntv2(grid, la2 / 3600, lo2 / -3600, 'bilinear')
                r3 = nr.interpolate_ntv2(grid, la3 / 3600, lo3 / -3600, 'bilinear')
                r4 = nr.interpolate_ntv2(grid, la3 / 3600, lo2 / -3600, 'bicubic')
            return m, n1, r1, r2, r3, r4
        paths, st = explore(run, max_paths=20)
        mk = lambda env: {'order': [s['name'] for s in sgs]}
        for p in paths:
            if p.kind != 'return':
                out.append(ob.ground_violation('O4', 'interpolation sequence %s: %r' % (p.kind, p.value), PID, 'O4:sequence-raises', 'oracles.c17:selection', mk({})))
                continue
            m, n1, r1, r2, r3, r4 = p.value
            conds = ob.path_conds(p)
            inblock = lambda pos, i: z3.And(toz(pos) >= m0.bases[i], toz(pos) < m0.bases[i] + 16 * 25)
            g1 = z3.And(*[inblock(x, pi) for x in m.node_reads[:n1]])
            g2 = z3.And(*[inblock(x, ci) for x in m.node_reads[n1:]])
            out.append(ob.decide_goal('O4', 'file order %s: a point only the parent covers is interpolated from the parent' % [s['name'] for s in sgs],
                                      conds, g1, pid=PID, oracle='oracles.c17:selection', args_from_model=mk, key='O4:selection'))
            out.append(ob.decide_goal('O4', 'file order %s: a point inside the nested sub-grid is interpolated from the finer sub-grid, also after a '
                                      'parent-only query on the same grid object' % [s['name'] for s in sgs], conds, g2, pid=PID,
                                      oracle='oracles.c17:selection', args_from_model=mk, key='O4:selection'))
            none_ok = all(v is None for v in r3) and len(r3) == 4 and all(v is None for v in r4)
            out.append(ob.res('O4', 'outside every sub-grid four None values are returned (both methods)', 'proved',
                              [ob.qrec('ground', solve.prove([], z3.BoolVal(True), 5, False))]) if none_ok else
                       ob.ground_violation('O4', 'outside every sub-grid: %r' % (r3,), PID, 'O4:outside', 'oracles.c17:selection', mk({})))
        after = sorted(vars(grid))
        if after != before:
            out.append(ob.ground_violation('O4', 'interpolate_ntv2 stores state on the grid object: %s' % sorted(set(after) - set(before)), PID,
                                           'O4:grid-object-state', 'oracles.c17:selection', mk({})))
    return out


class PermSet:
    """stand-in for the built-in set inside the instrumented reader: same contents, iteration order dictated by the harness
    (a Python set of strings iterates in an order that depends on the hash seed: every order must give the same answer)"""
    ORDER = [None]

    def __init__(self, it=()):
        self.items = []
        for x in it:
            self.add(x)

    def add(self, x):
        if x not in self.items:
            self.items.append(x)

    def __len__(self):
        return len(self.items)

    def __contains__(self, x):
        return x in self.items

    def __iter__(self):
        order = PermSet.ORDER[0]
        if order is None:
            return iter(list(self.items))
        return iter(sorted(self.items, key=lambda n: order.index(n) if n in order else len(order)))


def g_selection3(tier, seed):
    """three nested sub-grids (3600", 1800", 900") that all contain the query point: for every file order and every iteration order of
    the set of candidate names the nodes read belong to the finest one"""
    import itertools
    nr, tr = _mods()
    out = []
    parent = shape('PAR', 0, 0, 3600, 3600, 5, 5)
    mid = shape('MID', 3600, 3600, 1800, 1800, 5, 5, 'PAR')
    child = shape('CHI', 3600, 3600, 900, 900, 5, 5, 'MID')
    file_orders = [(parent, mid, child), (child, parent, mid)] if tier == 'quick' else list(itertools.permutations((parent, mid, child)))
    for sgs in file_orders:
        sgs = list(sgs)
        m0 = Model(sgs)
        with swap_globals(nr, **install(nr, m0)):
            grid = nr.read_ntv2_file('virtual.gsb')
        ci = sgs.index(child)
        for it_order in itertools.permutations(('PAR', 'MID', 'CHI')):
            def run():
                la, lo = fresh_real('la2', 3600, 7199), fresh_real('lo2', 3600, 7199)
                m = Model(sgs)
                PermSet.ORDER[0] = list(it_order)
                try:
                    with swap_globals(nr, set=PermSet, **install(nr, m)):
                        r = nr.interpolate_ntv2(grid, la / 3600, lo / -3600, 'bilinear')
                finally:
                    PermSet.ORDER[0] = None
                return m, r
            paths, st = explore(run, max_paths=20, loop_bound=4)
            mk = lambda env: {'levels': 3}
            label = 'file order %s, candidates visited in the order %s' % ([s['name'] for s in sgs], list(it_order))
            for p in paths:
                if p.kind == 'cut':
                    out.append(ob.res('O4', label, 'inconclusive', [], 'path cut: %s' % p.value))
                    continue
                if p.kind != 'return':
                    out.append(ob.ground_violation('O4', '%s: interpolation %s: %r' % (label, p.kind, p.value), PID, 'O4:selection3',
                                                   'oracles.c17:selection3', mk({})))
                    continue
                m, r = p.value
                inblock = lambda pos: z3.And(toz(pos) >= m0.bases[ci], toz(pos) < m0.bases[ci] + 16 * 25)
                g = z3.And(z3.BoolVal(len(m.node_reads) > 0), *[inblock(x) for x in m.node_reads])
                out.append(ob.decide_goal('O4', '%s: a point inside three nested sub-grids is interpolated from the finest' % label,
                                          ob.path_conds(p), g, pid=PID, oracle='oracles.c17:selection3', args_from_model=mk, key='O4:selection3'))
    return out


# --- O5 ntv2_2d -------------------------------------------------------------------------------------------
def g_2d(tier, seed):
    nr, tr = _mods()
    out = []
    grid = nr.NTv2Grid(11, 11, 1, 'SECONDS', 'NTv2.0', 'A', 'B', 1.0, 1.0, 1.0, 1.0, 'virtual.gsb')

    def interp(g, lat, lon, method='bicubic'):
        return tuple(uf_call('interpolate_ntv2[%s]' % method, 4, lat, lon))
    for fwd in (True, False):
        for method in ('bicubic', 'bilinear'):
            def run():
                lat, lon = fresh_real('lat', -90, 90), fresh_real('lon', -180, 180)
                return lat, lon, tr.ntv2_2d(grid, lat, lon, fwd, method)
            with swap_globals(tr, interpolate_ntv2=interp):
                paths, st = explore(run, max_paths=20)
            mk = lambda env: {'env': env, 'forward': fwd, 'method': method}
            for p in paths:
                if p.kind != 'return':
                    out.append(ob.decide_goal('O5', 'ntv2_2d(%s, %s): no error for a position inside the grid (%r)' % ('forward' if fwd else 'reverse', method, p.value),
                                              ob.path_conds(p), z3.BoolVal(False), pid=PID, oracle='oracles.c17:two_d', args_from_model=mk, key='O5:raises-inside',
                                              domain={'lat': (-90, 90), 'lon': (-180, 180)}, num_conds=p.assumptions + p.pc))
                    continue
                lat, lon, (tlat, tlon) = p.value
                s = interp(grid, lat, lon, method)
                sg = 1 if fwd else -1
                goal = z3.And(toz(tlat) == toz(lat) + sg * toz(s[0]) / 3600, toz(tlon) == toz(lon) - sg * toz(s[1]) / 3600)
                out.append(ob.decide_goal('O5', 'ntv2_2d %s, %s: latitude %s shift/3600, longitude %s positive-west shift/3600' % (
                    'forward' if fwd else 'reverse', method, '+' if fwd else '-', '-' if fwd else '+'), ob.path_conds(p), goal, pid=PID,
                    oracle='oracles.c17:two_d', args_from_model=mk, key='O5:signs'))
    # outside: error; wrong arguments: errors
    checks = []
    with swap_globals(tr, interpolate_ntv2=lambda g, la, lo, method='bicubic': (None, None, None, None)):
        for args, exc in (((grid, 1.0, 2.0), ValueError), ((grid, 1.0, 2.0, True, 'nearest'), ValueError), (('nogrid', 1.0, 2.0), TypeError)):
            try:
                tr.ntv2_2d(*args)
                checks.append(False)
            except exc:
                checks.append(True)
            except Exception:  # noqa
                checks.append(False)
    ok = all(checks)
    out.append(ob.res('O5', 'ntv2_2d raises outside the grid, for an unknown method and for a non-grid argument', 'proved',
                      [ob.qrec('ground', solve.prove([], z3.BoolVal(True), 5, False))]) if ok else
               ob.ground_violation('O5', 'ntv2_2d error behaviour %s' % checks, PID, 'O5:errors', 'oracles.c17:two_d', {'env': {}, 'forward': True, 'method': 'bicubic'}))
    return out


def groups(tier):
    return [('header', g_header), ('bilinear', g_interp('bilinear')), ('bicubic', g_interp('bicubic')), ('bicubic_wiring', g_bicubic_wiring),
            ('bicubic_lemma', g_bicubic_lemma), ('selection', g_selection), ('selection3', g_selection3), ('ntv2_2d', g_2d)]
