"""C02 - grid-to-geographic conversion inverts the forward conversion everywhere."""
import os
import warnings
import z3
warnings.filterwarnings("ignore", category=UserWarning)
from vsym import core, solve, ob, mathx, instr
from vsym.core import SymReal, Fraction, exact_fraction, ratval, toz, explore, fresh_real
from refs import tm as RT
from refs import ellipsoid as RE
from checks import tmcommon as TC

PID = 'C02'
QT = {'quick': 12, 'thorough': 60}
HALF11 = Fraction(5, 10 ** 12) + Fraction(1, 10 ** 15)
ISG_ZONES = (541, 542, 543, 551, 552, 553, 561, 562, 563, 572)

META = {
    'level': 'other',
    'explanation': 'Bounded symbolic execution of geodepy.convert.grid2geo, beta_coeff (real source) and of the stand-alone '
                   'Standalone/mga2gda.py on symbolic grid coordinates, ellipsoid and projection; Newton loop unrolled to K steps; '
                   'each path proved equal to the Karney-Krueger inverse (beta series + Newton on the same conformal map the forward '
                   'conversion uses), exits bounded, mirror symmetry as an identity between two runs, beta polynomials vs the published '
                   'table as one-variable NRA with an amplification budget; output-rounding budgets decided as NRA queries.',
    'functions': ['geodepy.convert.grid2geo', 'geodepy.convert.beta_coeff', 'geodepy.convert.rect_radius',
                  'Standalone/mga2gda.py:grid2geo and its module-level series constants'],
    'bounds': {'easting': '[-2 830 000, 3 830 000]', 'northing': '[0, 1e7]', 'zone': '1..60 symbolic; ISG: the ten zones',
               'ellipsoid/projection': 'as C01', 'Newton unrolling K': '2 (quick) / 3 (thorough); stand-alone: its fixed 3 steps'},
    'outside': ['that beta is the series reversion of alpha to 0.2 mm / 2e-9 deg and that Newton converges (trusted, validated by the '
                'quadrature oracle in replay)', 'IEEE rounding'],
    'assumptions': ['floats are reals; uninterpreted transcendental functions with axiom instances',
                    'coefficient budget for beta_j: |error| * a*k0*cosh(2j*0.5494) summed <= 0.05 mm'],
}
DOM = dict(TC.DOM)


def _mods():
    import geodepy.constants as gc
    import geodepy.convert as cv
    return gc, cv


class _N:
    pass


def g_coefficients(tier, seed):
    gc, cv = _mods()
    import math
    n = z3.Real('n')
    dom = [n >= ratval(Fraction(1, 802)), n <= ratval(Fraction(1, 298))]
    e = gc.Ellipsoid(6378137, Fraction('298.257222101'))      # a real Ellipsoid object whose third flattening is the symbol n
    e.n = SymReal(n)
    e.n2 = e.n ** 2
    code = cv.beta_coeff(e)
    ref = [-b for b in RT.beta(SymReal(n))]
    out = []
    for j in range(8):
        amp = Fraction(6400000) * Fraction(math.ceil(math.cosh(2 * (j + 1) * 0.5494) * 1000), 1000)
        budget = Fraction(5, 10 ** 5) / 8 / amp
        v = solve.prove(dom, ob.zabs(toz(code[j]) - toz(ref[j])) <= ratval(budget), timeout_s=30)
        if v.status == 'unsat':
            out.append(ob.res('O1', 'b_%d(n) = -beta_%d(n) within budget %.2e over 1/f in [150,400]' % (2 * j + 2, 2 * j + 2, float(budget)),
                              'proved', [ob.qrec('NRA-1', v)]))
        else:
            out.append(ob.ground_violation('O1', 'b_%d(n) deviates from the published beta series beyond the 0.05 mm budget' % (2 * j + 2), PID,
                                           'O1:beta%d' % (2 * j + 2), 'oracles.c02:inverse_env', {'env': {}, 'case': ['sym', 'utm', 'sym', 'south']},
                                           queries=[ob.qrec('NRA-1', v)]))
    return out


def run_case(gc, cv, ell_kind, prj_kind, zone_kind, hemi):
    a, invf, ell = TC.sym_ell(gc)
    if prj_kind == 'sym':
        (FE, FN, k0, zw, cm1), prj = TC.sym_prj(gc)
    else:
        prj = getattr(gc, prj_kind)
        FE, FN, k0, zw, cm1 = prj.falseeast, prj.falsenorth, prj.cmscale, prj.zonewidth, prj.initialcm
    east = fresh_real('east', -2830000, 3830000)
    north = fresh_real('north', 0, 10000000)
    zone = fresh_real('zone', 1, 60, is_int=True) if zone_kind == 'sym' else zone_kind
    o = cv.grid2geo(zone, east, north, hemi, ell, prj)
    return {'a': a, 'invf': invf, 'prj': (FE, FN, k0, zw, cm1), 'east': east, 'north': north, 'zone': zone, 'ell': ell, 'hemi': hemi}, o


def ref_inverse(inp, n_iter, prj_kind):
    FE, FN, k0, zw, cm1 = inp['prj']
    zone = inp['zone']
    if prj_kind == 'isg':
        cm = (zone // 10 - 1) * 6 + cm1 + (zone % 10 - 2) * 2
    else:
        cm = cm1 + (zone - 1) * zw
    r, al, be, A = TC.ref_ell_terms(inp['a'], inp['invf'])
    south = inp['hemi'].lower() == 'south'
    g = RT.inverse_gs(inp['east'], inp['north'], k0, FE, FN, A, be, south)
    t, steps = RT.newton_tau(g['tp'], r.e, r.e2, n_iter)
    lat = mathx.degrees(mathx.atan(t))
    sgn = 1 if south else -1
    return {'lat': sgn * lat, 'lon': cm + g['dl_deg'], 'steps': steps, 'g': g, 'cm': cm, 'r': r, 'al': al, 'A': A, 'latraw': lat,
            'k0': k0}


CASES_QUICK = [('sym', 'sym', 'sym', 'south'), ('sym', 'sym', 'sym', 'North'), ('sym', 'isg', 551, 'south')]
CASES_THOROUGH = CASES_QUICK + [('sym', 'isg', z, 'north') for z in ISG_ZONES] + [('sym', 'utm', 'sym', 'SOUTH')]


def check_case(case, tier, seed):
    gc, cv = _mods()
    ell_kind, prj_kind, zone_kind, hemi = case
    tag = 'prj=%s zone=%s hemisphere=%s' % (prj_kind, zone_kind, hemi)
    K = 2 if tier == 'quick' else 3
    with TC.summaries(cv):
        paths, st = explore(lambda: run_case(gc, cv, ell_kind, prj_kind, zone_kind, hemi), max_paths=200, loop_bound=K,
                            max_decisions=40)
    out = []
    nret = ncut = 0
    mk = lambda env: {'env': env, 'case': list(case)}
    best_defined = [0, None, None, 0]
    for p in paths:
        if p.kind == 'cut':
            ncut += 1
            continue
        if p.kind == 'raise':
            out.append(ob.decide_goal('O5', '%s: no exception for valid grid coordinates (%s)' % (tag, type(p.value).__name__),
                                      ob.path_conds(p), z3.BoolVal(False), pid=PID, oracle='oracles.c02:inverse_env', args_from_model=mk,
                                      key='O5:raises', domain=DOM, num_conds=p.assumptions + p.pc, timeout_s=QT[tier], extra_points=TC.stress_points()))
            continue
        nret += 1
        inp, o = p.value
        # executed Newton steps = loop tests taken; the tests are the leading decisions of the path
        n_iter = _count_newton(p)
        d, extra = TC.with_facts(lambda: ref_inverse(inp, n_iter, prj_kind))
        for got, refv, nm in ((o[0], d['lat'], 'latitude'), (o[1], d['lon'], 'longitude')):
            out.append(ob.decide_close('O2', '%s: %s = Karney-Krueger inverse, %d Newton steps (11-decimal rounding)' % (tag, nm, n_iter), p,
                                       got, refv, HALF11, pid=PID, key='O2:inverse', oracle='oracles.c02:inverse_env', domain=DOM,
                                       make_args=mk, extra_conds=extra, timeout_s=QT[tier], paths=len(paths),
                                       extra_points=TC.stress_points()))
        if p.defined and len(p.defined) > best_defined[0]:
            best_defined[:] = [len(p.defined), p, extra, n_iter]
        if d['steps']:
            goal = ob.zabs(toz(d['steps'][-1])) <= ratval(Fraction(1, 10 ** 11))
            out.append(ob.decide_goal('O2', '%s: exit after %d Newton steps only when the last step is <= 1e-11' % (tag, n_iter),
                                      ob.path_conds(p) + extra, goal, pid=PID, oracle='oracles.c02:inverse_env', args_from_model=mk,
                                      key='O2:exit', domain=DOM, num_conds=p.assumptions + p.pc, timeout_s=QT[tier], extra_points=TC.stress_points()))
        else:
            out.append(ob.ground_violation('O2', 'grid2geo returns without a Newton step', PID, 'O2:exit', 'oracles.c02:inverse_env', mk({})))
    if best_defined[1] is not None:
        # every division on the longest returning path has a non-zero divisor (a zero divisor is a ZeroDivisionError in the real code);
        # one query per case, short timeout: when the solver cannot decide, the oracle's stress set (equator, zone edges) is replayed
        n_def, p, extra, n_iter = best_defined
        out.append(ob.decide_goal('O5', '%s: all %d divisions / function arguments on the %d-step path are defined' % (tag, n_def, n_iter),
                                  ob.path_conds(p) + extra, z3.And(*[c for c, _ in p.defined]), pid=PID, oracle='oracles.c02:inverse_env',
                                  args_from_model=mk, key='O5:raises', timeout_s=6))
    out.append(ob.res('O2', '%s: Newton loop unrolled to K=%d: %d returning paths, %d cut' % (tag, K, nret, ncut),
                      'proved' if nret >= 1 else 'inconclusive', [ob.qrec('paths', solve.prove([], z3.BoolVal(True), 5, False))],
                      paths=len(paths)))
    return out


def _count_newton(p):
    """number of symbolic loop tests `diff > 1e-15` that were taken as true, +1 for the first (concrete) pass"""
    n = 1
    for c in p.pc:
        s = str(c)
        if '1/1000000000000000' in s:
            if not z3.is_not(c):
                n += 1
    return n


def _mk_group(case):
    def g(tier, seed):
        return check_case(case, tier, seed)
    return g


def g_mirror(tier, seed):
    """O4: (zone, E, N, north) and (zone, E, 10 000 000 - N, south) give opposite latitudes, identical longitudes (UTM)"""
    gc, cv = _mods()

    def run():
        a, invf, ell = TC.sym_ell(gc)
        east = fresh_real('east', -2830000, 3830000)
        north = fresh_real('north', 0, 10000000)
        zone = fresh_real('zone', 1, 60, is_int=True)
        o1 = cv.grid2geo(zone, east, north, 'north', ell, gc.utm)
        o2 = cv.grid2geo(zone, east, 10000000 - north, 'south', ell, gc.utm)
        return o1, o2
    with TC.summaries(cv):
        paths, st = explore(run, max_paths=60, loop_bound=2, max_decisions=40)
    out = []
    n = 0
    for p in paths:
        if p.kind != 'return':
            continue
        n += 1
        o1, o2 = p.value
        out.append(ob.decide_close('O4', 'mirror images: latitudes opposite', p, o1[0], -o2[0], 0, pid=PID, key='O4:mirror',
                                   oracle='oracles.c02:mirror', domain=DOM, make_args=lambda env: {'env': env}, timeout_s=QT[tier]))
        out.append(ob.decide_close('O4', 'mirror images: longitudes identical', p, o1[1], o2[1], 0, pid=PID, key='O4:mirror',
                                   oracle='oracles.c02:mirror', domain=DOM, make_args=lambda env: {'env': env}, timeout_s=QT[tier]))
    if n == 0:
        out.append(ob.res('O4', 'mirror symmetry', 'inconclusive', [], 'no common returning path'))
    return out


def g_validation(tier, seed):
    gc, cv = _mods()
    out = []
    specs = [('easting < -2830000', lambda: (31, fresh_real('east', -4000000, Fraction(-28300001, 10)), fresh_real('north', 0, 10 ** 7), 'south')),
             ('easting > 3830000', lambda: (31, fresh_real('east', Fraction(38300001, 10), 5000000), fresh_real('north', 0, 10 ** 7), 'south')),
             ('northing < 0', lambda: (31, fresh_real('east', 0, 10 ** 6), fresh_real('north', -10 ** 6, Fraction(-1, 10)), 'south')),
             ('northing > 1e7', lambda: (31, fresh_real('east', 0, 10 ** 6), fresh_real('north', Fraction(100000001, 10), 2 * 10 ** 7), 'north')),
             ('zone 61', lambda: (61, fresh_real('east', 0, 10 ** 6), fresh_real('north', 0, 10 ** 7), 'south')),
             ('zone -1', lambda: (-1, fresh_real('east', 0, 10 ** 6), fresh_real('north', 0, 10 ** 7), 'south')),
             ('hemisphere "east"', lambda: (31, fresh_real('east', 0, 10 ** 6), fresh_real('north', 0, 10 ** 7), 'east'))]
    for nm, mk in specs:
        with TC.summaries(cv):
            paths, st = explore(lambda: cv.grid2geo(*mk()), max_paths=40)
        ok = paths and all(p.kind == 'raise' and isinstance(p.value, ValueError) for p in paths)
        v = solve.prove([], z3.BoolVal(bool(ok)), 5, False)
        if ok:
            out.append(ob.res('O5', 'grid2geo rejects %s on all %d paths' % (nm, len(paths)), 'proved', [ob.qrec('paths', v)], paths=len(paths)))
        else:
            out.append(ob.ground_violation('O5', 'grid2geo accepts %s' % nm, PID, 'O5:validation:' + nm, 'oracles.c02:validation', {'what': nm}))
    return out


def g_standalone(tier, seed):
    """O6: Standalone/mga2gda.py - constants vs the library for GRS80, skeleton and its three Newton steps vs the reference"""
    gc, cv = _mods()
    path = os.path.join(instr.REPO_ROOT, 'Standalone', 'mga2gda.py')
    sa = instr.load_file(path, 'vs_mga2gda')
    out = []
    # (a) constants: ground comparison with the library's values for GRS80 (exact rationals of the floats)
    libA = cv.rect_radius(gc.grs80)
    libb = cv.beta_coeff(gc.grs80)
    pairs = [('A', sa.A, libA, Fraction(1, 10 ** 6)), ('ecc1', sa.ecc1, gc.grs80.ecc1, Fraction(1, 10 ** 12)),
             ('ecc1sq', sa.ecc1sq, gc.grs80.ecc1sq, Fraction(1, 10 ** 12))]
    for j in range(8):
        pairs.append(('b%d' % (2 * j + 2), getattr(sa, 'b%d' % (2 * j + 2)), libb[j], Fraction(1, 10 ** 14)))
    goals = [ob.zabs(ratval(exact_fraction(x)) - ratval(exact_fraction(y))) <= ratval(t) for _, x, y, t in pairs]
    for k, (pv, lv) in enumerate(zip(sa.proj[2:], (gc.utm.falseeast, gc.utm.falsenorth, gc.utm.cmscale, gc.utm.zonewidth, gc.utm.initialcm))):
        goals.append(ratval(Fraction(str(pv))) == ratval(exact_fraction(lv)))
    v = solve.prove([], z3.And(*goals), 10, False)
    if v.status == 'unsat':
        out.append(ob.res('O6', 'stand-alone series constants, eccentricity and UTM parameters agree with the library for GRS80 (budgets 1e-6 m, 1e-12, 1e-14)',
                          'proved', [ob.qrec('ground-LRA', v)]))
    else:
        out.append(ob.ground_violation('O6', 'stand-alone constants differ from the library', PID, 'O6:constants', 'oracles.c02:standalone', {'env': {}},
                                       queries=[ob.qrec('ground-LRA', v)]))
    # (b) skeleton with the constants replaced by shared symbols
    names = ['A', 'ecc1', 'ecc1sq'] + ['b%d' % (2 * j + 2) for j in range(8)]
    old = {k: sa.__dict__[k] for k in names}

    def run():
        syms = {k: fresh_real('c_' + k) for k in names}
        core.CTX.assume((syms['ecc1sq'] > 0) & (syms['ecc1sq'] < Fraction(2, 100)) & (syms['ecc1'] > 0) & (syms['A'] > 6000000))
        sa.__dict__.update(syms)
        east = fresh_real('east', -2830000, 3830000)
        north = fresh_real('north', 0, 10000000)
        zone = fresh_real('zone', 1, 60, is_int=True)
        return syms, (zone, east, north), sa.grid2geo(zone, east, north)
    try:
        paths, st = explore(run, max_paths=20)
    finally:
        sa.__dict__.update(old)
    for p in paths:
        if p.kind != 'return':
            out.append(ob.ground_violation('O6', 'stand-alone grid2geo raises %r' % (p.value,), PID, 'O6:raises', 'oracles.c02:standalone', {'env': {}})
                       if p.kind == 'raise' else ob.res('O6', 'stand-alone', 'inconclusive', [], 'cut'))
            continue
        syms, (zone, east, north), o = p.value

        def ref():
            be = [-syms['b%d' % (2 * j + 2)] for j in range(8)]
            g = RT.inverse_gs(east, north, Fraction('0.9996'), 500000, 10000000, syms['A'], be, True)
            t, steps = RT.newton_tau(g['tp'], syms['ecc1'], syms['ecc1sq'], 3)
            return mathx.degrees(mathx.atan(t)), (zone - 1) * 6 - 177 + g['dl_deg']
        (rlat, rlon), extra = TC.with_facts(ref)
        # numeric witness search: the shared constants take their GRS80 values, the grid coordinate ranges over the accepted box
        # (the edges of the accepted easting range are stress points: truncation errors of the series grow with cosh(2j eta))
        dom = {'east': (-2830000, 3830000), 'north': (0, 10000000), 'zone': (1, 60)}
        cst = {}
        for k in names:
            q = exact_fraction(old[k])
            dom['c_' + k] = (q, q)
            cst['c_' + k] = q
        xp = [dict(cst, east=e_, north=n_, zone=z_) for e_ in (-2830000, 3830000, -1500000, 2500000) for n_ in (1500000, 6000000, 9000000)
              for z_ in (55,)]
        for got, refv, nm in ((o[0], rlat, 'latitude'), (o[1], rlon, 'longitude')):
            out.append(ob.decide_close('O6', 'stand-alone %s = reference inverse with three Newton steps (11-decimal rounding)' % nm, p, got, refv,
                                       HALF11, pid=PID, key='O6:skeleton', oracle='oracles.c02:standalone', domain=dom,
                                       make_args=lambda env: {'env': env}, extra_conds=extra, timeout_s=QT[tier], extra_points=xp))
    return out


def g_rounding_budget(tier, seed):
    """O7: the explicit output roundings must fit the closure tolerances (first-order sensitivity, conformality)"""
    gc, cv = _mods()
    from checks import c01
    import geodepy.angles as ga
    out = []
    # which roundings does the code apply? read them off the output terms of one symbolic run each
    with TC.summaries(cv):
        pf, _ = explore(lambda: c01.run_case(gc, cv, ga, 'sym', 'utm', 31, 'float'), max_paths=4)
        pi, _ = explore(lambda: run_case(gc, cv, 'sym', 'utm', 31, 'south'), max_paths=4, loop_bound=1)
    fo = next(p.value[1] for p in pf if p.kind == 'return')
    io = next(p.value[1] for p in pi if p.kind == 'return')

    def digits(t):
        z = toz(t)
        for e in _subterms(z):
            if z3.is_app(e) and e.decl().name().startswith('round_'):
                return int(e.decl().name()[6:])
        return None
    nE, nN, nlat, nlon = digits(fo[2]), digits(fo[3]), digits(io[0]), digits(io[1])
    c = z3.Real('cosphi')
    PI = mathx.PI
    conds = [c >= ratval(Fraction(1045, 10000)), c <= 1, mathx.pi_fact()]      # cos(84 deg) = 0.10453
    amin, kmin = 6300000, Fraction(9, 10)
    # grid -> geo -> grid: easting/northing rounding and lat/lon rounding (1e-n deg ~ metres) within 0.2 mm
    for nm, n in (('easting', nE), ('northing', nN)):
        if n is None:
            out.append(ob.res('O7', 'forward %s not rounded (no budget needed)' % nm, 'proved', [ob.qrec('ground', solve.prove([], z3.BoolVal(True), 5, False))]))
            continue
        ok = Fraction(1, 2 * 10 ** n) <= Fraction(1, 10 ** 4)
        v = solve.prove([], z3.BoolVal(ok), 5, False)
        out.append(ob.res('O7', 'forward %s rounded to %d decimals: half a unit <= 0.1 mm (half of the 0.2 mm closure)' % (nm, n), 'proved', [ob.qrec('ground', v)])
                   if ok else ob.ground_violation('O7', 'forward %s rounding to %d decimals exceeds the 0.2 mm closure' % (nm, n), PID,
                                                  'O7:round(%s,%d)' % (nm, n), 'oracles.c02:closure_grid', {}))
    for nm, n in (('latitude', nlat), ('longitude', nlon)):
        half = Fraction(1, 2 * 10 ** n) if n is not None else Fraction(0)
        # metres moved by half a unit of angle: <= (a_max + 0) * rad
        goal = ratval(half) * PI / 180 * 6400000 <= ratval(Fraction(1, 10 ** 4))
        v = solve.prove([mathx.pi_fact()], goal, 10, False)
        out.append(ob.res('O7', 'inverse %s rounded to %s decimals moves the point <= 0.1 mm' % (nm, n), 'proved', [ob.qrec('LRA', v)])
                   if v.status == 'unsat' else ob.ground_violation('O7', 'inverse %s rounding' % nm, PID, 'O7:round(%s,%s)' % (nm, n), 'oracles.c02:closure_grid', {}))
    # geo -> grid -> geo: half a unit of easting is |d lon| <= dE / (k0 nu cos(phi)) rad; latitude: dN / (k0 rho)
    if nE is not None:
        dE = Fraction(1, 2 * 10 ** nE)
        goal = ratval(dE) / (ratval(kmin) * amin * c) * 180 / PI + ratval(Fraction(5, 10 ** 12)) <= ratval(Fraction(2, 10 ** 9))
        v = solve.prove(conds, goal, 20)
        q = ob.qrec('NRA-1', v)
        if v.status == 'unsat':
            out.append(ob.res('O7', 'easting rounding fits the 2e-9 deg longitude closure over the whole band', 'proved', [q]))
        else:
            out.append(ob.ground_violation('O7', 'easting rounded to %d decimals (%.0e m) is up to %.1e deg of longitude at |lat| near 84: '
                                           'geographic -> grid -> geographic longitude closure exceeds 2e-9 deg' % (nE, float(dE), float(dE) / (0.9996 * 6.4e6 * 0.1045) * 57.3),
                                           PID, 'O7:round(east,%d):lon-closure' % nE, 'oracles.c02:closure_geo', {}, queries=[q]))
    if nN is not None:
        dN = Fraction(1, 2 * 10 ** nN)
        goal = ratval(dN) / (ratval(kmin) * Fraction(6200000)) * 180 / PI + ratval(Fraction(5, 10 ** 12)) <= ratval(Fraction(2, 10 ** 9))
        v = solve.prove([mathx.pi_fact()], goal, 20)
        out.append(ob.res('O7', 'northing rounding fits the 2e-9 deg latitude closure', 'proved', [ob.qrec('LRA', v)]) if v.status == 'unsat' else
                   ob.ground_violation('O7', 'northing rounding exceeds latitude closure', PID, 'O7:round(north,%d):lat-closure' % nN,
                                       'oracles.c02:closure_geo', {}))
    return out


def _subterms(e):
    seen, todo = set(), [e]
    while todo:
        x = todo.pop()
        if x.get_id() in seen:
            continue
        seen.add(x.get_id())
        yield x
        todo.extend(x.children())


def g_forward_consistency(tier, seed):
    """O3: the forward conversion that the round trips compose with is the same Karney-Krueger map (shares C01's harness)"""
    from checks import c01
    res = c01.check_case(('sym', 'sym', 'sym', 'float'), tier, seed, PID=PID, oracle_mod='oracles.c01')
    for r in res:
        r['ob'] = 'O3'
        r['name'] = 'forward map used in the round trips: ' + r['name']
        if 'key' in r:
            r['key'] = 'O3:forward:' + r['key']
    return res


def _seq(temporaries):
    def g(tier, seed):
        from checks.c04 import seq_group
        import geodepy.constants as gc
        import geodepy.convert as cv
        return seq_group(PID, 'O2', 'grid2geo%s' % (' (temporary ellipsoid objects)' if temporaries else ''),
                         lambda cv_, v, e: cv_.grid2geo(v[2], v[0], v[1], 'South', e),
                         (('east', -2830000, 3830000), ('north', 0, 10000000), ('zone', 1, 60, True)),
                         'oracles.seq:convert_sequence', '@@none@@', tier, temporaries, mods=lambda: (gc, cv), dom=TC.DOM,
                         ell_box=((TC.A_LO, TC.A_HI), (TC.F_LO, TC.F_HI)), around=TC.summaries, loop_bound=1, timeout_s=15,
                         extra_args={'what': 'grid2geo'})
    return g


def groups(tier):
    cases = CASES_QUICK if tier == 'quick' else CASES_THOROUGH
    gs = [('coefficients', g_coefficients), ('validation', g_validation), ('mirror', g_mirror), ('standalone', g_standalone),
          ('rounding_budget', g_rounding_budget), ('forward_consistency', g_forward_consistency), ('sequence', _seq(False)),
          ('sequence_temporaries', _seq(True))]
    for c in cases:
        gs.append((('case_%s_%s_%s_%s' % tuple(str(x) for x in c)), _mk_group(c)))
    return gs
