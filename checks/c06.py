"""C06 - 7-parameter transformation equals its similarity formula and is reversible."""
import datetime
import z3

from vsym import core, solve, ob, mathx, npx
from vsym.core import SymReal, Fraction, exact_fraction, ratval, toz, explore, fresh_real
from refs import helmert as H
from refs import angles_ref

PID = 'C06'
PARAMS = H.PARAMS
XMAX = 5 * 10 ** 7
from checks.common import DEG_SLACK      # |hp2dec(r/10000) - r/3600| <= 1.4e-13 deg (13-decimal HP parsing)

META = {
    'level': 'other',
    'explanation': 'Bounded symbolic execution of geodepy.transform.conform7 (real source, AST-instrumented) on a symbolic '
                   'point, symbolic parameter set, symbolic uncertainties and symbolic covariance; result terms compared '
                   'with the Technical-Manual formula and with J Q J^T built from the reference formula; each of the 120 '
                   'shipped sets executed concretely on a symbolic point (affine output, coefficients compared as QF_LRA '
                   'with PI a bounded real). SMT unsat = holds for all values in the bounds; failures are replayed.',
    'functions': ['geodepy.transform.conform7', 'geodepy.constants.Transformation.__neg__',
                  'geodepy.angles.hp2dec (concrete execution for shipped sets; summarised by an uninterpreted function '
                  'plus the 13-decimal lemma for symbolic sets)'],
    'bounds': {'point': '|x|,|y|,|z| <= 5e7 m', 'symbolic set': '|t| <= 1000 m, |scale| <= 100 ppm, |rotation| <= 59.9 arcsec',
               'covariance': 'arbitrary symmetric 3x3 (6 real symbols), arbitrary uncertainties'},
    'outside': ['IEEE rounding of the matrix product (R-model)',
                'equivalence of the real hp2dec with the HP definition on doubles (decided by C08, F-model)',
                'positive semi-definiteness is a consequence of the proved J Q J^T form (mathematical fact, not a query)'],
    'assumptions': ['floats are reals; PI in (3.14159265358979, 3.14159265358980)',
                    'hp2dec parses the HP value rounded to 13 decimals (lemma A proves the resulting 1.4e-13 deg bound)'],
}

DOMAIN = {}
for _k in ('x', 'y', 'z'):
    DOMAIN[_k] = (-XMAX, XMAX)


def _mods():
    import geodepy.constants as gc
    import geodepy.transform as tr
    return gc, tr


from checks.common import hpdec_uf, swap_global, HPDEC


def sym_set(gc, pre, labels=('A', 'B'), sd=False, ref_epoch=0):
    v = {}
    for k in ('tx', 'ty', 'tz'):
        v[k] = fresh_real(pre + k, -1000, 1000)
    v['sc'] = fresh_real(pre + 'sc', -100, 100)
    for k in ('rx', 'ry', 'rz'):
        v[k] = fresh_real(pre + k, Fraction('-59.9'), Fraction('59.9'))
    tf_sd = None
    if sd:
        for k in PARAMS:
            v['sd_' + k] = fresh_real(pre + 'sd_' + k, 0, 10)
        tf_sd = gc.TransformationSD(**{'sd_' + k: v['sd_' + k] for k in PARAMS})
    t = gc.Transformation(labels[0], labels[1], ref_epoch, *[v[k] for k in PARAMS], tf_sd=tf_sd)
    return v, t


def ref_point(x, y, z, v, rot):
    return H.helmert(x, y, z, v['tx'], v['ty'], v['tz'], v['sc'], rot[0], rot[1], rot[2])


def uf_rot(v):
    return [mathx.radians(hpdec_uf(v[k] / 10000)) for k in ('rx', 'ry', 'rz')]


# --- lemma A: 13-decimal HP parsing of r/10000 -----------------------------------------------------
def g_lemma_hp(tier, seed):
    def run():
        r = fresh_real('r', Fraction('-59.9'), Fraction('59.9'))
        return r, angles_ref.hp2dec_real(r / 10000)
    paths, st = explore(run, feas_timeout_ms=2000)
    out = []
    for p in paths:
        if p.kind != 'return':
            out.append(ob.res('O1a', 'HP parsing of r/10000', 'inconclusive', [], 'path %s %r' % (p.kind, p.value)))
            continue
        r, d = p.value
        goal = ob.zabs(toz(d) - toz(r) / 3600) <= ratval(DEG_SLACK)
        out.append(ob.decide_goal('O1a', 'lemma A: |HP-decode(r/10000) - r/3600 deg| <= 1.4e-13 (|r| <= 59.9")',
                                  ob.path_conds(p), goal, timeout_s=30, pid=PID))
    return out


# --- O1 symbolic set: structure identity + rounding lemma ---------------------------------------------
def g_formula_symbolic(tier, seed):
    gc, tr = _mods()

    def run():
        x, y, z = (fresh_real(k, -XMAX, XMAX) for k in 'xyz')
        v1, t1 = sym_set(gc, 'a_')
        v2, t2 = sym_set(gc, 'b_')          # same labels and epoch as t1: a second, different set
        o1 = tr.conform7(x, y, z, t1)
        o2 = tr.conform7(x, y, z, t2)
        o3 = tr.conform7(x, y, z, t1)
        return (x, y, z), (v1, o1), (v2, o2), (v1, o3)
    out = []
    with swap_global(tr, 'hp2dec', hpdec_uf):
        paths, st = explore(run)
    for p in paths:
        if p.kind != 'return':
            out.append(ob.ground_violation('O1', 'conform7 raises', PID, 'O1:raises', 'oracles.c06:formula_random', {},
                                           'path %s %r' % (p.kind, p.value)) if p.kind == 'raise' else
                       ob.res('O1', 'conform7 symbolic', 'inconclusive', [], 'path cut %r' % (p.value,)))
            continue
        (x, y, z), *calls = p.value
        for ci, (v, o) in enumerate(calls):
            rot = uf_rot(v)
            ref = ref_point(x, y, z, v, rot)
            for i, c in enumerate('xyz'):
                out.append(ob.decide_close(
                    'O1', 'call %d of a 3-call sequence (two same-labelled sets): %s = formula' % (ci + 1, c), p, o[i], ref[i], 0,
                    pid=PID, key='O1:formula', oracle='oracles.c06:formula_sequence',
                    domain=dict(DOMAIN, **_set_domain('a_'), **_set_domain('b_')),
                    make_args=lambda e: {'env': e}, extra_points=[], timeout_s=20,
                    paths=len(paths)))
            if o[3] is not None:
                out.append(ob.ground_violation('O3', 'vcv returned without input', PID, 'O3:none', 'oracles.c06:none_cases', {}))
    return out


def _set_domain(pre):
    d = {}
    for k in ('tx', 'ty', 'tz'):
        d[pre + k] = (-1000, 1000)
    d[pre + 'sc'] = (-100, 100)
    for k in ('rx', 'ry', 'rz'):
        d[pre + k] = (Fraction('-59.9'), Fraction('59.9'))
    for k in PARAMS:
        d[pre + 'sd_' + k] = (0, 10)
    return d


def g_lemma_rounding(tier, seed):
    """lemma C: replacing each rotation angle (deg) by a value within 1.4e-13 deg moves the result by < 1 micrometre"""
    x, y, z, s, PI = z3.Reals('x y z s PI')
    d1, d2 = z3.Reals('d1 d2')
    conds = [x <= XMAX, x >= -XMAX, y <= XMAX, y >= -XMAX, z <= XMAX, z >= -XMAX, s <= ratval(Fraction('1.0001')),
             s >= ratval(Fraction('0.9999')), mathx.pi_fact(), d1 <= ratval(DEG_SLACK), d1 >= -ratval(DEG_SLACK),
             d2 <= ratval(DEG_SLACK), d2 >= -ratval(DEG_SLACK)]
    # each output component differs by s*(PI/180)*(d1*u - d2*w) for two of the coordinates u, w
    out = []
    for (u, w, nm) in ((y, z, 'x'), (x, z, 'y'), (x, y, 'z')):
        diff = s * (PI / 180) * (d1 * u - d2 * w)
        v = solve.prove(conds, ob.zabs(diff) <= ratval(Fraction(1, 10 ** 6)), timeout_s=60)
        out.append(ob.res('O1c', 'lemma C (%s component): 13-decimal HP rounding of rotations moves the point < 1 um' % nm,
                          'proved' if v.status == 'unsat' else 'inconclusive', [ob.qrec('NRA', v)], 'solver=%s' % v.status))
    return out


# --- O1/O2 shipped sets (concrete parameters, real hp2dec executed) ---------------------------------
def _affine(term, xs):
    """coefficients of an affine z3 term in the variables xs (and proof obligation that it is affine)"""
    zero = [(v, z3.RealVal(0)) for v in xs]
    c0 = z3.simplify(z3.substitute(term, *zero))
    cs = []
    for i, v in enumerate(xs):
        sub = [(w, z3.RealVal(1 if w is v else 0)) for w in xs]
        cs.append(z3.simplify(z3.substitute(term, *sub) - c0))
    return c0, cs


def g_shipped(tier, seed):
    gc, tr = _mods()
    cat = [(k, v) for k, v in vars(gc).items() if isinstance(v, gc.Transformation)]
    order = cat + cat[::-1]                # every set is also evaluated after all others (hidden-state regressions)
    X = [z3.Real(k) for k in 'xyz']
    sx = [SymReal(v) for v in X]
    box = [z3.And(v <= XMAX, v >= -XMAX) for v in X]
    PI = mathx.PI
    out, qs_f, qs_inv, nf, ninv = [], [], [], 0, 0
    bad = set()
    for name, t in order:
        paths, st = explore(lambda: tr.conform7(sx[0], sx[1], sx[2], t))
        if len(paths) != 1 or paths[0].kind != 'return':
            out.append(ob.ground_violation('O1', 'shipped %s' % name, PID, 'O1:shipped:' + name, 'oracles.c06:shipped',
                                           {'name': name}, 'paths %r' % (paths,)))
            continue
        o = paths[0].value
        # reference with exact rational parameters and PI symbolic
        fr = {k: exact_fraction(getattr(t, k)) for k in PARAMS}
        rot = [ratval(fr[k]) / 3600 * PI / 180 for k in ('rx', 'ry', 'rz')]
        ref = H.helmert(X[0], X[1], X[2], ratval(fr['tx']), ratval(fr['ty']), ratval(fr['tz']), ratval(fr['sc']), *rot)
        goals = []
        for i in range(3):
            c0, cs = _affine(toz(o[i]), X)
            lin = c0 + sum(c * v for c, v in zip(cs, X))
            goals.append(toz(o[i]) == lin)                                  # output is affine in the point
            r0, rs = _affine(ref[i], X)
            goals.append(ob.zabs(c0 - r0) <= ratval(Fraction(1, 10 ** 7)))   # translation within 0.1 um
            for c, r in zip(cs, rs):
                goals.append(ob.zabs(c - r) <= ratval(Fraction(5, 10 ** 15)))  # 3 * 5e-15 * 5e7 = 0.75 um
        v = solve.prove(box + [mathx.pi_fact()], z3.And(*goals), timeout_s=20, portfolio=False)
        qs_f.append(ob.qrec('QF_LRA', v))
        nf += 1
        if v.status != 'unsat' and name not in bad:
            bad.add(name)
            out.append(ob.ground_violation('O1', 'shipped set %s: coefficients vs formula' % name, PID,
                                           'O1:shipped:' + name, 'oracles.c06:shipped_sequence', {'name': name},
                                           queries=[qs_f[-1]]))
        # O2: apply then negate
        if (name, 'inv') in bad:
            continue
        paths2, st2 = explore(lambda: tr.conform7(*tr.conform7(sx[0], sx[1], sx[2], t)[:3], -t))
        if len(paths2) != 1 or paths2[0].kind != 'return':
            continue
        o2 = paths2[0].value
        tol = Fraction(2, 1000) if name.lower().startswith(('agd', 'gda94_to_agd')) else Fraction(1, 10 ** 5)
        g2 = z3.And(*[ob.zabs(toz(o2[i]) - X[i]) <= ratval(tol) for i in range(3)])
        v2 = solve.prove(box, g2, timeout_s=20, portfolio=False)
        qs_inv.append(ob.qrec('QF_LRA', v2))
        ninv += 1
        if v2.status != 'unsat':
            bad.add((name, 'inv'))
            env = solve.model_env(v2.model, {k: w for k, w in zip('xyz', X)}) if v2.model is not None else {}
            out.append(ob.ground_violation('O2', 'shipped set %s then its negation' % name, PID, 'O2:inverse:' + name,
                                           'oracles.c06:inverse', {'name': name, 'env': env}, queries=[qs_inv[-1]]))
    if not any(r['ob'] == 'O1' for r in out):
        out.append(ob.res('O1', '%d evaluations of the %d shipped sets (forward and reverse order): affine, coefficients = formula'
                          % (nf, len(cat)), 'proved', qs_f))
    if not any(r['ob'] == 'O2' for r in out):
        out.append(ob.res('O2', '%d set-then-negation compositions within 0.01 mm (AGD: 2 mm) over |X| <= 5e7' % ninv,
                          'proved', qs_inv))
    return out


def g_neg(tier, seed):
    gc, tr = _mods()

    def run():
        v, t = sym_set(gc, 'a_', sd=True)
        return v, t, -t
    paths, _ = explore(run)
    out = []
    for p in paths:
        v, t, n = p.value
        goal = z3.And(*[toz(getattr(n, k)) == -toz(v[k]) for k in PARAMS])
        out.append(ob.decide_goal('O2', '__neg__ of a symbolic set negates the 7 parameters', ob.path_conds(p), goal, pid=PID))
        ok = (n.from_datum, n.to_datum, n.ref_epoch) == ('B', 'A', 0) and n.tf_sd is t.tf_sd
        out.append(ob.res('O2', '__neg__ swaps labels, keeps epoch and uncertainties', 'proved' if ok else 'inconclusive',
                          [ob.qrec('ground', solve.prove([], z3.BoolVal(ok), 5, False))]))
    return out


# --- O3 covariance -------------------------------------------------------------------------------
def sym_vcv(pre='q'):
    names = {}
    m = [[None] * 3 for _ in range(3)]
    for i in range(3):
        for j in range(i, 3):
            s = fresh_real('%s%d%d' % (pre, i, j), -100, 100)
            m[i][j] = m[j][i] = s
    return m, npx.FArr(m)


def g_covariance(tier, seed):
    gc, tr = _mods()

    def run():
        x, y, z = (fresh_real(k, -XMAX, XMAX) for k in 'xyz')
        v, t = sym_set(gc, 'a_', sd=True)
        m, arr = sym_vcv()
        o = tr.conform7(x, y, z, t, arr)
        return (x, y, z), v, m, o
    out = []
    with swap_global(tr, 'hp2dec', hpdec_uf):
        paths, st = explore(run)
    dom = dict(DOMAIN, **_set_domain('a_'))
    for i in range(3):
        for j in range(i, 3):
            dom['q%d%d' % (i, j)] = (-100, 100)
    for p in paths:
        if p.kind == 'raise':
            out.append(ob.ground_violation('O3', 'conform7 with covariance raises %s' % type(p.value).__name__, PID,
                                           'O3:raises', 'oracles.c06:cov_random', {}, repr(p.value)))
            continue
        if p.kind != 'return':
            out.append(ob.res('O3', 'covariance', 'inconclusive', [], 'cut %r' % (p.value,)))
            continue
        (x, y, z), v, m, o = p.value
        if o[3] is None:
            envs = ob.sample_envs(solve.free_vars(p.pc + p.assumptions), dom, p.pc + p.assumptions, n=1)
            out.append(ob.ground_violation('O3', 'no covariance returned although input covariance and uncertainties given',
                                           PID, 'O3:none-returned', 'oracles.c06:cov_env',
                                           {'env': envs[0] if envs else {}}, 'path condition: %s' % p.pc))
            continue
        rot = uf_rot(v)
        s = 1 + v['sc'] / 1000000
        cols = H.jacobian_cols(x, y, z, v['tx'], v['ty'], v['tz'], s, rot[0], rot[1], rot[2])
        qd = [(v['sd_sc'] / 1000000) ** 2] + [mathx.radians(v['sd_' + k] / 3600) ** 2 for k in ('rx', 'ry', 'rz')] + \
             [v['sd_' + k] ** 2 for k in ('tx', 'ty', 'tz')]
        ref = H.propagate(cols, qd, m)
        for i in range(3):
            for j in range(3):
                out.append(ob.decide_close('O3', 'vcv[%d,%d] = (J Q J^T)[%d,%d]' % (i, j, i, j), p, o[3][i, j], ref[i][j], 0,
                                           pid=PID, key='O3:jqjt', oracle='oracles.c06:cov_env', domain=dom,
                                           make_args=lambda e: {'env': e}, timeout_s=30, paths=len(paths)))
    # None-ness
    def run_none():
        x, y, z = (fresh_real(k, -XMAX, XMAX) for k in 'xyz')
        v, t = sym_set(gc, 'a_', sd=True)
        v2, t2 = sym_set(gc, 'b_', sd=False)
        m, arr = sym_vcv()
        return tr.conform7(x, y, z, t, None)[3], tr.conform7(x, y, z, t2, arr)[3]
    with swap_global(tr, 'hp2dec', hpdec_uf):
        paths, st = explore(run_none)
    ok = all(p.kind == 'return' and p.value[0] is None and p.value[1] is None for p in paths)
    if ok:
        out.append(ob.res('O3', 'None returned when no covariance given or set has no uncertainties (%d paths)' % len(paths),
                          'proved', [ob.qrec('ground', solve.prove([], z3.BoolVal(True), 5, False))]))
    else:
        out.append(ob.ground_violation('O3', 'None-ness', PID, 'O3:none', 'oracles.c06:none_cases', {}))
    return out


def groups(tier):
    return [('lemma_hp', g_lemma_hp), ('formula_symbolic', g_formula_symbolic), ('lemma_rounding', g_lemma_rounding),
            ('shipped', g_shipped), ('neg', g_neg), ('covariance', g_covariance)]
