"""C13 - MGA94 <-> MGA2020 transformations are mutual inverses and match their definition."""
import z3
from vsym import core, solve, ob, npx
from vsym.core import SymReal, Fraction, ratval, toz, explore, fresh_real
from checks.common import Tok, uf_call, tok_equal, swap_globals

PID = 'C13'
H4 = Fraction(5, 10 ** 5) + Fraction(1, 10 ** 9)
META = {
    'level': 'other',
    'explanation': 'Wiring by bounded symbolic execution: transform_mga94_to_mga2020 / transform_mga2020_to_mga94 (real source) run on symbolic '
                   'zone, easting, northing, height (present, exactly 0, absent) and covariance (3x3 opaque value / absent) with grid2geo, '
                   'llh2xyz, conform7, xyz2llh, geo2grid, vcv_local2cart and vcv_cart2local replaced by uninterpreted summaries that record '
                   'every argument (defaults included): on every path the result is proved equal to the stated composition grid -> geographic '
                   '-> Cartesian -> 7-parameter GDA94/GDA2020 (its negation for the reverse) -> geographic -> natural-zone grid, heights and '
                   'covariance routed as specified. The 3x1 variance column runs through the real statistics/conform7 code.',
    'functions': ['geodepy.transform.transform_mga94_to_mga2020', 'geodepy.transform.transform_mga2020_to_mga94',
                  'geodepy.constants.Transformation.__neg__ (concrete)', 'geodepy.transform.conform7 + statistics.vcv_* (3x1 column case)'],
    'bounds': {'zone': '1..60 symbolic', 'easting/northing': 'UTM domain of C02', 'height': '[-100, 3000] symbolic, 0, absent',
               'covariance': 'opaque 3x3 value, absent, symbolic 3x1 column'},
    'outside': ['numerical closure 0.3 mm / 0.2 mm of the composed pipeline: composition of the C02 (0.05 mm roundings), C03 (0.02 mm) and '
                'C06 (0.01 mm) bounds - a derived bound, not a solver query; confirmed only by the replay oracle',
                'PSD-ness of the returned covariance follows from C06 (J Q J^T) and C16 (congruence)'],
    'assumptions': ['callees are pure functions of their arguments (C09) and satisfy their own properties (C02, C03, C06, C16)'],
}
DOM = {'zone': (1, 60), 'east': (100000, 900000), 'north': (1000000, 9500000), 'h': (-100, 3000)}


def _mods():
    import geodepy.constants as gc
    import geodepy.transform as tr
    return gc, tr


def make_summaries(gc):
    def S_G2G(zone, east, north, hemisphere='south', ellipsoid=gc.grs80, prj=gc.utm):
        return tuple(uf_call('grid2geo', 4, zone, east, north, hemisphere, ellipsoid, prj))

    def S_LLH(lat, lon, ellht=0, ellipsoid=gc.grs80):
        return tuple(uf_call('llh2xyz', 3, lat, lon, ellht, ellipsoid))

    def S_C7(x, y, z, trans, vcv=None):
        o = uf_call('conform7', 3, x, y, z, trans)
        v = Tok('conform7.vcv', (vcv, x, y, z, trans)) if (vcv is not None and trans.tf_sd is not None) else None
        return o[0], o[1], o[2], v

    def S_XYZ(x, y, z, ellipsoid=gc.grs80):
        return tuple(uf_call('xyz2llh', 3, x, y, z, ellipsoid))

    def S_GEO(lat, lon, zone=0, ellipsoid=gc.grs80, prj=gc.utm):
        o = uf_call('geo2grid', 5, lat, lon, zone, ellipsoid, prj)
        return ('HEMI',) + tuple(o)

    def S_L2C(vcv, lat, lon):
        return Tok('local2cart', (vcv, lat, lon))

    def S_C2L(vcv, lat, lon):
        return Tok('cart2local', (vcv, lat, lon))
    return dict(grid2geo=S_G2G, llh2xyz=S_LLH, conform7=S_C7, xyz2llh=S_XYZ, geo2grid=S_GEO, vcv_local2cart=S_L2C, vcv_cart2local=S_C2L)


def expected(S, T, zone, east, north, h, vcv):
    lat, lon, _, _ = S['grid2geo'](zone, east, north)
    h_in = 0 if h is False else h
    V1 = S['vcv_local2cart'](vcv, lat, lon) if vcv is not None else None
    x, y, z = S['llh2xyz'](lat, lon, h_in)
    x2, y2, z2, V2 = S['conform7'](x, y, z, T, V1)
    lat2, lon2, h2 = S['xyz2llh'](x2, y2, z2)
    V3 = S['vcv_cart2local'](V2, lat2, lon2) if V2 is not None else None
    g = S['geo2grid'](lat2, lon2)
    return g[1], g[2], g[3], (0 if h is False else h2), V3


def g_wiring(direction):
    def g(tier, seed):
        gc, tr = _mods()
        S = make_summaries(gc)
        fn = tr.transform_mga94_to_mga2020 if direction == 'fwd' else tr.transform_mga2020_to_mga94
        T = gc.gda94_to_gda2020 if direction == 'fwd' else -gc.gda94_to_gda2020
        out = []
        for hk in ('sym', 'absent'):
            for vk in ('3x3', 'absent'):
                tag = '%s height=%s covariance=%s' % (fn.__name__, hk, vk)

                def run():
                    zone = fresh_real('zone', 1, 60, is_int=True)
                    east, north = fresh_real('east', 100000, 900000), fresh_real('north', 1000000, 9500000)
                    h = fresh_real('h', -100, 3000) if hk == 'sym' else False
                    vcv = Tok('input') if vk == '3x3' else None
                    args = (zone, east, north) + ((h,) if hk == 'sym' or vk == '3x3' else ()) + ((vcv,) if vk == '3x3' else ())
                    return (zone, east, north, h, vcv), fn(*args)
                with swap_globals(tr, **S):
                    paths, st = explore(run, max_paths=30)
                mk = lambda env, hk=hk, vk=vk: {'env': env, 'dir': direction, 'height': hk, 'vcv': vk}
                nret = 0
                for p in paths:
                    if p.kind != 'return':
                        out.append(ob.decide_goal('O1', '%s: no exception (%s: %s)' % (tag, type(p.value).__name__ if p.kind == 'raise' else 'cut', p.value),
                                                  ob.path_conds(p), z3.BoolVal(False), pid=PID, oracle='oracles.c13:pipeline', args_from_model=mk,
                                                  key='O1:raises', domain=DOM, num_conds=p.assumptions + p.pc, extra_points=[{'zone': 55, 'east': 500000, 'north': 6000000, 'h': 0}]))
                        continue
                    nret += 1
                    (zone, east, north, h, vcv), o = p.value
                    ez, ee, en, eh, ev = expected(S, T, zone, east, north, h, vcv)
                    conds = ob.path_conds(p)
                    ok_len = isinstance(o, tuple) and len(o) == 5
                    if not ok_len:
                        out.append(ob.ground_violation('O1', '%s returns %r' % (tag, o), PID, 'O1:shape', 'oracles.c13:pipeline', mk({})))
                        continue
                    goals = [('zone (natural zone of the transformed position)', toz(o[0]) == toz(ez)), ('easting', toz(o[1]) == toz(ee)),
                             ('northing', toz(o[2]) == toz(en))]
                    if h is False:
                        goals.append(('height is zero without an input height', toz(o[3]) == 0 if isinstance(o[3], SymReal) else z3.BoolVal(o[3] == 0)))
                    else:
                        goals.append(('height = transformed ellipsoidal height (4-decimal rounding)', ob.zabs(toz(o[3]) - toz(eh)) <= ratval(H4)))
                    goals.append(('covariance routed local -> Cartesian at the input position -> conform7 -> local at the output position',
                                  tok_equal(o[4], ev)))
                    for nm, goal in goals:
                        out.append(ob.decide_goal('O1', '%s: %s' % (tag, nm), conds, goal, pid=PID, oracle='oracles.c13:pipeline', args_from_model=mk,
                                                  key='O1:pipeline', domain=DOM, num_conds=p.assumptions + p.pc, timeout_s=15,
                                                  extra_points=[{'zone': 55, 'east': 500000, 'north': 6000000, 'h': 0}]))
                if nret == 0:
                    out.append(ob.res('O1', tag, 'inconclusive', [], 'no returning path'))
        return out
    return g


def g_column(tier, seed):
    """3x1 variance column through the real vcv_local2cart / conform7 / vcv_cart2local (position functions summarised)"""
    gc, tr = _mods()
    S = make_summaries(gc)
    keep = {k: S[k] for k in ('grid2geo', 'llh2xyz', 'xyz2llh', 'geo2grid')}
    out = []
    for fn in (tr.transform_mga94_to_mga2020, tr.transform_mga2020_to_mga94):
        def run():
            col = npx.FArr([[fresh_real('d0', 0, 1)], [fresh_real('d1', 0, 1)], [fresh_real('d2', 0, 1)]])
            return fn(55, fresh_real('east', 100000, 900000), fresh_real('north', 1000000, 9500000), fresh_real('h', -100, 3000), col)
        from checks.common import hpdec_uf
        with swap_globals(tr, hp2dec=hpdec_uf, **keep):
            paths, st = explore(run, max_paths=20)
        bad = [p for p in paths if p.kind == 'raise']
        if bad:
            out.append(ob.ground_violation('O1', '%s with a 3x1 variance column raises %s: %s' % (fn.__name__, type(bad[0].value).__name__, bad[0].value),
                                           PID, 'O1:3x1-column', 'oracles.c13:column', {'fn': fn.__name__}))
        else:
            ok = all(p.kind == 'return' and p.value[4] is not None for p in paths) and paths
            out.append(ob.res('O1', '%s accepts a 3x1 variance column and returns a covariance' % fn.__name__, 'proved' if ok else 'inconclusive',
                              [ob.qrec('paths', solve.prove([], z3.BoolVal(bool(ok)), 5, False))]))
        # a column of variances means the diagonal covariance: same result, entry by entry, as for the 3x3 diagonal matrix

        def run2():
            d = [fresh_real('d0', 0, 1), fresh_real('d1', 0, 1), fresh_real('d2', 0, 1)]
            e, n, h = fresh_real('east', 100000, 900000), fresh_real('north', 1000000, 9500000), fresh_real('h', -100, 3000)
            col = npx.FArr([[d[0]], [d[1]], [d[2]]])
            dia = npx.FArr([[d[0], 0, 0], [0, d[1], 0], [0, 0, d[2]]])
            return fn(55, e, n, h, col), fn(55, e, n, h, dia)
        with swap_globals(tr, hp2dec=hpdec_uf, **keep):
            paths, st = explore(run2, max_paths=20)
        for p in paths:
            if p.kind != 'return':
                out.append(ob.res('O1', '%s: 3x1 column vs diagonal matrix' % fn.__name__, 'inconclusive', [], 'path %s: %s' % (p.kind, p.value)))
                continue
            ra, rb = p.value
            try:
                ca, cb = [[ra[4][i][j] for j in range(3)] for i in range(3)], [[rb[4][i][j] for j in range(3)] for i in range(3)]
            except Exception as ex:  # noqa
                out.append(ob.ground_violation('O1', '%s: covariance for a 3x1 column is not a 3x3 matrix (%r)' % (fn.__name__, ex), PID, 'O1:3x1-column',
                                               'oracles.c13:column', {'fn': fn.__name__}))
                continue
            goal = z3.And(*[toz(ca[i][j]) == toz(cb[i][j]) for i in range(3) for j in range(3)])
            out.append(ob.decide_goal('O1', '%s: a 3x1 variance column gives the covariance of the equivalent diagonal 3x3 matrix' % fn.__name__,
                                      ob.path_conds(p), goal, pid=PID, oracle='oracles.c13:column', args_from_model=lambda env, fn=fn: {'fn': fn.__name__},
                                      key='O1:3x1-column', timeout_s=30))
    return out


def g_height_sequence(direction):
    """one grid position, four calls in one run: without a height, with a height of exactly 0.0, without a height again, with the
    integer 0 - "no height" (the sentinel False) and "height zero" are different requests although False == 0 == 0.0 in Python; each
    call is proved equal to the stepwise definition for ITS request"""
    def g(tier, seed):
        gc, tr = _mods()
        S = make_summaries(gc)
        fn = tr.transform_mga94_to_mga2020 if direction == 'fwd' else tr.transform_mga2020_to_mga94
        T = gc.gda94_to_gda2020 if direction == 'fwd' else -gc.gda94_to_gda2020
        out = []
        for order in (('absent', 'zero', 'absent', 'izero'), ('zero', 'absent', 'izero', 'absent')):
            def run():
                zone = fresh_real('zone', 1, 60, is_int=True)
                east, north = fresh_real('east', 100000, 900000), fresh_real('north', 1000000, 9500000)
                rs = []
                for k in order:
                    rs.append(fn(zone, east, north) if k == 'absent' else fn(zone, east, north, 0.0 if k == 'zero' else 0))
                return (zone, east, north), rs
            with swap_globals(tr, **S):
                paths, st = explore(run, max_paths=30)
            mk = lambda env: {'env': env, 'dir': direction, 'height': 'sequence', 'vcv': 'absent'}
            nret = 0
            for p in paths:
                if p.kind != 'return':
                    out.append(ob.decide_goal('O1', '%s, calls %s: no exception (%s)' % (fn.__name__, '/'.join(order), p.value), ob.path_conds(p),
                                              z3.BoolVal(False), pid=PID, oracle='oracles.c13:pipeline', args_from_model=mk, key='O1:raises'))
                    continue
                nret += 1
                (zone, east, north), rs = p.value
                for i, (k, o) in enumerate(zip(order, rs)):
                    h = False if k == 'absent' else 0
                    ez, ee, en, eh, ev = expected(S, T, zone, east, north, h, None)
                    if not (isinstance(o, tuple) and len(o) == 5):
                        out.append(ob.ground_violation('O1', '%s returns %r' % (fn.__name__, o), PID, 'O1:shape', 'oracles.c13:pipeline', mk({})))
                        continue
                    goal = [toz(o[0]) == toz(ez), toz(o[1]) == toz(ee), toz(o[2]) == toz(en)]
                    if h is False:
                        goal.append(toz(o[3]) == 0 if isinstance(o[3], SymReal) else z3.BoolVal(o[3] == 0))
                    else:
                        goal.append(ob.zabs(toz(o[3]) - toz(eh)) <= ratval(H4) if isinstance(o[3], SymReal) else z3.BoolVal(False))
                    out.append(ob.decide_goal('O1', '%s, call %d of %s at one position (%s): the stepwise definition for this request'
                                              % (fn.__name__, i + 1, '/'.join(order), 'no height: height 0 returned' if h is False else 'height 0: transformed height returned'),
                                              ob.path_conds(p), z3.And(*goal), pid=PID, oracle='oracles.c13:pipeline', args_from_model=mk,
                                              key='O1:pipeline', timeout_s=15))
            if nret == 0:
                out.append(ob.res('O1', '%s height sequence' % fn.__name__, 'inconclusive', [], 'no returning path'))
        return out
    return g


def groups(tier):
    return [('wiring_94_to_2020', g_wiring('fwd')), ('wiring_2020_to_94', g_wiring('rev')), ('column', g_column),
            ('height_sequence_94_to_2020', g_height_sequence('fwd')), ('height_sequence_2020_to_94', g_height_sequence('rev'))]
