"""C18 - editing a SINEX solution keeps exactly the remaining parameters and covariance."""
import datetime
import io
import z3
from vsym import core, solve, ob, instr
from vsym.core import SymReal, SymBool, Fraction, ratval, toz, explore, fresh_real
from checks.common import swap_globals
from refs import sinex as SX

PID = 'C18'
META = {
    'level': 'other',
    'explanation': 'geodepy.gnss (real source, pandas stubbed, files in an in-memory file system): (a) set_creation_time is executed with the clock a '
                   'symbolic instant (year, day of year, second of day); the formatted fields are decimal-text objects whose lengths are integer '
                   'terms, and the solver decides that the result is always YY:DDD:SSSSS (12 characters); (b) remove_stns_sinex runs on generated '
                   'SINEX 2.02 files with the removal set a symbolic membership predicate, so every `site in sites` test forks and all subsets are '
                   'explored as paths; each output is parsed by an independent parser and compared with the remaining estimates (renumbered), '
                   'the sub-matrix, header count and block structure; (c) remove_velocity_sinex, remove_matrixzeros_sinex and the estimate / '
                   'matrix / site readers on the same shapes.',
    'functions': ['geodepy.gnss.set_creation_time', 'geodepy.gnss.remove_stns_sinex', 'geodepy.gnss.remove_velocity_sinex',
                  'geodepy.gnss.remove_matrixzeros_sinex', 'geodepy.gnss.read_sinex_estimate', 'geodepy.gnss.read_sinex_matrix',
                  'geodepy.gnss.read_sinex_sites', 'geodepy.gnss.read_sinex_*_block'],
    'bounds': {'clock': 'year 2000..2099, day of year 1..366, second of day [0, 86400) - symbolic', 'stations': '1..3 (quick) / 1..6 (thorough)',
               'solution numbers': '1..3', 'velocities': 'with / without', 'matrix': 'L and U', 'removal set': 'every subset except all stations'},
    'outside': ['larger files, free-text comment contents, malformed input', 'numeric payloads are concrete (pairwise distinct) - part (b)/(c) is '
                'bounded exhaustive path exploration; the solver decides the clock claim and path feasibility'],
    'assumptions': ['pandas is not used by the functions concerned (stub module)'],
}


def _gn():
    import geodepy.gnss as gn
    return gn


# --- decimal text of symbolic integers ---------------------------------------------------------------------
def ndigits(z):
    """z3 Int term: number of decimal digits of a non-negative integer-valued real term"""
    return z3.If(z < 10, 1, z3.If(z < 100, 2, z3.If(z < 1000, 3, z3.If(z < 10000, 4, z3.If(z < 100000, 5, z3.If(z < 1000000, 6, 7))))))


class Txt:
    """text made of literal pieces and formatted symbolic integers; only its length is tracked symbolically"""

    def __init__(self, parts):
        self.parts = list(parts)       # str | ('num', z3 term, minwidth)

    def length(self):
        t = z3.IntVal(0)
        for p in self.parts:
            if isinstance(p, str):
                t = t + len(p)
            else:
                nd = ndigits(p[1])
                t = t + z3.If(nd > p[2], nd, p[2])
        return t

    def __add__(self, o):
        return Txt(self.parts + (o.parts if isinstance(o, Txt) else [o]))

    def __radd__(self, o):
        return Txt(([o] if isinstance(o, str) else o.parts) + self.parts)

    def __getitem__(self, k):
        # slicing the decimal text of a 4-digit year: str(year)[2:]
        if len(self.parts) == 1 and not isinstance(self.parts[0], str) and isinstance(k, slice) and k.start == 2 and k.stop is None and self.parts[0][2] == -4:
            z = self.parts[0][1]
            return Txt([('num', z - 100 * z3.ToReal(z3.ToInt(z / 100)), 2)])
        raise core.PathCut('unsupported slice of symbolic text')


class Clock:
    """substitute for datetime.datetime inside gnss: now() is a symbolic instant"""

    def __init__(self, year, yday, sec):
        self.y, self.d, self.s = year, yday, sec

    def now(self):
        return self

    def timetuple(self):
        class T:
            pass
        t = T()
        t.tm_year, t.tm_yday = self.y, self.d
        return t

    def replace(self, **k):
        return ('midnight', self)

    def __sub__(self, o):
        class D:
            pass
        d = D()
        d.total_seconds = lambda: self.s
        return d

    def strftime(self, fmt):
        return 'XX-XX-XXXX, XX:XX'


def g_clock(tier, seed):
    gn = _gn()

    def text_hook(kind, *a):
        if kind == 'call':
            o, m, args, kw = a
            if m == 'format' and isinstance(o, str) and len(args) == 1 and isinstance(args[0], SymReal):
                v = args[0]
                if o == '{:03d}':
                    return Txt([('num', v.z, 3)])
                if o == '{:05.0f}':
                    return Txt([('num', round(v).z, 5)])
                if o == '{:.0f}':
                    return Txt([('num', round(v).z, 0)])
                if o == '{:05d}':
                    return Txt([('num', v.z, 5)])
            raise core.PathCut('unsupported text operation %s.%s' % (type(o).__name__, m))
        raise core.PathCut('unsupported text operation')

    def s_str(x=''):
        if isinstance(x, SymReal):
            return Txt([('num', x.z, -4)])        # -4: known to have exactly four digits (year 2000..2099)
        return str(x)

    def run():
        y = fresh_real('year', 2000, 2099, is_int=True)
        d = fresh_real('yday', 1, 366, is_int=True)
        s = fresh_real('sec', 0, 86400)
        core.CTX.assume(s < Fraction(863995, 10))
        with swap_globals(gn, datetime=Clock(y, d, s), str=s_str):
            return (y, d, s), gn.set_creation_time()
    old_hook = instr.TEXT_HOOK[0]
    instr.TEXT_HOOK[0] = text_hook
    try:
        paths, st = explore(run, max_paths=10)
    finally:
        instr.TEXT_HOOK[0] = old_hook
    out = []
    for p in paths:
        if p.kind != 'return' or not isinstance(p.value[1], Txt):
            out.append(ob.res('O1', 'set_creation_time with a symbolic clock', 'inconclusive', [], 'path %s: %r' % (p.kind, p.value)))
            continue
        (y, d, s), t = p.value
        shape_ok = [isinstance(x, str) or True for x in t.parts]
        lits = [x for x in t.parts if isinstance(x, str)]
        nums = [x for x in t.parts if not isinstance(x, str)]
        struct_ok = lits == [':', ':'] and len(nums) == 3 and [type(x) for x in t.parts] == [tuple, str, tuple, str, tuple]
        widths = []
        if struct_ok:
            for (_, z, mw), want in zip(nums, (2, 3, 5)):
                nd = ndigits(z)
                w = z3.IntVal(2) if mw == 2 else z3.If(nd > mw, nd, mw)
                widths.append(w == want)
        goal = z3.And(z3.BoolVal(struct_ok), t.length() == 12, *widths)

        def mk(env):
            return {'year': int(env.get('year', 2024)), 'yday': int(env.get('yday', 65)), 'sec': float(env.get('sec', 0))}
        out.append(ob.decide_goal('O1', 'creation time is always YY:DDD:SSSSS (12 characters) whatever the wall-clock time', ob.path_conds(p), goal,
                                  pid=PID, oracle='oracles.c18:clock', args_from_model=mk, key='O1:creation-time-width', timeout_s=20))
    return out


# --- in-memory file system ------------------------------------------------------------------------------------
class VFS:
    def __init__(self, files):
        self.files = dict(files)

    def open(self, name, mode='r', *a, **k):
        vfs = self
        if 'w' in mode:
            class W(io.StringIO):
                def close(s):
                    vfs.files[name] = s.getvalue()
                    io.StringIO.close(s)

                def __exit__(s, *e):
                    s.close()
                    return False
            return W()
        if name not in self.files:
            raise FileNotFoundError(name)
        return io.StringIO(self.files[name])


class FixedClock:
    """datetime substitute with a concrete instant"""
    T = datetime.datetime(2024, 3, 5, 12, 0, 0)

    @classmethod
    def now(cls):
        return cls.T


CTIME = '24:065:43200'
MEMBER = z3.Function('REMOVE', z3.IntSort(), z3.BoolSort())


class SymSet:
    """removal set with a symbolic membership predicate: `site in sites` forks"""

    def __init__(self, codes):
        self.codes = list(codes)

    def __contains__(self, site):
        if site not in self.codes:
            return False
        return bool(SymBool(MEMBER(self.codes.index(site))))


def g_remove_stations(tier, seed):
    gn = _gn()
    out = []
    for sh in SX.shapes(tier):
        text = SX.generate(sh)
        codes = SX.CODES[:sh['nstn']]
        tag = '%d station(s), %s velocities, %s matrix' % (sh['nstn'], 'with' if sh['vel'] else 'without', sh['tri'])

        def run():
            vfs = VFS({'in.snx': text})
            with swap_globals(gn, open=vfs.open, datetime=FixedClock):
                gn.remove_stns_sinex('in.snx', SymSet(codes))
            return vfs.files.get('output.snx')
        paths, st = explore(run, max_paths=40, max_decisions=200, loop_bound=100000)
        nsub = 0
        bad = {}
        for p in paths:
            # the subset explored by this path
            removed = set()
            s = z3.Solver()
            s.add(*p.pc)
            for i, c in enumerate(codes):
                s.push()
                s.add(z3.Not(MEMBER(i)))
                if s.check() == z3.unsat:
                    removed.add(c)
                s.pop()
            if len(removed) == len(codes):
                continue            # removing every station is outside the property
            nsub += 1
            if p.kind != 'return' or p.value is None:
                bad.setdefault('%s: %s %r' % (tag, p.kind, p.value), sorted(removed))
                continue
            est, sub = SX.expected_after_removal(sh, removed)
            for pr in SX.check_output(p.value, sh, est, sub, CTIME, text.split('\n')[0]):
                bad.setdefault(pr, sorted(removed))
        v = solve.prove([], z3.BoolVal(not bad), 5, False)
        if not bad:
            out.append(ob.res('O2', 'remove_stns_sinex, %s: %d removal subsets (one path each) give exactly the remaining estimates, renumbered, the '
                              'sub-matrix, a consistent header and closed blocks' % (tag, nsub), 'proved', [ob.qrec('paths', v)], paths=len(paths)))
        for pr, rem in list(bad.items())[:3]:
            out.append(ob.ground_violation('O2', 'remove_stns_sinex, %s, removing %s: %s' % (tag, rem, pr), PID, 'O2:remove-stations:' + _cls(pr),
                                           'oracles.c18:remove_stations', {'shape': sh, 'removed': rem}, queries=[ob.qrec('paths', v)]))
    return out


def _cls(problem):
    for k, tagname in (('own line', 'block-closing-line'), ('trailer', 'block-closing-line'), ('delimiter', 'block-closing-line'), ('header line has', 'header-width'),
                       ('creation time', 'creation-time'), ('count', 'header-count'), ('renumber', 'renumbering'), ('remaining estimates', 'estimates-kept'),
                       ('estimate lines', 'estimate-lines'), ('matrix', 'matrix'), ('block lists', 'site-blocks'), ('other header', 'header-fields')):
        if k in problem:
            return tagname
    return 'other'


def g_velocity_and_zeros(tier, seed):
    gn = _gn()
    out = []
    for sh in SX.shapes(tier):
        if not sh['vel']:
            continue
        text = SX.generate(sh)
        tag = '%d station(s), %s matrix' % (sh['nstn'], sh['tri'])

        def run():
            vfs = VFS({'in.snx': text})
            with swap_globals(gn, open=vfs.open, datetime=FixedClock):
                gn.remove_velocity_sinex('in.snx')
            return vfs.files.get('output.snx')
        paths, st = explore(run, max_paths=4)
        est, sub = SX.expected_after_velocity_removal(sh)
        bad = []
        for p in paths:
            if p.kind != 'return' or p.value is None:
                bad.append('%s %r' % (p.kind, p.value))
            else:
                bad += SX.check_output(p.value, dict(sh), est, sub, CTIME, text.split('\n')[0], vel_out=False)
                if p.value.split('\n')[0].rstrip().endswith('V'):
                    bad.append('velocity flag still in the header')
        v = solve.prove([], z3.BoolVal(not bad), 5, False)
        out.append(ob.res('O3', 'remove_velocity_sinex, %s: exactly the position estimates and their covariance sub-matrix' % tag, 'proved', [ob.qrec('paths', v)])
                   if not bad else ob.ground_violation('O3', 'remove_velocity_sinex, %s: %s' % (tag, bad[0]), PID, 'O3:remove-velocity:' + _cls(bad[0]),
                                                       'oracles.c18:remove_velocity', {'shape': sh}))
    for sh in SX.shapes(tier):
        shz = dict(sh, zeros=True)
        text = SX.generate(shz)
        tag = '%d station(s), %s velocities, %s matrix' % (sh['nstn'], 'with' if sh['vel'] else 'without', sh['tri'])

        def run():
            vfs = VFS({'in.snx': text})
            with swap_globals(gn, open=vfs.open, datetime=FixedClock):
                gn.remove_matrixzeros_sinex('in.snx')
            return vfs.files.get('output.snx')
        paths, st = explore(run, max_paths=4)
        bad = []
        for p in paths:
            if p.kind != 'return' or p.value is None:
                bad.append('%s %r' % (p.kind, p.value))
                continue
            exp = []
            for ln in text.split('\n')[:-1]:
                c = ln.split()
                if ln.startswith(' ') and len(c) in (3, 4, 5) and c[0].isdigit() and c[1].isdigit() and all(x == '0.00000000000000e+00' for x in c[2:]) \
                        and 'e' in c[2]:
                    continue
                exp.append(ln)
            got = p.value.split('\n')
            if got and got[-1] == '':
                got = got[:-1]
            # comment block gains the library's "file created" line; compare everything else line by line
            got_f = _no_comments(got)
            exp = _no_comments(exp)
            if got_f != exp:
                k = next((i for i, (a, b) in enumerate(zip(got_f, exp)) if a != b), min(len(got_f), len(exp)))
                bad.append('output differs from "all lines except all-zero matrix lines" at line %d: %r' % (k, (got_f[k] if k < len(got_f) else None)))
        v = solve.prove([], z3.BoolVal(not bad), 5, False)
        out.append(ob.res('O3', 'remove_matrixzeros_sinex, %s: every other line unchanged and on its own line' % tag, 'proved', [ob.qrec('paths', v)])
                   if not bad else ob.ground_violation('O3', 'remove_matrixzeros_sinex, %s: %s' % (tag, bad[0][:200]), PID, 'O3:remove-zeros',
                                                       'oracles.c18:remove_zeros', {'shape': sh}))
    return out


def _no_comments(lines):
    """drop the contents of the +FILE/COMMENT block (free text, rewritten by the library: outside the property)"""
    out, inside = [], False
    for ln in lines:
        if ln.startswith('+FILE/COMMENT'):
            inside = True
            out.append(ln)
            continue
        if ln.startswith('-FILE/COMMENT'):
            inside = False
        if not inside:
            out.append(ln)
    return out


def g_readers(tier, seed):
    gn = _gn()
    out = []
    for sh in SX.shapes(tier):
        text = SX.generate(sh)
        tag = '%d station(s), %s velocities, %s matrix' % (sh['nstn'], 'with' if sh['vel'] else 'without', sh['tri'])
        vfs = VFS({'in.snx': text})
        bad = []
        with swap_globals(gn, open=vfs.open):
            try:
                est = gn.read_sinex_estimate('in.snx')
                mat = gn.read_sinex_matrix('in.snx')
                sites = gn.read_sinex_sites('in.snx')
            except Exception as e:  # noqa
                bad.append('reader raised %r' % (e,))
                est = mat = sites = []
        P, M = SX.params(sh), SX.matrix(sh)
        per = 6 if sh['vel'] else 3
        for i in range(sh['nstn']):
            if bad:
                break
            ps = P[i * per:(i + 1) * per]
            e = est[i]
            vals = [float('%21.14e' % q[3]) for q in ps]
            sds = [float('%11.5e' % q[4]) for q in ps]
            exp = (ps[0][1], str(ps[0][2]), '24:060:43200') + tuple(vals[:3]) + tuple(sds[:3]) + ((tuple(vals[3:]) + tuple(sds[3:])) if sh['vel'] else ())
            if tuple(e) != exp:
                bad.append('read_sinex_estimate station %d: %r, written %r' % (i, e, exp))
            b = i * per
            idx = [(0, 0), (0, 1), (0, 2), (1, 1), (1, 2), (2, 2)] if sh['tri'] == 'U' else [(0, 0), (1, 0), (1, 1), (2, 0), (2, 1), (2, 2)]
            expm = [float('%21.14e' % M[b + r][b + c]) for r, c in idx]
            if sh['vel']:
                expm += [float('%21.14e' % M[b + 3 + r][b + 3 + c]) for r, c in idx]
            if [float(x) for x in mat[i][2:]] != expm or mat[i][0] != ps[0][1]:
                bad.append('read_sinex_matrix station %d: %r, written %r' % (i, mat[i][2:], expm))
            code, lon, lat, h = SX.site_truth(sh)[i]
            s = sites[i]
            if s[0] != code or (s[5].degree, s[5].minute, s[5].second, s[5].positive) != (lon[0], lon[1], lon[2], not lon[3]) or \
                    (s[6].degree, s[6].minute, s[6].second, s[6].positive) != (lat[0], lat[1], lat[2], not lat[3]) or s[7] != h:
                bad.append('read_sinex_sites station %d: %r, written %r' % (i, s, (code, lon, lat, h)))
        v = solve.prove([], z3.BoolVal(not bad), 5, False)
        out.append(ob.res('O3', 'readers return exactly the written estimates, matrix blocks and site identification (%s)' % tag, 'proved', [ob.qrec('ground', v)])
                   if not bad else ob.ground_violation('O3', 'reader values (%s): %s' % (tag, bad[0][:200]), PID,
                                                       'O3:readers:' + ('sites' if 'sites' in bad[0] else 'matrix' if 'matrix' in bad[0] else 'estimate'),
                                                       'oracles.c18:readers', {'shape': sh}))
    return out


def groups(tier):
    return [('clock', g_clock), ('remove_stations', g_remove_stations), ('velocity_and_zeros', g_velocity_and_zeros), ('readers', g_readers)]
