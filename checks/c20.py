"""C20 - the HTTP API returns exactly what the library computes."""
import z3
from vsym import core, solve, ob
from vsym.core import SymReal, Fraction, ratval, toz, explore, fresh_real

PID = 'C20'
META = {
    'level': 'other',
    'explanation': 'Bounded symbolic execution of the two Flask handlers in api/app.py (real source) with the request replaced by a stub whose '
                   'numeric query fields are symbolic reals and whose angle-type fields range over {absent, dd, dms}; vincinv, vincdir, hp2dec '
                   'and dec2hp are uninterpreted summaries, jsonify is the identity: for all 9 type combinations and both routes every '
                   'returned field is proved equal to the library call on the right query fields with HP conversion applied exactly when '
                   'dms is requested, status 200 on every path; the index route is checked under Flask\'s test request context.',
    'functions': ['api.app.handle_vincinv', 'api.app.handle_vincdir', 'api.app.list_routes'],
    'bounds': {'query fields': 'arbitrary reals (including 0 and negatives)', 'angle types': '{absent, dd, dms} x {absent, dd, dms}'},
    'outside': ['Werkzeug query parsing and JSON float formatting (C-level I/O; exercised only by the replay through the Flask test client)',
                'the library functions themselves (C04, C05, C08)'],
    'assumptions': ['library functions are pure (C09), so an uninterpreted summary represents them'],
}
R = z3.RealSort()
VINV = [z3.Function('VINCINV%d' % i, R, R, R, R, R) for i in range(3)]
VDIR = [z3.Function('VINCDIR%d' % i, R, R, R, R, R) for i in range(3)]
HP2DEC = z3.Function('HP2DEC', R, R)
DEC2HP = z3.Function('DEC2HP', R, R)


def s_vincinv(a, b, c, d):
    return tuple(SymReal(f(toz(a), toz(b), toz(c), toz(d))) for f in VINV)


def s_vincdir(a, b, c, d):
    return tuple(SymReal(f(toz(a), toz(b), toz(c), toz(d))) for f in VDIR)


def s_hp2dec(x):
    return SymReal(HP2DEC(toz(x)))


def s_dec2hp(x):
    return SymReal(DEC2HP(toz(x)))


class Args:
    def __init__(self, vals):
        self.vals = vals
        self.asked = []

    def get(self, key, default=None, type=None):
        self.asked.append((key, type))
        if key in self.vals:
            return self.vals[key]
        return default


class Req:
    def __init__(self, vals):
        self.args = Args(vals)


def _patched(app):
    """swap summaries into the module and into its dispatch tables"""
    orig = {k: app.__dict__[k] for k in ('vincinv', 'vincdir', 'hp2dec', 'dec2hp', 'jsonify', 'request', 'angle_type_to_dd', 'dd_to_angle_type')}
    sub = {orig['hp2dec']: s_hp2dec, orig['dec2hp']: s_dec2hp}
    new = dict(vincinv=s_vincinv, vincdir=s_vincdir, hp2dec=s_hp2dec, dec2hp=s_dec2hp, jsonify=lambda d: d,
               angle_type_to_dd={k: sub.get(v, v) for k, v in orig['angle_type_to_dd'].items()},
               dd_to_angle_type={k: sub.get(v, v) for k, v in orig['dd_to_angle_type'].items()})
    return orig, new


ROUTES = {
    'vincinv': (('lat1', 'lon1', 'lat2', 'lon2'), ('lat1', 'lon1', 'lat2', 'lon2'), s_vincinv,
                {'ell_dist': (0, False), 'azimuth1to2': (1, True), 'azimuth2to1': (2, True)}),
    'vincdir': (('lat1', 'lon1', 'azimuth1to2', 'ell_dist'), ('lat1', 'lon1', 'azimuth1to2'), s_vincdir,
                {'lat2': (0, True), 'lon2': (1, True), 'azimuth2to1': (2, True)}),
}


def g_route(route):
    def g(tier, seed):
        import api.app as app
        keys, angle_keys, lib, fields = ROUTES[route]
        handler = getattr(app, 'handle_' + route)
        out = []
        for ft in (None, 'dd', 'dms'):
            for tt in (None, 'dd', 'dms'):
                tag = '/%s from_angle_type=%s to_angle_type=%s' % (route, ft or 'absent', tt or 'absent')

                def run():
                    vals = {k: fresh_real(k, -10 ** 8, 10 ** 8) for k in keys}
                    q = dict(vals)
                    if ft:
                        q['from_angle_type'] = ft
                    if tt:
                        q['to_angle_type'] = tt
                    app.__dict__['request'] = Req(q)
                    return vals, handler()
                orig, new = _patched(app)
                app.__dict__.update(new)
                try:
                    paths, st = explore(run, max_paths=40)
                finally:
                    app.__dict__.update(orig)
                mk = lambda env, ft=ft, tt=tt: {'env': env, 'route': route, 'from': ft, 'to': tt}
                for p in paths:
                    if p.kind != 'return':
                        out.append(ob.decide_goal('O1', '%s: handler raises %r' % (tag, p.value), ob.path_conds(p), z3.BoolVal(False), pid=PID,
                                                  oracle='oracles.c20:route', args_from_model=mk, key='O1:raises',
                                                  domain={k: (-10 ** 8, 10 ** 8) for k in keys}, num_conds=p.assumptions + p.pc))
                        continue
                    vals, resp = p.value
                    ok_shape = isinstance(resp, tuple) and len(resp) == 2 and resp[1] == 200 and isinstance(resp[0], dict) and set(resp[0]) == set(fields)
                    if not ok_shape:
                        out.append(ob.decide_goal('O1', '%s: status 200 with the documented fields on every path (got %r)' % (tag, resp if not isinstance(resp, tuple) else resp[1:]),
                                                  ob.path_conds(p), z3.BoolVal(False), pid=PID, oracle='oracles.c20:route', args_from_model=mk,
                                                  key='O1:status', domain={k: (-10 ** 8, 10 ** 8) for k in keys}, num_conds=p.assumptions + p.pc,
                                                  extra_points=[{k: 0 for k in keys}]))
                        continue
                    ins = [(s_hp2dec(vals[k]) if (ft == 'dms' and k in angle_keys) else vals[k]) for k in keys]
                    ref = lib(*ins)
                    for name, (idx, is_angle) in fields.items():
                        exp = s_dec2hp(ref[idx]) if (tt == 'dms' and is_angle) else ref[idx]
                        out.append(ob.decide_close('O1', '%s: field %s = library value%s' % (tag, name, ' in HP notation' if (tt == 'dms' and is_angle) else ''),
                                                   p, resp[0][name], exp, 0, pid=PID, key='O1:field', oracle='oracles.c20:route',
                                                   domain={k: (-10 ** 8, 10 ** 8) for k in keys}, make_args=mk, timeout_s=10))
        return out
    return g


def g_index(tier, seed):
    import api.app as app
    with app.app.test_request_context('/'):
        body = app.list_routes()
        rules = sorted(r.rule for r in app.app.url_map.iter_rules() if r.endpoint != 'static')
    ok = all(repr(r) in body or r in body for r in rules) and len(rules) >= 3
    v = solve.prove([], z3.BoolVal(bool(ok)), 5, False)
    if ok:
        return [ob.res('O2', 'index route lists every registered endpoint %s' % rules, 'proved', [ob.qrec('ground', v)])]
    return [ob.ground_violation('O2', 'index route does not list every endpoint', PID, 'O2:index', 'oracles.c20:index', {})]


def groups(tier):
    return [('vincinv', g_route('vincinv')), ('vincdir', g_route('vincdir')), ('index', g_index)]
