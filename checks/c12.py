"""C12 - angle-object arithmetic and comparison agree with decimal-degree arithmetic."""
import operator
import z3
from vsym import core, solve, ob
from vsym.core import SymReal, SymBool, Fraction, ratval, toz, explore, fresh_real
from checks.c15 import patched_angles, same, functional, ref_ctx

PID = 'C12'
META = {
    'level': 'other',
    'explanation': 'Bounded symbolic execution (R-model) of the operator methods of DECAngle, HPAngle, GONAngle, DMSAngle, DDMAngle (real source) on '
                   'operands with symbolic fields (sign flags enumerated, degrees/minutes symbolic integers, seconds/minutes/values symbolic reals), for '
                   'every ordered pair of classes and every operator the classes define: the result has the class of the left operand and is '
                   'exactly the functional conversion of (left.dec() op right.dec()) into that class; comparisons equal the comparison of the '
                   'decimal-degree values on every path; neg/abs/round keep the sign conventions (angles in (-1, 0) deg included); rounding moves '
                   'the value by at most half a unit. dec2hp / hp2dec and the HPAngle validation are summarised (uninterpreted): that HP results '
                   'are constructible and denote the right angle on every double is C08 (F-model).',
    'functions': ['__add__ __radd__ __sub__ __rsub__ __mul__ __rmul__ __truediv__ __abs__ __neg__ __eq__ __ne__ __lt__ __gt__ __round__ __mod__ '
                  'of the five angle classes', 'dec() / constructors reached from them'],
    'bounds': {'degrees': 'symbolic integer 0..359', 'minutes': 'symbolic integer 0..59', 'seconds / decimal minutes / values': 'symbolic reals in range',
               'multipliers and moduli': 'symbolic reals in [-10, 10] \\ {0} / (0, 360]', 'expressions': 'depth 1 per query; any depth follows by structural '
               'induction while magnitudes stay below 720 deg'},
    'outside': ['IEEE rounding of the decimal-degree arithmetic itself (1e-8" claims on doubles are C08)', 'HP internals (summarised)'],
    'assumptions': ['floats are reals; round(x, n) within half a unit, sign preserving'],
}
CLASSES = ['DECAngle', 'HPAngle', 'GONAngle', 'DMSAngle', 'DDMAngle']
DOM = {}


def _ga():
    import geodepy.angles as ga
    return ga


def operand(ga, cls, pre, positive=True):
    """an angle object of class cls with symbolic fields; returns (object, dict of symbols)"""
    if cls == 'DECAngle':
        v = fresh_real(pre + 'v', -360, 360)
        return ga.DECAngle(v)
    if cls == 'HPAngle':
        return ga.HPAngle(fresh_real(pre + 'hp', -360, 360))
    if cls == 'GONAngle':
        return ga.GONAngle(fresh_real(pre + 'g', -400, 400))
    d = fresh_real(pre + 'd', 0, 359, is_int=True)
    if cls == 'DMSAngle':
        m = fresh_real(pre + 'm', 0, 59, is_int=True)
        s = fresh_real(pre + 's', 0, 60)
        core.CTX.assume(s < 60)
        return ga.DMSAngle(d, m, s, positive=positive)
    m = fresh_real(pre + 'm', 0, 60)
    core.CTX.assume(m < 60)
    return ga.DDMAngle(d, m, positive=positive)


def _goal_same_as_functional(ga, p, res, left_cls, expected_dec):
    if left_cls in ('DMSAngle', 'DDMAngle'):
        # sexagesimal results are judged by what they denote (exact in the R-model), not against dec2dms / dec2ddm themselves: class,
        # non-negative fields, sign in the flag (the flag of a zero angle carries no sign), value = the decimal-degree result
        if type(res).__name__ != left_cls:
            return [], z3.BoolVal(False)
        e = toz(expected_dec)
        val = toz(res.degree) + toz(res.minute) / 60 + (toz(res.second) / 3600 if left_cls == 'DMSAngle' else 0)
        nonneg = z3.And(toz(res.degree) >= 0, toz(res.minute) >= 0, (toz(res.second) >= 0) if left_cls == 'DMSAngle' else z3.BoolVal(True))
        signed = val if res.positive else -val
        tol = ratval(Fraction(1, 10 ** 8) / 3600)
        # (within the property's 1e-8 arc-seconds: an implementation that carries seconds rounding to 60 is as good as the exact one;
        #  the flag of an angle that small carries no sign either)
        flag_ok = z3.Or(ob.zabs(e) <= tol, z3.BoolVal(bool(res.positive)) == (e > 0))
        return [], z3.And(nonneg, ob.zabs(signed - e) <= tol, flag_ok)
    with ref_ctx(p) as rc:
        exp = functional(ga, left_cls, expected_dec)
    return rc.extra, same(res, exp)


def _decide(out, p, obn, tag, goal, key, extra=(), mk=None):
    out.append(ob.decide_goal(obn, tag, ob.path_conds(p) + list(extra), goal, pid=PID, oracle='oracles.c12:ops',
                              args_from_model=mk or (lambda env: {'env': env, 'tag': tag}), key=key, timeout_s=15))


def g_binary(tier, seed):
    ga = _ga()
    out = []
    ops = [('+', operator.add), ('-', operator.sub)]
    signs = ((True, True), (False, True), (True, False)) if tier == 'quick' else ((True, True), (False, True), (True, False), (False, False))
    for lc in CLASSES:
        for rc_ in CLASSES:
            for sl, sr in signs:
                if (lc in ('DECAngle', 'HPAngle', 'GONAngle') and not sl) or (rc_ in ('DECAngle', 'HPAngle', 'GONAngle') and not sr):
                    continue        # sign of those classes is inside the symbolic value
                for on, op in ops:
                    tag = '%s %s %s%s' % (lc, on, rc_, '' if (sl and sr) else ' (signs %s/%s)' % ('+' if sl else '-', '+' if sr else '-'))

                    def run():
                        a, b = operand(ga, lc, 'a_', sl), operand(ga, rc_, 'b_', sr)
                        return a, b, op(a, b)
                    paths, st = explore(run, max_paths=12)
                    for p in paths:
                        if p.kind == 'cut':
                            out.append(ob.res('O1', tag, 'inconclusive', [], 'path cut: %s' % p.value))
                            continue
                        if p.kind == 'raise':
                            _decide(out, p, 'O1', '%s: no exception (%s: %s)' % (tag, type(p.value).__name__, p.value), z3.BoolVal(False), 'O1:raises:%s%s' % (lc, on))
                            continue
                        a, b, r = p.value
                        with ref_ctx(p) as rc:
                            ed = op(a.dec(), b.dec())
                        ex2, goal = _goal_same_as_functional(ga, p, r, lc, ed)
                        _decide(out, p, 'O1', '%s: class of the left operand, value = functional conversion of left.dec() %s right.dec()' % (tag, on),
                                goal, 'O1:%s:%s' % (lc, {'+': 'add', '-': 'sub'}[on]), list(rc.extra) + list(ex2))
    return out


def g_scalar(tier, seed):
    """multiplication / division by a number, modulo (DMS, DDM), neg, abs, round"""
    ga = _ga()
    out = []
    for lc in CLASSES:
        for sl in ((True, False) if lc in ('DMSAngle', 'DDMAngle') else (True,)):
            sg = '' if sl else ' (negative)'

            def run():
                a = operand(ga, lc, 'a_', sl)
                k = fresh_real('k', -10, 10)
                core.CTX.assume(k != 0)
                # (a float subclass on the right of a real float takes precedence in Python; the symbolic multiplier is not a float, so call the reflected method)
                res = {'mul': a * k, 'rmul': type(a).__rmul__(a, k), 'div': a / k, 'neg': -a, 'abs': abs(a)}
                if lc in ('DMSAngle', 'DDMAngle'):
                    mod = fresh_real('mod', 0, 360)
                    core.CTX.assume(mod > 0)
                    res['mod'] = a % mod
                    res['modv'] = mod
                return a, k, res
            paths, st = explore(run, max_paths=40, max_decisions=80)
            for p in paths:
                if p.kind == 'cut':
                    out.append(ob.res('O1', lc + ' scalar operators', 'inconclusive', [], 'path cut: %s' % p.value))
                    continue
                if p.kind == 'raise':
                    _decide(out, p, 'O1', '%s%s scalar operators: no exception (%s: %s)' % (lc, sg, type(p.value).__name__, p.value), z3.BoolVal(False),
                            'O1:raises:%s:scalar' % lc)
                    continue
                a, k, res = p.value
                with ref_ctx(p) as rc:
                    d = a.dec()
                    eds = {'mul': d * k, 'rmul': k * d, 'div': d / k}
                    if 'mod' in res:
                        eds['mod'] = d % res['modv']
                for on in eds:
                    ex2, goal = _goal_same_as_functional(ga, p, res[on], lc, eds[on])
                    _decide(out, p, 'O1', '%s%s %s number = functional conversion of the decimal-degree result' % (lc, sg, on), goal,
                            'O1:%s:%s' % (lc, on), list(rc.extra) + list(ex2))
                # negation and absolute value: same class, decimal value negated / absolute
                with ref_ctx(p) as rc2:
                    nd, ad, d0 = res['neg'].dec(), res['abs'].dec(), a.dec()
                ok_cls = type(res['neg']).__name__ == lc and type(res['abs']).__name__ == lc
                _decide(out, p, 'O2', '%s%s: -a and abs(a) keep the class; (-a).dec() = -a.dec(), abs(a).dec() = |a.dec()|' % (lc, sg),
                        z3.And(z3.BoolVal(ok_cls), toz(nd) == -toz(d0), toz(ad) == ob.zabs(toz(d0))) if lc not in ('HPAngle', 'GONAngle') else
                        z3.And(z3.BoolVal(ok_cls), _field(res['neg'], lc) == -_field(a, lc), _field(res['abs'], lc) == ob.zabs(_field(a, lc))),
                        'O2:%s:neg-abs' % lc, rc2.extra)
    # rounding: DEC, GON, DMS, DDM to n places moves the value by at most half a unit of that place
    for lc in ('DECAngle', 'GONAngle', 'DMSAngle', 'DDMAngle'):
        for n in (0, 2, 5):
            for sl in ((True, False) if lc in ('DMSAngle', 'DDMAngle') else (True,)):
                def run():
                    a = operand(ga, lc, 'a_', sl)
                    return a, round(a, n)
                paths, st = explore(run, max_paths=20)
                for p in paths:
                    if p.kind != 'return':
                        if p.kind == 'raise':
                            _decide(out, p, 'O1', 'round(%s, %d): no exception (%r)' % (lc, n, p.value), z3.BoolVal(False), 'O1:raises:%s:round' % lc)
                        continue
                    a, r = p.value
                    half = ratval(Fraction(1, 2 * 10 ** n))
                    if lc in ('DECAngle', 'GONAngle'):
                        g = z3.And(z3.BoolVal(type(r).__name__ == lc), ob.zabs(_field(r, lc) - _field(a, lc)) <= half)
                    elif lc == 'DMSAngle':
                        zero = z3.And(toz(r.degree) == 0, toz(r.minute) == 0, toz(r.second) == 0)
                        # the property bounds the change of the angle (half a unit of the rounded place), not the individual fields:
                        # an implementation that carries 60 seconds into the minutes is as good as one that shows 60
                        va = toz(a.degree) * 3600 + toz(a.minute) * 60 + toz(a.second)
                        vr = toz(r.degree) * 3600 + toz(r.minute) * 60 + toz(r.second)
                        g = z3.And(z3.BoolVal(type(r).__name__ == lc), z3.Or(z3.BoolVal(r.positive == a.positive), zero), toz(r.degree) >= 0,
                                   toz(r.minute) >= 0, toz(r.second) >= 0, ob.zabs(vr - va) <= half)
                    else:
                        zero = z3.And(toz(r.degree) == 0, toz(r.minute) == 0)
                        va = toz(a.degree) * 60 + toz(a.minute)
                        vr = toz(r.degree) * 60 + toz(r.minute)
                        g = z3.And(z3.BoolVal(type(r).__name__ == lc), z3.Or(z3.BoolVal(r.positive == a.positive), zero), toz(r.degree) >= 0,
                                   toz(r.minute) >= 0, ob.zabs(vr - va) <= half)
                    _decide(out, p, 'O1', 'round(%s%s, %d) changes the angle by at most half a unit of the rounded place and keeps sign and class' % (lc, '' if sl else ' negative', n), g,
                            'O1:%s:round' % lc)
    return out


def _field(o, lc):
    return toz({'DECAngle': lambda: o.dec_angle, 'HPAngle': lambda: o.hp_angle, 'GONAngle': lambda: o.gon_angle}[lc]())


def g_compare(tier, seed):
    ga = _ga()
    out = []
    cmps = [('==', operator.eq), ('!=', operator.ne), ('<', operator.lt), ('>', operator.gt)]
    for lc in CLASSES:
        for rc_ in CLASSES:
            for sl, sr in ((True, True), (False, True), (False, False)):
                if (lc in ('DECAngle', 'HPAngle', 'GONAngle') and not sl) or (rc_ in ('DECAngle', 'HPAngle', 'GONAngle') and not sr):
                    continue
                for on, op in cmps:
                    tag = '%s %s %s%s' % (lc, on, rc_, '' if (sl and sr) else ' (signs %s/%s)' % ('+' if sl else '-', '+' if sr else '-'))

                    def run():
                        a, b = operand(ga, lc, 'a_', sl), operand(ga, rc_, 'b_', sr)
                        r = op(a, b)
                        return a, b, (bool(r) if isinstance(r, (SymBool, SymReal)) else r)
                    paths, st = explore(run, max_paths=12)
                    for p in paths:
                        if p.kind != 'return':
                            if p.kind == 'raise':
                                _decide(out, p, 'O1', '%s: no exception (%r)' % (tag, p.value), z3.BoolVal(False), 'O1:raises:%s:cmp' % lc)
                            continue
                        a, b, r = p.value
                        with ref_ctx(p) as rc:
                            da, db = a.dec(), b.dec()
                        za, zb = toz(da), toz(db)
                        truth = {'==': za == zb, '!=': za != zb, '<': za < zb, '>': za > zb}[on]
                        if not isinstance(r, bool):
                            out.append(ob.ground_violation('O1', '%s returns %r, not a bool' % (tag, r), PID, 'O1:%s:cmp' % lc, 'oracles.c12:ops', {'env': {}, 'tag': tag}))
                            continue
                        _decide(out, p, 'O1', '%s equals the comparison of the decimal-degree values' % tag, truth if r else z3.Not(truth),
                                'O1:%s:cmp%s' % (lc, on), rc.extra)
    return out


def _patched(g):
    def f(tier, seed):
        ga = _ga()
        with patched_angles(ga):
            return g(tier, seed)
    return f


def groups(tier):
    return [('binary', _patched(g_binary)), ('scalar', _patched(g_scalar)), ('compare', _patched(g_compare))]
