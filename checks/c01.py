"""C01 - forward grid conversion is the exact transverse Mercator of the ellipsoid."""
import warnings
import z3
warnings.filterwarnings("ignore", category=UserWarning)
from vsym import core, solve, ob, mathx
from vsym.core import SymReal, Fraction, exact_fraction, ratval, toz, explore, fresh_real
from refs import tm as RT
from refs import ellipsoid as RE
from checks import tmcommon as TC

PID = 'C01'
HALF4 = Fraction(5, 10 ** 5) + Fraction(1, 10 ** 9)        # 4-decimal output rounding (+1 nm slack)
QT = {'quick': 12, 'thorough': 60}
ISG_ZONES = (541, 542, 543, 551, 552, 553, 561, 562, 563, 572)

META = {
    'level': 'other',
    'explanation': 'Bounded symbolic execution of geodepy.convert.geo2grid, alpha_coeff, rect_radius, Ellipsoid.__init__ (real '
                   'source) on a symbolic ellipsoid (a, 1/f), symbolic Projection (false origin, k0, zone width, first central '
                   'meridian), symbolic latitude/longitude and explicit or automatic zone; every path is proved equal to the '
                   'Karney-Krueger reference (series coefficients as shared uninterpreted functions) within the 4-decimal output '
                   'rounding; the alpha/rectifying-radius polynomials are compared with the published tables as one-variable NRA '
                   'with an amplification budget; the automatic-zone rule, hemisphere label and false northing are path-wise LIRA/NRA queries.',
    'functions': ['geodepy.convert.geo2grid', 'geodepy.convert.alpha_coeff', 'geodepy.convert.rect_radius',
                  'geodepy.constants.Ellipsoid.__init__', 'geodepy.constants.Projection', 'geodepy.angles.angular_typecheck'],
    'bounds': {'lat': '[-80, 84]', 'lon': '[-180, 180]', 'ellipsoid': 'a in [6.3e6, 6.4e6], 1/f in [150, 400]',
               'projection': 'k0 in [0.9, 1], zone width in [1, 10], false origin in [0, 1e6] x [0, 1e7], first CM in [-180, 180]; '
                             'plus utm and isg concretely', '|lon - CM|': '<= 30 deg', 'zone': '1..60 symbolic integer; ISG: the ten zones'},
    'outside': ['distance of the 8th-order Krueger series from the exact projection and IEEE rounding (trusted remainder <= 0.1 mm, '
                'validated against the quadrature oracle used in replay)', 'lon = 180 exactly with automatic zone (excluded by the property domain)'],
    'assumptions': ['floats are reals; tan/atan/sinh/cosh/log/sqrt uninterpreted with axiom instances',
                    'coefficient budget: |alpha_j error| * a*k0*cosh(2j*0.5494) summed <= 0.05 mm'],
}


def _mods():
    import geodepy.constants as gc
    import geodepy.convert as cv
    import geodepy.angles as ga
    return gc, cv, ga


# --- O1 coefficients ------------------------------------------------------------------------------
class _N:
    pass


def g_coefficients(tier, seed):
    gc, cv, ga = _mods()
    n = z3.Real('n')
    dom = [n >= ratval(Fraction(1, 802)), n <= ratval(Fraction(1, 298))]     # 1/f in [150, 400] -> n in [1/799, 1/299]
    e = gc.Ellipsoid(6378137, Fraction('298.257222101'))      # a real Ellipsoid object whose third flattening is the symbol n
    e.n = SymReal(n)
    e.n2 = e.n ** 2
    code = cv.alpha_coeff(e)
    ref = RT.alpha(SymReal(n))
    out = []
    # amplification: |d E,N| <= a_max * k0_max * cosh(2 j eta'_max), eta'_max = asinh(tan 30 deg) = 0.5494 -> cosh(2j*0.5494)
    import math
    total = Fraction(0)
    budgets = []
    for j in range(1, 9):
        amp = Fraction(6400000) * Fraction(math.ceil(math.cosh(2 * j * 0.5494) * 1000), 1000)
        budgets.append(Fraction(5, 10 ** 5) / 8 / amp)       # 0.05 mm split over the eight terms
    for j in range(8):
        v = solve.prove(dom, ob.zabs(toz(code[j]) - toz(ref[j])) <= ratval(budgets[j]), timeout_s=30)
        if v.status == 'unsat':
            out.append(ob.res('O1', 'alpha_%d(n) within budget %.2e of the published series over 1/f in [150,400]' % (2 * j + 2, float(budgets[j])),
                              'proved', [ob.qrec('NRA-1', v)]))
        else:
            out.append(_coef_witness('alpha', j, v))
    # rectifying radius on a symbolic ellipsoid
    def run():
        a, invf, ell = TC.sym_ell(gc)
        A = cv.rect_radius(ell)
        # a second ellipsoid with the same flattening and another semi-major axis, used afterwards in the same process
        a2 = fresh_real('a2', TC.A_LO, TC.A_HI)
        ell2 = gc.Ellipsoid(a2, invf)
        return a, invf, ell, A, a2, ell2, cv.rect_radius(ell2)
    paths, _ = explore(run)
    for p in paths:
        if p.kind != 'return':
            out.append(ob.ground_violation('O1', 'rect_radius on two ellipsoids in sequence raises %r' % (p.value,), PID, 'O1:rect', 'oracles.c01:coeffs',
                                           {'env': {}}) if p.kind == 'raise' else ob.res('O1', 'rectifying radius', 'inconclusive', [], 'cut: %s' % p.value))
            continue
        a, invf, ell, A, a2, ell2, A2 = p.value
        (r2, _x), extra2 = TC.with_facts(lambda: (RE.RefEll(a2, invf), None))
        dom2 = dict(TC.DOM)
        dom2['a2'] = TC.DOM['a']
        out.append(ob.decide_close('O1', 'rectifying radius of a second ellipsoid with the same flattening, computed afterwards, is its own', p, A2,
                                   RT.rect_radius(a2, r2.n), Fraction(1, 10 ** 5), pid=PID, key='O1:rect', oracle='oracles.c01:coeffs',
                                   domain=dom2, make_args=lambda env: {'env': env}, extra_conds=extra2, timeout_s=60))
        (r, refA), extra = TC.with_facts(lambda: (RE.RefEll(a, invf), None))
        refA = RT.rect_radius(a, r.n)
        out.append(ob.decide_close('O1', 'rectifying radius A(a, 1/f) within 0.01 mm of the published series', p, A, refA,
                                   Fraction(1, 10 ** 5), pid=PID, key='O1:rect', oracle='oracles.c01:coeffs',
                                   domain=TC.DOM, make_args=lambda env: {'env': env}, extra_conds=extra, timeout_s=60))
        out.append(ob.decide_close('O1', 'Ellipsoid.n = f/(2-f)', p, ell.n, r.n, 0, pid=PID, key='O1:n', oracle='oracles.c01:coeffs',
                                   domain=TC.DOM, make_args=lambda env: {'env': env}, extra_conds=extra))
    return out


def _coef_witness(kind, j, v):
    return ob.ground_violation('O1', '%s_%d(n) deviates from the published series beyond the 0.05 mm budget' % (kind, 2 * j + 2), PID,
                               'O1:%s%d' % (kind, 2 * j + 2), 'oracles.c01:coeffs', {'env': {}}, queries=[ob.qrec('NRA-1', v)])


# --- O2..O4 skeleton ---------------------------------------------------------------------------------
def run_case(gc, cv, ga, ell_kind, prj_kind, zone_kind, argkind='float'):
    """one symbolic call of geo2grid; returns inputs, outputs"""
    if ell_kind == 'sym':
        a, invf, ell = TC.sym_ell(gc)
    else:
        ell = getattr(gc, ell_kind)
        a, invf = ell.semimaj, ell.inversef
    if prj_kind == 'sym':
        (FE, FN, k0, zw, cm1), prj = TC.sym_prj(gc)
    elif isinstance(prj_kind, tuple):          # ('zw', width): symbolic projection with a concrete zone width
        (FE, FN, k0, zw, cm1), prj = TC.sym_prj(gc)
        zw = prj_kind[1]
        prj.zonewidth = zw
    else:
        prj = getattr(gc, prj_kind)
        FE, FN, k0, zw, cm1 = prj.falseeast, prj.falsenorth, prj.cmscale, prj.zonewidth, prj.initialcm
    lat = fresh_real('lat', -80, 84)
    lon = fresh_real('lon', -180, 180)
    if zone_kind == 'auto':
        zone = 0
        if prj_kind == 'isg':
            core.CTX.assume((lon >= 141) & (lon < Fraction(1535, 10)))
        else:
            # the longitude lies in the span covered by zones 1..60 of this projection (and lon < 180, property domain)
            core.CTX.assume((lon < 180) & (lon >= cm1 - zw / 2) & (lon < cm1 + zw * 59 + zw / 2))
    elif zone_kind == 'sym':
        zone = fresh_real('zone', 1, 60, is_int=True)
        cm = cm1 + (zone - 1) * zw
        core.CTX.assume((lon - cm <= 30) & (lon - cm >= -30))
    else:
        zone = zone_kind
        if prj_kind == 'isg':
            cm = (zone // 10 - 1) * 6 - 177 + (zone % 10 - 2) * 2
        else:
            cm = cm1 + (zone - 1) * zw
        core.CTX.assume((lon - cm <= 30) & (lon - cm >= -30))
    if argkind == 'float':
        la, lo = lat, lon
    elif argkind == 'DECAngle':
        la, lo = ga.DECAngle(lat), ga.DECAngle(lon)
    else:
        la, lo = ga.GONAngle(lat * 10 / 9), ga.GONAngle(lon * 10 / 9)
    out = cv.geo2grid(la, lo, zone, ell, prj)
    return {'a': a, 'invf': invf, 'prj': (FE, FN, k0, zw, cm1), 'lat': lat, 'lon': lon, 'zone_in': zone, 'ell': ell}, out


def ref_for(inp, out, prj_kind):
    """reference easting/northing for the zone the code returned"""
    FE, FN, k0, zw, cm1 = inp['prj']
    zone = out[1]
    if prj_kind == 'isg':
        if isinstance(zone, SymReal):
            amg, sub = core.sym_floor(zone / 10), zone % 10
        else:
            amg, sub = zone // 10, zone % 10
        cm = (amg - 1) * 6 + cm1 + (sub - 2) * 2
    else:
        cm = cm1 + (zone - 1) * zw
    a, invf = inp['a'], inp['invf']
    if isinstance(a, SymReal):
        r, al, be, A = TC.ref_ell_terms(a, invf)
        e, e2 = r.e, r.e2
    else:
        n = 1 / (Fraction(exact_fraction(invf)) * 2 - 1)
        al = RT.alpha(n)
        A = RT.rect_radius(exact_fraction(a), n)
        f = 1 / exact_fraction(invf)
        e2 = f * (2 - f)
        e = inp['ell'].ecc1
    south = (out[0] == 'South')
    d = RT.forward(inp['lat'], inp['lon'], cm, e, A, al, k0, FE, FN, south)
    d['cm'] = cm
    d['A'] = A
    d['al'] = al
    d['e2'] = e2
    return d


CASES_QUICK = [('sym', 'sym', 'sym', 'float'), ('sym', 'utm', 'auto', 'float'), ('sym', ('zw', 6), 'auto', 'float'),
               ('sym', ('zw', 2), 'auto', 'float'), ('sym', 'isg', 551, 'float'), ('sym', 'isg', 'auto', 'float'),
               ('sym', 'utm', 'sym', 'DECAngle')]
CASES_THOROUGH = CASES_QUICK + [('sym', 'isg', z, 'float') for z in ISG_ZONES if z != 551] + \
    [('sym', 'sym', 'sym', 'GONAngle'), ('sym', ('zw', 1), 'auto', 'float'), ('sym', ('zw', 3), 'auto', 'float'),
     ('sym', ('zw', 10), 'auto', 'float')]


def dom_for(case):
    d = dict(TC.DOM)
    return d


def check_case(case, tier, seed, PID=PID, oracle_mod='oracles.c01'):
    gc, cv, ga = _mods()
    ell_kind, prj_kind, zone_kind, argkind = case
    tag = 'ell=%s prj=%s zone=%s args=%s' % tuple(str(c) for c in case)
    with TC.summaries(cv):
        paths, st = explore(lambda: run_case(gc, cv, ga, ell_kind, prj_kind, zone_kind, argkind), max_paths=120)
    out = []
    nret = 0
    for p in paths:
        if p.kind == 'cut':
            out.append(ob.res('O2', tag, 'inconclusive', [], 'path cut: %s' % p.value))
            continue
        if p.kind == 'raise':
            if isinstance(p.value, UserWarning.__mro__[0]) or True:
                pass
            # inside the stated domain nothing may raise: a feasible raise path is a candidate violation
            out.append(ob.decide_goal('O6', '%s: no exception inside the domain (%s)' % (tag, type(p.value).__name__),
                                      ob.path_conds(p), z3.BoolVal(False), pid=PID, oracle=oracle_mod + ':forward_env',
                                      args_from_model=lambda env: {'env': env, 'case': list(case)}, key='O6:raises',
                                      domain=dom_for(case), num_conds=p.assumptions + p.pc, timeout_s=20))
            continue
        nret += 1
        inp, o = p.value
        d, extra = TC.with_facts(lambda: ref_for(inp, o, prj_kind))
        mk = lambda env: {'env': env, 'case': list(case)}
        isg_auto = (prj_kind == 'isg' and zone_kind == 'auto')     # E/N of ISG are decided on the explicit-zone cases
        for got, refv, nm in (() if isg_auto else ((o[2], d['E'], 'easting'), (o[3], d['N'], 'northing'))):
            out.append(ob.decide_close('O2', '%s: %s = Karney-Krueger reference (4-decimal rounding) [%s]' % (tag, nm, o[0]), p, got, refv,
                                       HALF4, pid=PID, key='O2:forward', oracle=oracle_mod + ':forward_env', domain=dom_for(case),
                                       make_args=mk, extra_conds=extra, timeout_s=QT[tier], paths=len(paths),
                                       extra_points=TC.stress_points()))
        # hemisphere label / false northing follow the sign of y = A*xi
        ygoal = (toz(d['y']) < 0) if o[0] == 'South' else (toz(d['y']) >= 0)
        if not isg_auto:
            out.append(ob.decide_goal('O4', '%s: label %s iff projected y %s 0' % (tag, o[0], '<' if o[0] == 'South' else '>='),
                         ob.path_conds(p) + extra, ygoal, pid=PID, oracle=oracle_mod + ':forward_env', args_from_model=mk,
                         key='O4:hemisphere', domain=dom_for(case), num_conds=p.assumptions + p.pc, timeout_s=QT[tier], extra_points=TC.stress_points()))
        # zone
        FE, FN, k0, zw, cm1 = inp['prj']
        if zone_kind == 'auto':
            zt = toz(o[1])
            if prj_kind == 'isg':
                goal = z3.And(ob.zabs(toz(inp['lon']) - toz(d['cm'])) <= 1, zt >= 531, zt <= 573)
            else:
                goal = z3.And(zt >= 1, zt <= 60, ob.zabs(toz(inp['lon']) - toz(d['cm'])) <= toz(zw) / 2)
            out.append(ob.decide_goal('O3', '%s: automatic zone%s has its central meridian within half a zone width' % (
                tag, ' is in 1..60 and'), ob.path_conds(p) + extra, goal, pid=PID,
                oracle=oracle_mod + ':forward_env', args_from_model=mk, key='O3:zone', domain=dom_for(case),
                num_conds=p.assumptions + p.pc, timeout_s=QT[tier], extra_points=TC.stress_points()))
        else:
            out.append(ob.decide_close('O3', '%s: explicit zone returned unchanged' % tag, p, o[1], inp['zone_in'], 0, pid=PID,
                                       key='O3:zone', oracle=oracle_mod + ':forward_env', domain=dom_for(case), make_args=mk))
    if nret == 0:
        out.append(ob.res('O2', tag, 'inconclusive', [], 'no returning path (vacuous harness)'))
    return out


def _mk_group(case):
    def g(tier, seed):
        return check_case(case, tier, seed)
    return g


def g_validation(tier, seed):
    """O6: out-of-range latitude / longitude / zone are rejected"""
    gc, cv, ga = _mods()
    out = []
    specs = [('lat < -80', lambda: (fresh_real('lat', -90, Fraction(-800001, 10000)), fresh_real('lon', -180, 180), 0)),
             ('lat > 84', lambda: (fresh_real('lat', Fraction(840001, 10000), 90), fresh_real('lon', -180, 180), 0)),
             ('lon > 180', lambda: (fresh_real('lat', -80, 84), fresh_real('lon', Fraction(1800001, 10000), 400), 0)),
             ('lon < -180', lambda: (fresh_real('lat', -80, 84), fresh_real('lon', -400, Fraction(-1800001, 10000)), 0)),
             ('zone 61', lambda: (fresh_real('lat', -80, 84), fresh_real('lon', -180, 180), 61)),
             ('zone -1', lambda: (fresh_real('lat', -80, 84), fresh_real('lon', -180, 180), -1))]
    for nm, mk in specs:
        with TC.summaries(cv):
            paths, st = explore(lambda: cv.geo2grid(*mk()), max_paths=40)
        ok = all(p.kind == 'raise' and isinstance(p.value, ValueError) for p in paths) and paths
        v = solve.prove([], z3.BoolVal(bool(ok)), 5, False)
        if ok:
            out.append(ob.res('O6', 'geo2grid rejects %s on all %d paths' % (nm, len(paths)), 'proved', [ob.qrec('paths', v)], paths=len(paths)))
        else:
            out.append(ob.ground_violation('O6', 'geo2grid accepts %s' % nm, PID, 'O6:validation:' + nm, 'oracles.c01:validation', {'what': nm}))
    return out


def _seq(temporaries):
    def g(tier, seed):
        from checks.c04 import seq_group

        def pre(v):
            cm = -177 + (v[2] - 1) * 6
            core.CTX.assume((v[1] - cm <= 30) & (v[1] - cm >= -30))
        return seq_group(PID, 'O2', 'geo2grid%s' % (' (temporary ellipsoid objects)' if temporaries else ''),
                         lambda cv, v, e: cv.geo2grid(v[0], v[1], v[2], e), (('lat', -80, 84), ('lon', -180, 180), ('zone', 1, 60, True)),
                         'oracles.seq:convert_sequence', '@@none@@', tier, temporaries, mods=lambda: _mods()[:2], dom=TC.DOM,
                         ell_box=((TC.A_LO, TC.A_HI), (TC.F_LO, TC.F_HI)), around=TC.summaries, loop_bound=2, timeout_s=15,
                         extra_args={'what': 'geo2grid'}, pre=pre)
    return g


def g_argforms(tier, seed):
    from checks.c04 import argforms_generic
    import geodepy.constants as gc
    import geodepy.convert as cv
    return argforms_generic(PID, 'O2', 'geo2grid', lambda cv_, v: cv_.geo2grid(v[0], v[1], 31), (('lat', 0, 80), ('lon', 0, 6)), tier,
                            lambda: (gc, cv), around=TC.summaries, domain_errors=(ValueError,))


def groups(tier):
    cases = CASES_QUICK if tier == 'quick' else CASES_THOROUGH
    gs = [('coefficients', g_coefficients), ('validation', g_validation), ('sequence', _seq(False)), ('sequence_temporaries', _seq(True)),
          ('argforms', g_argforms)]
    for c in cases:
        gs.append((('case_%s_%s_%s_%s' % tuple(str(x) for x in c)).replace(' ', '').replace("'", ''), _mk_group(c)))
    return gs
