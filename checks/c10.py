"""C10 - point scale factor and grid convergence belong to the projection actually used."""
import warnings
import z3
warnings.filterwarnings("ignore", category=UserWarning)
from vsym import core, solve, ob, mathx
from vsym.core import SymReal, Fraction, ratval, toz, explore, fresh_real, exact_fraction
from refs import tm as RT
from checks import tmcommon as TC
from checks import c01, c02

PID = 'C10'
QT = {'quick': 12, 'thorough': 60}
HALF8 = Fraction(5, 10 ** 9) + Fraction(1, 10 ** 12)
META = {
    'level': 'other',
    'explanation': 'Bounded symbolic execution of geo2grid, grid2geo and psfandgridconv (real source) on a symbolic ellipsoid and '
                   'projection: on every path the returned point scale factor and grid convergence are proved equal to the published '
                   'Karney-Krueger expressions evaluated for THAT ellipsoid and projection (identity under uninterpreted transcendental '
                   'functions, 8-decimal rounding of the scale factor), and the sign of the convergence is proved from the path '
                   'conditions to follow grid bearing = azimuth + convergence in all four quadrants and to vanish on the axes.',
    'functions': ['geodepy.convert.psfandgridconv', 'geodepy.convert.geo2grid', 'geodepy.convert.grid2geo'],
    'bounds': dict(c01.META['bounds'], **{'Newton unrolling (inverse)': 'K = 2'}),
    'outside': ['2e-8 / 1e-9 deg agreement of the published expressions with the derivative of the exact projection (trusted; the replay '
                'oracle differentiates the exact quadrature projection)', 'IEEE rounding',
                'forward/inverse agreement follows from both being the same expressions of the same point (C02), not a separate query'],
    'assumptions': ['floats are reals; uninterpreted transcendental functions with axiom instances'],
}
DOM = dict(TC.DOM)


def _mods():
    import geodepy.constants as gc
    import geodepy.convert as cv
    import geodepy.angles as ga
    return gc, cv, ga


def _sign_goal(code_conv, conv_abs, lon, cm, lat_true):
    c, a = toz(code_conv), toz(conv_abs)
    east, west = toz(lon) > toz(cm), toz(lon) < toz(cm)
    north, south = toz(lat_true) > 0, toz(lat_true) < 0
    return z3.And(z3.Implies(z3.Or(z3.And(east, north), z3.And(west, south)), c == -a),
                  z3.Implies(z3.Or(z3.And(east, south), z3.And(west, north)), c == a),
                  z3.Implies(z3.Or(toz(lon) == toz(cm), toz(lat_true) == 0), z3.Or(c == a, c == -a)))


def forward_case(case, tier, seed):
    gc, cv, ga = _mods()
    ell_kind, prj_kind, zone_kind, argkind = case
    tag = 'forward prj=%s zone=%s' % (prj_kind, zone_kind)
    with TC.summaries(cv):
        paths, st = explore(lambda: c01.run_case(gc, cv, ga, ell_kind, prj_kind, zone_kind, argkind), max_paths=120)
    out = []
    mk = lambda env: {'env': env, 'case': list(case), 'dir': 'forward'}
    for p in paths:
        if p.kind != 'return':
            continue
        inp, o = p.value

        def ref():
            d = c01.ref_for(inp, o, prj_kind)
            FE, FN, k0, zw, cm1 = inp['prj']
            psf, conv = RT.scale_conv(d['xi1'], d['eta1'], inp['lat'], inp['lon'], d['cm'], d['chi'], inp['a'], d['e2'], d['A'], d['al'], k0)
            return d, psf, conv
        (d, psf, conv), extra = TC.with_facts(ref)
        out.append(ob.decide_close('O1', '%s: point scale factor = published expression for the requested ellipsoid/projection' % tag, p,
                                   o[4], psf, HALF8, pid=PID, key='O1:psf-plumbing', oracle='oracles.c10:env', domain=DOM, make_args=mk,
                                   extra_conds=extra, timeout_s=QT[tier], paths=len(paths), extra_points=TC.stress_points()))
        goal = _sign_goal(o[5], conv, inp['lon'], d['cm'], inp['lat'])
        out.append(ob.decide_goal('O2', '%s: grid convergence = published expression, signed so that grid bearing = azimuth + convergence' % tag,
                                  ob.path_conds(p) + extra, goal, pid=PID, oracle='oracles.c10:env', args_from_model=mk, key='O2:convergence',
                                  domain=DOM, num_conds=p.assumptions + p.pc, timeout_s=QT[tier], extra_points=TC.stress_points()))
    if not out:
        out.append(ob.res('O1', tag, 'inconclusive', [], 'no returning path'))
    return out


def inverse_case(case, tier, seed):
    gc, cv, ga = _mods()
    ell_kind, prj_kind, zone_kind, hemi = case
    tag = 'inverse prj=%s zone=%s hemisphere=%s' % (prj_kind, zone_kind, hemi)
    with TC.summaries(cv):
        paths, st = explore(lambda: c02.run_case(gc, cv, ell_kind, prj_kind, zone_kind, hemi), max_paths=200, loop_bound=2, max_decisions=40)
    out = []
    mk = lambda env: {'env': env, 'case': list(case), 'dir': 'inverse'}
    for p in paths:
        if p.kind != 'return':
            continue
        inp, o = p.value
        n_iter = c02._count_newton(p)

        def ref():
            d = c02.ref_inverse(inp, n_iter, prj_kind)
            g = d['g']
            lon = d['cm'] + g['dl_deg']
            psf, conv = RT.scale_conv(g['xi1'], g['eta1'], d['latraw'], lon, d['cm'], g['chi'], inp['a'], d['r'].e2, d['A'], d['al'], d['k0'])
            return d, psf, conv, lon
        (d, psf, conv, lon), extra = TC.with_facts(ref)
        out.append(ob.decide_close('O1', '%s: point scale factor = published expression for the requested ellipsoid/projection' % tag, p,
                                   o[2], psf, HALF8, pid=PID, key='O1:psf-plumbing', oracle='oracles.c10:env', domain=DOM, make_args=mk,
                                   extra_conds=extra, timeout_s=QT[tier], paths=len(paths), extra_points=TC.stress_points()))
        goal = _sign_goal(o[3], conv, lon, d['cm'], d['lat'])
        out.append(ob.decide_goal('O2', '%s: grid convergence = published expression with the sign of the true hemisphere' % tag,
                                  ob.path_conds(p) + extra, goal, pid=PID, oracle='oracles.c10:env', args_from_model=mk, key='O2:convergence',
                                  domain=DOM, num_conds=p.assumptions + p.pc, timeout_s=QT[tier], extra_points=TC.stress_points()))
    if not out:
        out.append(ob.res('O1', tag, 'inconclusive', [], 'no returning path'))
    return out


def g_axes(tier, seed):
    """O3: on the central meridian and on the equator the convergence expression is exactly zero"""
    gc, cv, ga = _mods()
    out = []
    for which in ('central meridian', 'equator'):
        def run():
            a, invf, ell = TC.sym_ell(gc)
            (FE, FN, k0, zw, cm1), prj = TC.sym_prj(gc)
            zone = fresh_real('zone', 1, 60, is_int=True)
            cm = cm1 + (zone - 1) * zw
            if which == 'equator':
                lat = 0
                lon = fresh_real('lon', -180, 180)
                core.CTX.assume((lon - cm <= 30) & (lon - cm >= -30))
            else:
                lat = fresh_real('lat', -80, 84)
                lon = cm
                core.CTX.assume((lon <= 180) & (lon >= -180))
            return cv.geo2grid(lat, lon, zone, ell, prj)
        with TC.summaries(cv):
            paths, st = explore(run, max_paths=60)
        n = 0
        for p in paths:
            if p.kind != 'return':
                continue
            n += 1
            # the code's own divisions are assumed defined here (denominators != 0 are recorded definedness conditions)
            out.append(ob.decide_goal('O3', 'grid convergence is zero on the %s' % which, ob.path_conds(p) + [c for c, _ in p.defined],
                                      toz(p.value[5]) == 0, pid=PID,
                                      oracle='oracles.c10:axes', args_from_model=lambda env: {'env': env}, key='O3:axes', timeout_s=QT[tier]))
        if n == 0:
            out.append(ob.res('O3', 'axes (%s)' % which, 'inconclusive', [], 'no returning path'))
    return out


def _mk(fn, case):
    def g(tier, seed):
        return fn(case, tier, seed)
    return g


def groups(tier):
    gs = [('axes', g_axes), ('sequence', lambda tier, seed: g_sequence(tier, seed))]
    fw = [('sym', 'sym', 'sym', 'float'), ('sym', 'isg', 551, 'float'), ('sym', 'utm', 'auto', 'float')]
    iv = [('sym', 'sym', 'sym', 'south'), ('sym', 'sym', 'sym', 'north'), ('sym', 'isg', 551, 'south')]
    if tier == 'thorough':
        fw += [('sym', 'isg', z, 'float') for z in c01.ISG_ZONES if z != 551]
        iv += [('sym', 'isg', z, 'north') for z in (541, 572)]
    for c in fw:
        gs.append(('fw_%s_%s_%s' % (c[1], c[2], c[3]), _mk(forward_case, c)))
    for c in iv:
        gs.append(('iv_%s_%s_%s' % (c[1], c[2], c[3]), _mk(inverse_case, c)))
    return gs


def g_sequence(tier, seed):
    """the same ellipsoid used with two projections one after the other in one process: the scale factor of the second call belongs to
    the second projection (psf is proportional to the central scale factor; the convergence does not depend on it)"""
    gc, cv, ga = _mods()
    out = []

    def run():
        a, invf, ell = TC.sym_ell(gc)
        xi1, eta1 = fresh_real('xi1', -1, 1), fresh_real('eta1', -1, 1)
        lat, lon, cm = fresh_real('lat', -80, 84), fresh_real('lon', -180, 180), fresh_real('cm', -180, 180)
        conf = fresh_real('conf', -2, 2)
        k2 = fresh_real('k2', Fraction(9, 10), 1)
        prj2 = gc.Projection(fresh_real('FE', 0, 1000000), fresh_real('FN', 0, 10000000), k2, fresh_real('zw', 1, 10), fresh_real('cm1', -180, 180))
        r1 = cv.psfandgridconv(xi1, eta1, lat, lon, cm, conf, ell, gc.utm)
        r2 = cv.psfandgridconv(xi1, eta1, lat, lon, cm, conf, ell, prj2)
        r3 = cv.psfandgridconv(xi1, eta1, lat, lon, cm, conf, ell, gc.utm)
        return k2, r1, r2, r3
    with TC.summaries(cv):
        paths, st = explore(run, max_paths=40, max_decisions=40)
    mk = lambda env: {'env': env, 'what': 'sequence'}
    n = 0
    for p in paths:
        if p.kind != 'return':
            continue
        n += 1
        k2, r1, r2, r3 = p.value
        k1 = ratval(exact_fraction(gc.utm.cmscale))
        goal = z3.And(toz(r2[0]) * k1 == toz(r1[0]) * toz(k2), toz(r2[1]) == toz(r1[1]), toz(r3[0]) == toz(r1[0]), toz(r3[1]) == toz(r1[1]))
        out.append(ob.decide_goal('O1', 'UTM, then a second projection, then UTM again on the same ellipsoid: each scale factor carries its own central '
                                  'scale factor, the convergence is the same', ob.path_conds(p) + [c for c, _ in p.defined], goal, pid=PID,
                                  oracle='oracles.c10:sequence', args_from_model=mk, key='O1:sequence', timeout_s=20))
    if n == 0:
        out.append(ob.res('O1', 'projection sequence', 'inconclusive', [], 'no returning path'))
    return out
