"""C03 - geodetic <-> Cartesian conversion is exact and self-inverse on every ellipsoid."""
import z3
from vsym import core, solve, ob, mathx
from vsym.core import SymReal, Fraction, exact_fraction, ratval, toz, explore, fresh_real
from refs import ellipsoid as RE

PID = 'C03'
A_LO, A_HI = 6300000, 6400000
F_LO, F_HI = 150, 400
META = {
    'level': 'other',
    'explanation': 'Bounded symbolic execution of Ellipsoid.__init__, llh2xyz and xyz2llh (real source) on a symbolic ellipsoid '
                   '(a, 1/f), symbolic position/height and symbolic Cartesian point; every path (equator branch, loop '
                   'unrolled to K iterations) is proved identical to the closed form / the published fixed-point algorithm; '
                   'the exit test of every returning path must bound the last step by 1.1e-10 rad; longitude range from the '
                   'atan2 axioms. unsat = holds for all reals in the bounds; failing queries are replayed.',
    'functions': ['geodepy.constants.Ellipsoid.__init__', 'geodepy.convert.llh2xyz', 'geodepy.convert.xyz2llh',
                  'geodepy.angles.angular_typecheck'],
    'bounds': {'ellipsoid': 'a in [6.3e6, 6.4e6], 1/f in [150, 400]', 'lat': '[-90, 90]', 'lon': '[-360, 360]',
               'height': '[-1e4, 4e7]', 'cartesian': '|x|,|y|,|z| <= 5e7, x^2+y^2 > 0', 'loop unrolling K': '4 (quick) / 6 (thorough)'},
    'outside': ['IEEE rounding, in particular cancellation in p/cos(lat) - nu near the poles',
                'contraction of the latitude iteration (numerical analysis fact, factor e^2 nu/(nu+h))',
                'paths needing more than K iterations are cut and counted'],
    'assumptions': ['floats are reals; sin/cos/atan/atan2/sqrt uninterpreted with axiom instances A1-A5',
                    'exit-constant bound: position error <= e^2*a*c/(1-kappa) so c <= 1.1e-10 rad keeps 0.01 mm'],
}
DOM = {'a': (A_LO, A_HI), 'invf': (F_LO, F_HI), 'lat': (-90, 90), 'lon': (-360, 360), 'h': (-10000, 40000000),
       'x': (-5 * 10 ** 7, 5 * 10 ** 7), 'y': (-5 * 10 ** 7, 5 * 10 ** 7), 'z': (-5 * 10 ** 7, 5 * 10 ** 7)}


def _mods():
    import geodepy.constants as gc
    import geodepy.convert as cv
    import geodepy.angles as ga
    return gc, cv, ga


def sym_ell(gc):
    a = fresh_real('a', A_LO, A_HI)
    invf = fresh_real('invf', F_LO, F_HI)
    return a, invf, gc.Ellipsoid(a, invf)


def g_ellipsoid(tier, seed):
    gc, cv, ga = _mods()

    def run():
        a, invf, e = sym_ell(gc)
        return a, invf, e
    paths, _ = explore(run)
    out = []
    for p in paths:
        if p.kind != 'return':
            out.append(ob.res('O0', 'Ellipsoid()', 'inconclusive', [], repr(p.value)))
            continue
        a, invf, e = p.value
        core.CTX = core.Ctx()
        try:
            r = RE.RefEll(a, invf)
            extra = list(core.CTX.facts)
        finally:
            core.CTX = None
        for attr, refv in (('f', r.f), ('semimin', r.b), ('ecc1sq', r.e2), ('ecc2sq', r.ep2), ('ecc1', r.e), ('n', r.n),
                           ('semimaj', r.a), ('inversef', r.invf)):
            out.append(ob.decide_close('O0', 'Ellipsoid.%s = definition' % attr, p, getattr(e, attr), refv, 0, pid=PID,
                                       key='O0:ellipsoid:' + attr, oracle='oracles.c03:ellipsoid_attr', domain=DOM,
                                       make_args=lambda env, attr=attr: {'env': env, 'attr': attr}, extra_conds=extra))
    # shipped constants carry the published defining parameters (ground)
    bad = []
    for name, (pa, pf) in RE.PUBLISHED.items():
        e = getattr(gc, name)
        if exact_fraction(e.semimaj) != pa or exact_fraction(e.inversef) != Fraction(pf):
            bad.append(name)
    v = solve.prove([], z3.BoolVal(not bad), 5, False)
    if bad:
        for name in bad:
            out.append(ob.ground_violation('O0', 'shipped ellipsoid ' + name, PID, 'O0:shipped:' + name,
                                           'oracles.c03:shipped_ellipsoid', {'name': name}))
    else:
        out.append(ob.res('O0', 'four shipped ellipsoids carry the published a and 1/f', 'proved', [ob.qrec('ground', v)]))
    return out


def g_llh2xyz(tier, seed):
    gc, cv, ga = _mods()
    out = []
    kinds = ['float', 'DECAngle', 'GONAngle'] if tier == 'quick' else ['float', 'DECAngle', 'GONAngle', 'DMSAngle', 'DDMAngle']
    for kind in kinds:
        def run():
            a, invf, e = sym_ell(gc)
            lat = fresh_real('lat', -90, 90)
            lon = fresh_real('lon', -360, 360)
            h = fresh_real('h', -10000, 40000000)
            if kind == 'float':
                la, lo = lat, lon
            elif kind == 'DECAngle':
                la, lo = ga.DECAngle(lat), ga.DECAngle(lon)
            elif kind == 'GONAngle':
                la, lo = ga.GONAngle(lat * 10 / 9), ga.GONAngle(lon * 10 / 9)
            elif kind == 'DMSAngle':
                la, lo = ga.DMSAngle(0, 0, abs(lat) * 3600, positive=bool(lat >= 0)), ga.DMSAngle(0, 0, abs(lon) * 3600, positive=bool(lon >= 0))
            else:
                la, lo = ga.DDMAngle(0, abs(lat) * 60, positive=bool(lat >= 0)), ga.DDMAngle(0, abs(lon) * 60, positive=bool(lon >= 0))
            return (a, invf, lat, lon, h), cv.llh2xyz(la, lo, h, e)
        paths, st = explore(run)
        for p in paths:
            if p.kind != 'return':
                out.append(ob.ground_violation('O1', 'llh2xyz(%s) raises %r' % (kind, p.value), PID, 'O1:raises', 'oracles.c03:llh2xyz_env',
                                               {'env': {}, 'kind': kind}) if p.kind == 'raise' else
                           ob.res('O1', 'llh2xyz', 'inconclusive', [], 'cut %r' % (p.value,)))
                continue
            (a, invf, lat, lon, h), o = p.value
            core.CTX = core.Ctx()
            try:
                ref = RE.llh2xyz(RE.RefEll(a, invf), lat, lon, h)
                extra = list(core.CTX.facts)
            finally:
                core.CTX = None
            eq = any('lat' in str(c) and '==' in str(c) and 'Not' not in str(c)[:4] for c in p.pc)
            for i, c in enumerate('xyz'):
                out.append(ob.decide_close('O1', 'llh2xyz(%s args) %s = closed form [%d path conditions]' % (kind, c, len(p.pc)), p, o[i], ref[i], 0,
                                           pid=PID, key='O1:llh2xyz', oracle='oracles.c03:llh2xyz_env', domain=DOM,
                                           make_args=lambda env: {'env': env, 'kind': kind}, extra_conds=extra,
                                           extra_points=[{'lat': 0}], timeout_s=30, paths=len(paths)))
    return out


def g_typecheck(tier, seed):
    gc, cv, ga = _mods()
    out = []

    def run():
        v = fresh_real('v', -720, 720)
        objs = {'DECAngle': ga.DECAngle(v), 'GONAngle': ga.GONAngle(v), 'DMSAngle': ga.DMSAngle(1, 2, v, positive=True),
                'DDMAngle': ga.DDMAngle(1, v, positive=True), 'float': v}
        hp = ga.HPAngle.__new__(ga.HPAngle)
        hp.hp_angle = 1.0
        res = {}
        for k, o in objs.items():
            res[k] = (ga.angular_typecheck(o), o.dec() if k != 'float' else v)
        return res
    paths, _ = explore(run)
    for p in paths:
        if p.kind != 'return':
            out.append(ob.res('O1', 'angular_typecheck', 'inconclusive', [], repr(p.value)))
            continue
        for k, (got, exp) in p.value.items():
            out.append(ob.decide_close('O1', 'angular_typecheck(%s) = its decimal-degree value' % k, p, got, exp, 0, pid=PID,
                                       key='O1:typecheck'))
    return out


def g_xyz2llh(tier, seed):
    gc, cv, ga = _mods()
    K = 4 if tier == 'quick' else 6
    out = []

    def run():
        a, invf, e = sym_ell(gc)
        x, y, z = (fresh_real(k, -5 * 10 ** 7, 5 * 10 ** 7) for k in 'xyz')
        core.CTX.assume(x * x + y * y > 1)
        return (a, invf, x, y, z), cv.xyz2llh(x, y, z, e)
    paths, st = explore(run, loop_bound=K, max_decisions=40)
    ncut = sum(1 for p in paths if p.kind == 'cut')
    for p in paths:
        if p.kind == 'cut':
            continue
        if p.kind == 'raise':
            out.append(ob.ground_violation('O2', 'xyz2llh raises %r' % (p.value,), PID, 'O2:raises', 'oracles.c03:xyz2llh_env', {'env': {}}))
            continue
        (a, invf, x, y, z), o = p.value
        n_iter = len(p.pc)       # the first loop test is concrete (itercheck = 1); one symbolic test after every pass
        core.CTX = core.Ctx()
        try:
            rlat, rlon, rh, steps = RE.xyz2llh_iter(RE.RefEll(a, invf), x, y, z, n_iter)
            extra = list(core.CTX.facts)
        finally:
            core.CTX = None
        for got, refv, nm in ((o[0], rlat, 'lat'), (o[1], rlon, 'lon'), (o[2], rh, 'height')):
            out.append(ob.decide_close('O2', 'xyz2llh %s = published iteration, %d passes' % (nm, n_iter), p, got, refv, 0, pid=PID,
                                       key='O2:xyz2llh', oracle='oracles.c03:xyz2llh_env', domain=DOM,
                                       make_args=lambda env: {'env': env}, extra_conds=extra, timeout_s=30, paths=len(paths)))
        # exit test: last step below 1.1e-10 rad on every returning path
        if steps:
            goal = ob.zabs(toz(steps[-1])) <= ratval(Fraction(11, 10 ** 11))
            out.append(ob.decide_goal('O2', 'exit after %d passes only when the last latitude step is <= 1.1e-10 rad' % n_iter,
                                      ob.path_conds(p) + extra, goal, pid=PID, oracle='oracles.c03:xyz2llh_env', timeout_s=30,
                                      args_from_model=lambda env: {'env': env}, key='O2:exit', domain=DOM,
                                      num_conds=p.assumptions + p.pc))
        else:
            out.append(ob.ground_violation('O2', 'xyz2llh returns without any pass of the iteration', PID, 'O2:exit',
                                           'oracles.c03:xyz2llh_env', {'env': {}}))
        # longitude range
        goal = z3.And(toz(o[1]) <= 180, toz(o[1]) >= -180)
        out.append(ob.decide_goal('O2', 'longitude in [-180, 180] (%d passes)' % n_iter, ob.path_conds(p) + extra, goal, pid=PID,
                                  oracle='oracles.c03:xyz2llh_env', args_from_model=lambda env: {'env': env}, key='O2:lonrange', timeout_s=30))
    out.append(ob.res('O2', 'loop unrolled to K=%d: %d returning paths, %d cut' % (K, len(paths) - ncut, ncut),
                      'proved' if len(paths) - ncut >= 2 else 'inconclusive',
                      [ob.qrec('paths', solve.prove([], z3.BoolVal(True), 5, False))], paths=len(paths)))
    return out


def _seq(what, call, specs, temporaries, pre=None):
    def g(tier, seed):
        from checks.c04 import seq_group
        return seq_group(PID, 'O4', '%s%s' % (what, ' (temporary ellipsoid objects)' if temporaries else ''), call, specs, 'oracles.seq:convert_sequence',
                         '1/10000000000', tier, temporaries, mods=lambda: _mods()[:2], dom=DOM, ell_box=((A_LO, A_HI), (F_LO, F_HI)),
                         loop_bound=2, timeout_s=15, extra_args={'what': what}, pre=pre)
    return g


def groups(tier):
    gs = [('ellipsoid', g_ellipsoid), ('llh2xyz', g_llh2xyz), ('typecheck', g_typecheck), ('xyz2llh', g_xyz2llh)]
    for t in (False, True):
        sfx = '_temporaries' if t else ''
        gs.append(('sequence_llh2xyz' + sfx, _seq('llh2xyz', lambda cv, v, e: cv.llh2xyz(v[0], v[1], v[2], e),
                                                  (('lat', -90, 90), ('lon', -360, 360), ('h', -10000, 40000000)), t)))
        gs.append(('sequence_xyz2llh' + sfx, _seq('xyz2llh', lambda cv, v, e: cv.xyz2llh(v[0], v[1], v[2], e),
                                                  (('x', -5 * 10 ** 7, 5 * 10 ** 7), ('y', -5 * 10 ** 7, 5 * 10 ** 7), ('z', -5 * 10 ** 7, 5 * 10 ** 7)), t,
                                                  pre=lambda v: core.CTX.assume(v[0] * v[0] + v[1] * v[1] > 1))))
    return gs
