"""C04 - direct geodesic solution follows the exact ellipsoidal geodesic (Vincenty direct)."""
import z3
from vsym import core, solve, ob, mathx
from vsym.core import SymReal, Fraction, ratval, toz, explore, fresh_real, Ctx
from refs import vincenty as RV
from refs import ellipsoid as RE
from checks import tmcommon as TC

PID = 'C04'
QT = {'quick': 15, 'thorough': 60}
H11 = Fraction(5, 10 ** 12) + Fraction(1, 10 ** 15)
H9 = Fraction(5, 10 ** 10) + Fraction(1, 10 ** 13)
MIN_CAP = 20
META = {
    'level': 'other',
    'explanation': 'Bounded symbolic execution of geodepy.geodesy.vincdir (real source) on a symbolic ellipsoid, start point, azimuth and '
                   'distance: the sigma loop is unrolled to K passes and every returning path is proved identical to Vincenty\'s direct '
                   'formulae as printed in the GDA2020 Technical Manual (series A, B, C; eqs 88-102) within the output rounding; every '
                   'exit is proved to bound the last sigma step by 1e-11; a forced non-converging run shows the loop admits at least 20 '
                   'passes; object arguments give the same terms as decimal arguments.',
    'functions': ['geodepy.geodesy.vincdir', 'geodepy.angles.angular_typecheck', 'geodepy.constants.Ellipsoid.__init__'],
    'bounds': {'lat1': '[-90, 90]', 'lon1': '[-180, 180]', 'azimuth': '[0, 360]', 'distance': '[0, 2e7] m',
               'ellipsoid': 'a in [6.3e6, 6.4e6], 1/f in [280, 320]', 'loop unrolling K': '3 (quick) / 5 (thorough)'},
    'outside': ['accuracy of Vincenty\'s truncated series against the exact geodesic (trusted <= 0.5 mm; the replay oracle integrates '
                'the exact geodesic by quadrature)', 'behaviour of atan2 exactly at the poles, IEEE rounding',
                'convergence of the sigma iteration within the cap'],
    'assumptions': ['floats are reals; sin/cos/tan/atan/atan2/asin/sqrt uninterpreted with axiom instances'],
}
DOM = {'a': (6300000, 6400000), 'invf': (280, 320), 'lat1': (-90, 90), 'lon1': (-180, 180), 'az': (0, 360), 's': (0, 20000000),
       'lat2': (-90, 90), 'lon2': (-180, 180)}


def _mods():
    import geodepy.constants as gc
    import geodepy.geodesy as gd
    import geodepy.angles as ga
    return gc, gd, ga


def sym_ell(gc):
    a = fresh_real('a', 6300000, 6400000)
    invf = fresh_real('invf', 280, 320)
    return a, invf, gc.Ellipsoid(a, invf)


def stress():
    pts = []
    for invf in (280, Fraction('298.257222101'), 320):
        for lat1 in (-90, -45, 0, Fraction(1, 10 ** 6), 33, 89, 90):
            for az in (0, 45, 90, 180, 270, 359):
                for s in (0, 1, 1000, 55000, 5000000, 19999999):
                    pts.append({'a': 6378137, 'invf': invf, 'lat1': lat1, 'lon1': 10, 'az': az, 's': s})
    return pts


def count_loop(p, marker):
    n = 0
    for c in p.pc:
        if marker in str(c):
            n += 1
    return n


def g_direct(tier, seed, argkind='float'):
    gc, gd, ga = _mods()
    K = 3 if tier == 'quick' else 5

    def run():
        a, invf, ell = sym_ell(gc)
        lat1 = fresh_real('lat1', -90, 90)
        lon1 = fresh_real('lon1', -180, 180)
        az = fresh_real('az', 0, 360)
        s = fresh_real('s', 0, 20000000)
        if argkind == 'float':
            args = (lat1, lon1, az)
        else:
            args = (ga.DECAngle(lat1), ga.DECAngle(lon1), ga.DECAngle(az))
        return (a, invf, lat1, lon1, az, s, ell), gd.vincdir(args[0], args[1], args[2], s, ell)
    paths, st = explore(run, loop_bound=K, max_decisions=30, max_paths=60)
    out = []
    mk = lambda env: {'env': env, 'argkind': argkind}
    nret = ncut = 0
    for p in paths:
        if p.kind == 'cut':
            ncut += 1
            continue
        if p.kind == 'raise':
            out.append(ob.decide_goal('O2', 'vincdir(%s): no exception inside the domain (%s)' % (argkind, type(p.value).__name__),
                                      ob.path_conds(p), z3.BoolVal(False), pid=PID, oracle='oracles.c04:direct_env', args_from_model=mk,
                                      key='O2:raises', domain=DOM, num_conds=p.assumptions + p.pc, timeout_s=QT[tier], extra_points=stress()))
            continue
        nret += 1
        (a, invf, lat1, lon1, az, s, ell), o = p.value
        n_iter = count_loop(p, '1/1000000000000')

        def ref():
            r = RE.RefEll(a, invf)
            return RV.direct(lat1, lon1, az, s, a, r.f, r.b, n_iter)
        d, extra = TC.with_facts(ref)
        for got, refv, tol, nm in ((o[0], d['lat2'], H11, 'latitude'), (o[1], d['lon2'], H11, 'longitude'), (o[2], d['az21'], H9, 'reverse azimuth')):
            out.append(ob.decide_close('O2', 'vincdir(%s args) %s = Vincenty direct (manual eqs 88-102), %d passes' % (argkind, nm, n_iter), p, got,
                                       refv, tol, pid=PID, key='O2:direct', oracle='oracles.c04:direct_env', domain=DOM, make_args=mk,
                                       extra_conds=extra, timeout_s=QT[tier], paths=len(paths), extra_points=stress()))
        if d['steps'] and n_iter < 1000:
            goal = ob.zabs(toz(d['steps'][-1])) <= ratval(Fraction(1, 10 ** 11))
            out.append(ob.decide_goal('O2', 'vincdir(%s): exit after %d passes only when the last sigma step is <= 1e-11' % (argkind, n_iter),
                                      ob.path_conds(p) + extra, goal, pid=PID, oracle='oracles.c04:direct_env', args_from_model=mk,
                                      key='O2:exit', domain=DOM, num_conds=p.assumptions + p.pc, timeout_s=QT[tier], extra_points=stress()))
    out.append(ob.res('O2', 'vincdir(%s): loop unrolled to K=%d: %d returning paths, %d cut' % (argkind, K, nret, ncut),
                      'proved' if nret >= 2 else 'inconclusive', [ob.qrec('paths', solve.prove([], z3.BoolVal(True), 5, False))], paths=len(paths)))
    return out


def g_direct_objects(tier, seed):
    return g_direct(tier, seed, 'DECAngle')


def forced_iterations(fn, n):
    """run fn with every symbolic decision forced to `False` (never converge); returns how many decisions were consumed"""
    c = Ctx([False] * n, loop_bound=10 ** 6, max_decisions=n + 5)
    core.CTX = c
    try:
        try:
            fn()
            return c.pos, 'returned'
        except core.PathCut as e:
            return c.pos, 'cut: %s' % e
        except core.PathAbort:
            return c.pos, 'abort'
        except Exception as e:  # noqa
            return c.pos, 'raised %r' % (e,)
    finally:
        core.CTX = None


def g_cap(tier, seed):
    gc, gd, ga = _mods()

    def run():
        a, invf, ell = sym_ell(gc)
        return gd.vincdir(fresh_real('lat1', -90, 90), fresh_real('lon1', -180, 180), fresh_real('az', 0, 360), fresh_real('s', 0, 2 * 10 ** 7), ell)
    used, how = forced_iterations(run, MIN_CAP)
    ok = used >= MIN_CAP
    v = solve.prove([], z3.BoolVal(ok), 5, False)
    if ok:
        return [ob.res('O2', 'sigma loop admits at least %d passes (forced non-converging run consumed %d exit tests)' % (MIN_CAP, used),
                       'proved', [ob.qrec('paths', v)])]
    return [ob.ground_violation('O2', 'sigma loop stops after %d passes (%s); at least %d are required' % (used, how, MIN_CAP), PID, 'O2:cap',
                                'oracles.c04:direct_env', {'env': {}, 'argkind': 'float'})]


def g_argforms(tier, seed, only_cls=None):
    """arguments in any angle class, in any mix with plain numbers, give the result of their decimal-degree values: vincdir is run on
    the mixed arguments and on the decimal values (obtained through each object's own dec()) in the same path; the three outputs
    must be identical terms (hp2dec/dec2hp summarised: C08)"""
    import itertools
    from checks.c15 import patched_angles, same
    gc, gd, ga = _mods()
    out = []
    classes = ('HPAngle', 'GONAngle', 'DMSAngle', 'DDMAngle', 'DECAngle')
    subsets = [s_ for n in (1, 2, 3) for s_ in itertools.combinations((0, 1, 2), n)]
    if tier == 'quick':
        combos = [(c, s_) for c in classes for s_ in ((0,), (1,), (2,), (0, 1, 2))]
        combos = [cs for i, cs in enumerate(combos) if c_keep(i, seed)]
    else:
        combos = [(c, s_) for c in classes for s_ in subsets]

    def obj(cls, pre, lo, hi):
        """(angle object, symbolic quantity a caller would think of as its decimal value)"""
        if cls == 'DECAngle':
            return ga.DECAngle(fresh_real(pre + 'v', lo, hi))
        if cls == 'HPAngle':
            return ga.HPAngle(fresh_real(pre + 'hp', lo, hi))
        if cls == 'GONAngle':
            return ga.GONAngle(fresh_real(pre + 'g', lo, hi))
        d = fresh_real(pre + 'd', 0, int(hi) - 1, is_int=True)
        if cls == 'DMSAngle':
            m, sec = fresh_real(pre + 'm', 0, 59, is_int=True), fresh_real(pre + 's', 0, 60)
            core.CTX.assume(sec < 60)
            return ga.DMSAngle(d, m, sec, positive=True)
        m = fresh_real(pre + 'mm', 0, 60)
        core.CTX.assume(m < 60)
        return ga.DDMAngle(d, m, positive=True)
    for cls, sub in combos:
        if only_cls is not None and cls != only_cls:
            continue

        def run():
            a_, invf_, ell = sym_ell(gc)
            vals = [fresh_real('lat1', 0, 80), fresh_real('lon1', 0, 170), fresh_real('az', 0, 350)]
            args = list(vals)
            for k in sub:
                args[k] = obj(cls, 'a%d_' % k, 0, (80, 170, 350)[k])
            decs = [a.dec() if hasattr(a, 'dec') else a for a in args]
            dist = fresh_real('s', 1, 20000000)
            return gd.vincdir(args[0], args[1], args[2], dist, ell), gd.vincdir(decs[0], decs[1], decs[2], dist, ell)
        with patched_angles(ga):
            paths, st = explore(run, loop_bound=2, max_decisions=30, max_paths=12)
        label = 'vincdir with %s as %s' % ('/'.join(('lat1', 'lon1', 'azimuth')[k] for k in sub), cls)
        mk = lambda env, cls=cls, sub=sub: {'cls': cls, 'positions': list(sub)}
        nret = 0
        for p in paths:
            if p.kind == 'cut':
                continue
            if p.kind == 'raise':
                out.append(ob.decide_goal('O3', '%s: no exception (%s: %s)' % (label, type(p.value).__name__, p.value), ob.path_conds(p), z3.BoolVal(False),
                                          pid=PID, oracle='oracles.c04:argforms', args_from_model=mk, key='O3:argforms', timeout_s=QT[tier]))
                continue
            nret += 1
            ra, rb = p.value
            goal = z3.And(*[same(x, y) for x, y in zip(ra, rb)])
            out.append(ob.decide_goal('O3', '%s = vincdir of the decimal-degree values' % label, ob.path_conds(p), goal, pid=PID,
                                      oracle='oracles.c04:argforms', args_from_model=mk, key='O3:argforms', timeout_s=QT[tier]))
        if nret == 0:
            out.append(ob.res('O3', label, 'inconclusive', [], 'no returning path within the unrolling'))
    return out


def c_keep(i, seed):
    return True


def argforms_generic(pid, ob_id, what, call, specs, tier, mods, around=None, classes=('HPAngle', 'GONAngle', 'DMSAngle', 'DDMAngle', 'DECAngle'),
                     timeout_s=15, domain_errors=()):
    """angle arguments of `what` given as objects of every angle class (all positions; thorough: every single position too) give the result
    of their decimal-degree values (obtained through each object's own dec()): both calls run in the same path, outputs must be identical
    terms (hp2dec/dec2hp summarised: C08). specs: (name, lo, hi) per angle position; call(mod, angle_args) -> tuple"""
    import contextlib
    from checks.c15 import patched_angles, same
    import geodepy.angles as ga
    gc, mod = mods()
    out = []
    allpos = tuple(range(len(specs)))
    subsets = [allpos] + ([(k,) for k in allpos] if tier != 'quick' and len(allpos) > 1 else [])

    def obj(cls, pre, lo, hi):
        if cls == 'DECAngle':
            return ga.DECAngle(fresh_real(pre + 'v', lo, hi))
        if cls == 'HPAngle':
            return ga.HPAngle(fresh_real(pre + 'hp', lo, hi))
        if cls == 'GONAngle':
            return ga.GONAngle(fresh_real(pre + 'g', lo * 10 / 9, hi * 10 / 9))
        d = fresh_real(pre + 'd', int(lo), int(hi) - 1, is_int=True)
        if cls == 'DMSAngle':
            m, sec = fresh_real(pre + 'm', 0, 59, is_int=True), fresh_real(pre + 's', 0, 60)
            core.CTX.assume(sec < 60)
            return ga.DMSAngle(d, m, sec, positive=True)
        m = fresh_real(pre + 'mm', 0, 60)
        core.CTX.assume(m < 60)
        return ga.DDMAngle(d, m, positive=True)
    for cls in classes:
        for sub in subsets:
            def run():
                args = [fresh_real(sp[0], sp[1], sp[2]) for sp in specs]
                for k in sub:
                    args[k] = obj(cls, 'a%d_' % k, specs[k][1], specs[k][2])
                decs = [a.dec() if hasattr(a, 'dec') else a for a in args]
                return call(mod, args), call(mod, decs)
            with patched_angles(ga), (around(mod) if around else contextlib.nullcontext()):
                paths, st = explore(run, loop_bound=2, max_decisions=30, max_paths=12)
            label = '%s with %s as %s' % (what, '/'.join(specs[k][0] for k in sub), cls)
            mk = lambda env, cls=cls, sub=sub: {'what': what, 'cls': cls, 'positions': list(sub)}
            nret = 0
            for p in paths:
                if p.kind == 'cut':
                    continue
                if p.kind == 'raise' and isinstance(p.value, tuple(domain_errors)):
                    continue        # the (summarised) decimal value of the object lies outside the function's domain: the range check's business
                if p.kind == 'raise':
                    out.append(ob.decide_goal(ob_id, '%s: no exception (%s: %s)' % (label, type(p.value).__name__, p.value), ob.path_conds(p),
                                              z3.BoolVal(False), pid=pid, oracle='oracles.seq:argforms', args_from_model=mk,
                                              key='%s:argforms' % ob_id, timeout_s=timeout_s))
                    continue
                nret += 1
                ra, rb = p.value
                pairs = [(x, y) for x, y in zip(ra, rb) if isinstance(x, SymReal) or isinstance(y, SymReal)]
                plain = all(x == y for x, y in zip(ra, rb) if not (isinstance(x, SymReal) or isinstance(y, SymReal)))
                goal = z3.And(z3.BoolVal(bool(plain)), *[same(x, y) for x, y in pairs])
                out.append(ob.decide_goal(ob_id, '%s = %s of the decimal-degree values' % (label, what), ob.path_conds(p), goal, pid=pid,
                                          oracle='oracles.seq:argforms', args_from_model=mk, key='%s:argforms' % ob_id, timeout_s=timeout_s))
            if nret == 0:
                out.append(ob.res(ob_id, label, 'inconclusive', [], 'no returning path within the unrolling'))
    return out


def seq_group(pid, ob_id, what, call, point_specs, oracle, marker, tier, temporaries=False, mods=None, dom=None, ell_box=None, around=None,
              loop_bound=None, timeout_s=None, extra_args=None, pre=None):
    """the same input solved on ellipsoid 1, then on ellipsoid 2, then on ellipsoid 1 again inside one symbolic run (module state carries over
    between the calls exactly as in one process): the second result must be the first result's term with (a, 1/f) replaced by (a2, 1/f2),
    the third must be the first one (decided as identities; compared only on paths where the calls took the same number of passes)"""
    import contextlib
    gc, gd = mods() if mods else _mods()[:2]
    (alo, ahi), (flo, fhi) = ell_box or ((6300000, 6400000), (280, 320))
    tmo = timeout_s or QT[tier]

    def run():
        a = fresh_real('a', alo, ahi)
        invf = fresh_real('invf', flo, fhi)
        a2 = fresh_real('a2', alo, ahi)
        invf2 = fresh_real('invf2', flo, fhi)
        pts = [fresh_real(sp[0], sp[1], sp[2], is_int=(len(sp) > 3 and sp[3])) for sp in point_specs]
        c = core.ctx()
        if pre:
            pre(pts)
        mathx.ID_MODEL.update(on=bool(temporaries), prev=None)
        if temporaries:
            # short-lived ellipsoid objects, each dropped before the next one is built (as in `f(..., Ellipsoid(a, invf))`): the
            # interpreter is free to give the next object the identity (address) of the previous one
            m0 = len(c.pc)
            o1 = call(gd, pts, gc.Ellipsoid(a, invf))
            m1 = len(c.pc)
            o2 = call(gd, pts, gc.Ellipsoid(a2, invf2))
            m2 = len(c.pc)
            o3 = call(gd, pts, gc.Ellipsoid(a, invf))
        else:
            ell = gc.Ellipsoid(a, invf)
            ell2 = gc.Ellipsoid(a2, invf2)
            m0 = len(c.pc)
            o1 = call(gd, pts, ell)
            m1 = len(c.pc)
            o2 = call(gd, pts, ell2)
            m2 = len(c.pc)
            o3 = call(gd, pts, ell)
        return (a, invf, a2, invf2), (m0, m1, m2, len(c.pc)), o1, o2, o3
    try:
        with (around(gd) if around else contextlib.nullcontext()):
            paths, st = explore(run, loop_bound=loop_bound or (1 if tier == 'quick' else 2), max_decisions=40, max_paths=60)
    finally:
        mathx.ID_MODEL.update(on=False, prev=None)
    out = []
    dom = dict(dom or DOM)
    dom.update(a2=dom['a'], invf2=dom['invf'])
    mk = lambda env: dict(extra_args or {}, env=env, temporaries=temporaries)
    n = 0
    for p in paths:
        if p.kind != 'return':
            continue
        (a, invf, a2, invf2), (m0, m1, m2, m3), o1, o2, o3 = p.value
        cnt = lambda lo, hi: sum(1 for c_ in p.pc[lo:hi] if marker in str(c_))
        k1 = cnt(m0, m1)
        sub = lambda t: z3.substitute(t, (toz(a), toz(a2)), (toz(invf), toz(invf2)))
        # the two calls are comparable when they took the same branches: the first call's ellipsoid-dependent decisions and the second
        # call's decisions have the same number and the same outcomes (decisions free of the ellipsoid are shared, not repeated). The
        # decision TERMS are not compared here: that they correspond is part of what the identity below decides.
        names = lambda t: set(solve.free_vars([t]))
        d1 = [c_ for c_ in p.pc[m0:m1] if names(c_) & {'a', 'invf'}]
        d2 = list(p.pc[m1:m2])
        same_branches = len(d1) == len(d2) and all(z3.is_not(x) == z3.is_not(y) for x, y in zip(d1, d2))
        if d1 and not d2:
            # the second call decided nothing new although the first call's branches depended on its ellipsoid: its conditions were the
            # very terms of the first call (already decided on this path), so it followed the same branches - compare the results
            same_branches, d1 = True, []
        idx = [i for i in range(len(o1)) if isinstance(o1[i], SymReal) and isinstance(o2[i], SymReal)]
        if not idx:
            continue
        n += 1
        for i in idx:
            out.append(ob.decide_close(ob_id, '%s: third call (first ellipsoid again) repeats the first result (output %d)' % (what, i), p, o3[i], o1[i],
                                       0, pid=pid, key='%s:sequence' % ob_id, oracle=oracle, domain=dom, make_args=mk, timeout_s=tmo))
            if not same_branches and len(d1) != len(d2):
                continue
            exp = SymReal(sub(toz(o1[i])))
            if not same_branches:
                # same number of ellipsoid-dependent decisions but other outcomes: decided under the hypothesis that the second ellipsoid
                # satisfies the first call's branch conditions (contradictory, hence vacuous, when the calls really took other branches)
                out.append(ob.decide_goal(ob_id, '%s: second call on another ellipsoid = the first result with (a, 1/f) replaced, if it meets the first '
                                          'call\'s branch conditions (output %d)' % (what, i), ob.path_conds(p) + [sub(x) for x in d1],
                                          toz(o2[i]) == toz(exp), pid=pid, oracle=oracle, args_from_model=mk, key='%s:sequence' % ob_id, timeout_s=tmo))
                continue
            if i == idx[0]:
                for x, y in zip(d1, d2):
                    out.append(ob.decide_goal(ob_id, '%s: second call on another ellipsoid takes its branches on the first call\'s conditions with (a, 1/f) '
                                              'replaced' % what, ob.path_conds(p), sub(x) == y, pid=pid, oracle=oracle, args_from_model=mk,
                                              key='%s:sequence' % ob_id, timeout_s=tmo))
            out.append(ob.decide_close(ob_id, '%s: second call on another ellipsoid = the first result with (a, 1/f) replaced (output %d, %d passes)'
                                       % (what, i, k1), p, o2[i], exp, 0, pid=pid, key='%s:sequence' % ob_id, oracle=oracle, domain=dom,
                                       make_args=mk, timeout_s=tmo))
    if n == 0:
        out.append(ob.res(ob_id, '%s: two-ellipsoid call sequence' % what, 'inconclusive', [], 'no returning path with symbolic results'))
    return out


def g_sequence(tier, seed, temporaries=False):
    return seq_group(PID, 'O2', 'vincdir' + (' (temporary ellipsoid objects)' if temporaries else ''),
                     lambda gd, v, e: gd.vincdir(v[0], v[1], v[2], v[3], e),
                     (('lat1', -90, 90), ('lon1', -180, 180), ('az', 0, 360), ('s', 0, 20000000)), 'oracles.c04:direct_sequence',
                     '1/1000000000000', tier, temporaries)


def groups(tier):
    gs = [('direct', g_direct), ('direct_objects', g_direct_objects), ('cap', g_cap), ('sequence', g_sequence),
          ('sequence_temporaries', lambda tier, seed: g_sequence(tier, seed, True))]
    for c in ('HPAngle', 'GONAngle', 'DMSAngle', 'DDMAngle', 'DECAngle'):
        gs.append(('argforms_%s' % c, (lambda c: (lambda tier, seed: g_argforms(tier, seed, c)))(c)))
    return gs
