"""Shared harness for the transverse-Mercator properties (C01, C02, C10)."""
import z3
from vsym import core, solve, ob, mathx
from vsym.core import SymReal, Fraction, ratval, toz, fresh_real
from refs import tm as RT
from refs import ellipsoid as RE

R = z3.RealSort()
ALPHA_UF = [z3.Function('ALPHA%d' % (2 * j), R, R) for j in range(1, 9)]
BETA_UF = [z3.Function('BETA%d' % (2 * j), R, R) for j in range(1, 9)]
RECT_UF = z3.Function('RECT', R, R, R)

A_LO, A_HI = 6300000, 6400000
F_LO, F_HI = 150, 400
DOM = {'a': (A_LO, A_HI), 'invf': (F_LO, F_HI), 'lat': (-80, 84), 'lon': (-180, 180), 'FE': (0, 1000000), 'FN': (0, 10000000),
       'k0': (Fraction(9, 10), 1), 'zw': (1, 10), 'cm1': (-180, 180), 'zone': (1, 60), 'dl': (-30, 30),
       'east': (-2830000, 3830000), 'north': (0, 10000000)}


def _mp(x):
    return solve.to_mp(x)


def _n_of(invf):
    f = 1 / _mp(invf)
    return f / (2 - f)


for _j in range(8):
    solve.register_fn('ALPHA%d' % (2 * (_j + 1)), (lambda j: (lambda n: RT.series(RT.ALPHA, n)[j]))(_j))
    solve.register_fn('BETA%d' % (2 * (_j + 1)), (lambda j: (lambda n: -RT.series(RT.BETA, n)[j]))(_j))
solve.register_fn('RECT', lambda a, invf: RT.rect_radius(a, _n_of(invf)))


def alpha_summary(orig):
    def f(ell):
        n = ell.n
        if isinstance(n, SymReal):
            return tuple(SymReal(u(n.z)) for u in ALPHA_UF)
        return orig(ell)
    return f


def beta_summary(orig):
    """code convention: b_j = -beta_j (series added)"""
    def f(ell):
        n = ell.n
        if isinstance(n, SymReal):
            return tuple(SymReal(u(n.z)) for u in BETA_UF)
        return orig(ell)
    return f


def rect_summary(orig):
    def f(ell):
        if isinstance(ell.semimaj, SymReal) or isinstance(ell.inversef, SymReal):
            return SymReal(RECT_UF(toz(ell.semimaj), toz(ell.inversef)))
        return orig(ell)
    return f


class summaries:
    """replace alpha_coeff / beta_coeff / rect_radius of geodepy.convert by uninterpreted summaries"""

    def __init__(self, cv):
        self.cv = cv

    def __enter__(self):
        cv = self.cv
        self.old = (cv.alpha_coeff, cv.beta_coeff, cv.rect_radius)
        cv.alpha_coeff, cv.beta_coeff, cv.rect_radius = alpha_summary(cv.alpha_coeff), beta_summary(cv.beta_coeff), rect_summary(cv.rect_radius)

    def __exit__(self, *a):
        self.cv.alpha_coeff, self.cv.beta_coeff, self.cv.rect_radius = self.old


def sym_ell(gc):
    a = fresh_real('a', A_LO, A_HI)
    invf = fresh_real('invf', F_LO, F_HI)
    return a, invf, gc.Ellipsoid(a, invf)


def sym_prj(gc):
    FE = fresh_real('FE', 0, 1000000)
    FN = fresh_real('FN', 0, 10000000)
    k0 = fresh_real('k0', Fraction(9, 10), 1)
    zw = fresh_real('zw', 1, 10)
    cm1 = fresh_real('cm1', -180, 180)
    return (FE, FN, k0, zw, cm1), gc.Projection(FE, FN, k0, zw, cm1)


def ref_ell_terms(a, invf):
    """reference quantities for a symbolic ellipsoid, sharing the coefficient summaries"""
    r = RE.RefEll(a, invf)
    nz = toz(r.n)
    al = [SymReal(u(nz)) for u in ALPHA_UF]
    be = [-SymReal(u(nz)) for u in BETA_UF]          # reference uses beta_j (subtracted); code's b_j = -beta_j
    A = SymReal(RECT_UF(toz(a), toz(invf)))
    return r, al, be, A


def with_facts(fn):
    """run a reference computation collecting its axiom instances"""
    core.CTX = core.Ctx()
    try:
        v = fn()
        return v, list(core.CTX.facts)
    finally:
        core.CTX = None


def stress_points():
    """hand-picked extreme-but-valid inputs for the numeric witness search (never used to conclude 'holds')"""
    pts = []
    for invf in (150, Fraction('298.257222101'), 400):
        for a in (6378137, 6400000):
            for (cm1, zw, zone, FE, FN, k0) in ((-177, 6, 31, 500000, 10000000, Fraction('0.9996')), (3, 6, 3, 500000, 0, 1),
                                                (100, 2, 12, 300000, 5000000, Fraction('0.99994'))):
                cm = cm1 + (zone - 1) * zw
                for lat in (-80, -20, Fraction(-1, 1000), 0, 8, 45, 84):
                    for dl in (-30, -12, Fraction(1, 10 ** 7), Fraction(299, 10)):
                        lon = cm + dl
                        if -180 <= lon <= 180:
                            pts.append({'a': a, 'invf': invf, 'cm1': cm1, 'zw': zw, 'zone': zone, 'FE': FE, 'FN': FN, 'k0': k0,
                                        'lat': lat, 'lon': lon, 'east': FE + dl * 100000, 'north': 10000000 - abs(lat) * 110000
                                        if lat < 0 else lat * 110000 + 1})
    return pts
