"""C07 - 14-parameter transformation advances parameters linearly in time."""
import datetime
import z3

from vsym import core, solve, ob, mathx, npx
from vsym.core import SymReal, Fraction, exact_fraction, ratval, toz, explore, fresh_real
from vsym.symdate import SymDate
from refs import helmert as H
from checks.common import hpdec_uf, swap_global, HPDEC, DEG_SLACK
from checks import c06

PID = 'C07'
PARAMS = H.PARAMS
RATES = ['d_' + p for p in PARAMS]
XMAX = 10 ** 7
YEAR = Fraction('365.25')
D_LO, D_HI = -30000, 30000
RHO_MAX = Fraction(32, 10 ** 8)

META = {
    'level': 'other',
    'explanation': 'Bounded symbolic execution of conform14, Transformation.__add__/__neg__ and the ATRF2014<->GDA2020 wrappers '
                   '(real source) with the epoch a symbolic date (integer day offset), a symbolic point and symbolic or '
                   'shipped parameter sets; outputs proved equal to the 7-parameter formula with parameters advanced by '
                   'rate*days/365.25 (identity under uninterpreted rounding/HP functions) plus NRA lemmas bounding the '
                   '8-decimal rounding by < 2 um; wrapper composition bounded by NRA; identity at 2020-01-01 exact.',
    'functions': ['geodepy.transform.conform14', 'geodepy.transform.conform7', 'geodepy.constants.Transformation.__add__',
                  'geodepy.constants.Transformation.__neg__', 'geodepy.transform.transform_atrf2014_to_gda2020',
                  'geodepy.transform.transform_gda2020_to_atrf2014'],
    'bounds': {'point': '|x|,|y|,|z| <= 1e7 m', 'day offset from the reference epoch': '[-30000, 30000] (covers 1980..2060 for every shipped epoch)',
               'symbolic set': '|t| <= 1000 m, |s| <= 100 ppm, advanced |rotation| <= 59.9 arcsec, rates arbitrary within that'},
    'outside': ['IEEE rounding (R-model)', 'real hp2dec on doubles (C08)', 'calendar arithmetic of datetime.date itself '
                '(the day difference is the symbolic integer)'],
    'assumptions': ['floats are reals', 'round(x,8) within 0.5e-8 of x, odd, sign preserving',
                    'hp2dec summary facts (C06 lemma A): 13-decimal parsing, odd, hp2dec(0)=0'],
}


def _mods():
    import geodepy.constants as gc
    import geodepy.transform as tr
    return gc, tr


def sym_set14(gc, pre, ref, sd=False):
    v = {}
    for k in ('tx', 'ty', 'tz'):
        v[k] = fresh_real(pre + k, -500, 500)
        v['d_' + k] = fresh_real(pre + 'd_' + k, Fraction(-1, 100), Fraction(1, 100))
    v['sc'] = fresh_real(pre + 'sc', -50, 50)
    v['d_sc'] = fresh_real(pre + 'd_sc', Fraction(-1, 1000), Fraction(1, 1000))
    for k in ('rx', 'ry', 'rz'):
        v[k] = fresh_real(pre + k, -30, 30)
        v['d_' + k] = fresh_real(pre + 'd_' + k, Fraction(-1, 10), Fraction(1, 10))
    t = gc.Transformation('A', 'B', ref, *[v[k] for k in PARAMS], *[v[k] for k in RATES])
    return v, t


def advanced(v, d):
    return {k: v[k] + v['d_' + k] * d / YEAR for k in PARAMS}


def ref_from_rounded(x, y, z, tt):
    """formula evaluated with the parameters the code holds after __add__ (rounded), rotations through the hp2dec summary"""
    rot = [mathx.radians(hpdec_uf(getattr(tt, k) / 10000)) for k in ('rx', 'ry', 'rz')]
    return H.helmert(x, y, z, tt.tx, tt.ty, tt.tz, tt.sc, *rot)


def g_structure_symbolic(tier, seed):
    """conform14 == conform7-formula on (trans + epoch); (trans + epoch) == round8(p + rate*days/365.25)"""
    gc, tr = _mods()
    ref = datetime.date(2010, 1, 1)

    def run():
        x, y, z = (fresh_real(k, -XMAX, XMAX) for k in 'xyz')
        d = fresh_real('d', D_LO, D_HI, is_int=True)
        ep = SymDate(d + ref.toordinal())
        v1, t1 = sym_set14(gc, 'a_', ref)
        v2, t2 = sym_set14(gc, 'b_', ref)         # same labels, same epochs: catches label-keyed caches
        o1 = tr.conform14(x, y, z, ep, t1)
        o2 = tr.conform14(x, y, z, ep, t2)
        return (x, y, z, d, ep), (v1, t1, o1), (v2, t2, o2)
    out = []
    with swap_global(tr, 'hp2dec', hpdec_uf):
        paths, st = explore(run)
    dom = {'x': (-XMAX, XMAX), 'y': (-XMAX, XMAX), 'z': (-XMAX, XMAX), 'd': (D_LO, D_HI)}
    for pre in ('a_', 'b_'):
        for k in ('tx', 'ty', 'tz'):
            dom[pre + k] = (-500, 500); dom[pre + 'd_' + k] = (Fraction(-1, 100), Fraction(1, 100))
        dom[pre + 'sc'] = (-50, 50); dom[pre + 'd_sc'] = (Fraction(-1, 1000), Fraction(1, 1000))
        for k in ('rx', 'ry', 'rz'):
            dom[pre + k] = (-30, 30); dom[pre + 'd_' + k] = (Fraction(-1, 10), Fraction(1, 10))
    half = Fraction(1, 2 * 10 ** 8)
    for p in paths:
        if p.kind != 'return':
            out.append(ob.ground_violation('O2', 'conform14 raises %r' % (p.value,), PID, 'O2:raises', 'oracles.c07:random14', {})
                       if p.kind == 'raise' else ob.res('O2', 'conform14 symbolic', 'inconclusive', [], 'cut %r' % (p.value,)))
            continue
        (x, y, z, d, ep), *calls = p.value
        for ci, (v, t, o) in enumerate(calls):
            adv = advanced(v, d)
            # what the code must be computing: formula on round8(advanced parameters)
            r8 = {k: round(adv[k], 8) for k in PARAMS}
            # (round() here records the same uninterpreted round_8 applications as the code's)
            rot = [mathx.radians(hpdec_uf(r8[k] / 10000)) for k in ('rx', 'ry', 'rz')]
            refp = H.helmert(x, y, z, r8['tx'], r8['ty'], r8['tz'], r8['sc'], *rot)
            for i, c in enumerate('xyz'):
                out.append(ob.decide_close('O2', 'call %d: conform14 %s = formula(round8(p + rate*days/365.25))' % (ci + 1, c), p,
                                           o[i], refp[i], 0, pid=PID, key='O2:conform14', oracle='oracles.c07:env14',
                                           domain=dom, make_args=lambda e: {'env': e, 'ref': ref.isoformat()},
                                           timeout_s=20, paths=len(paths)))
    return out


def g_lemma_rounding14(tier, seed):
    """8-decimal rounding of the advanced parameters + 13-decimal HP parsing move the result by < 2 um for |X| <= 1e7"""
    x, y, z, s, PI = z3.Reals('x y z s PI')
    dt, ds, d1, d2, r1, r2 = z3.Reals('dt ds d1 d2 r1 r2')
    half = ratval(Fraction(1, 2 * 10 ** 8))
    ddeg = ratval(Fraction(1, 2 * 10 ** 8) / 3600 + DEG_SLACK)     # rotation error in degrees
    rmax = ratval(Fraction(60, 3600))                              # |rotation| <= 60" in degrees
    conds = [x <= XMAX, x >= -XMAX, y <= XMAX, y >= -XMAX, z <= XMAX, z >= -XMAX,
             s <= ratval(Fraction('1.0001')), s >= ratval(Fraction('0.9999')), mathx.pi_fact(),
             dt <= half, dt >= -half, ds <= half / 1000000, ds >= -half / 1000000,
             d1 <= ddeg, d1 >= -ddeg, d2 <= ddeg, d2 >= -ddeg, r1 <= rmax, r1 >= -rmax, r2 <= rmax, r2 >= -rmax]
    out = []
    k = PI / 180
    for (u, w, own, nm) in ((y, z, x, 'x'), (x, z, y, 'y'), (x, y, z, 'z')):
        exact = s * (own + k * r1 * u - k * r2 * w)
        pert = dt + (s + ds) * (own + k * (r1 + d1) * u - k * (r2 + d2) * w)
        v = solve.prove(conds, ob.zabs(pert - exact) <= ratval(Fraction(2, 10 ** 6)), timeout_s=120)
        out.append(ob.res('O2c', 'lemma (%s): 8-decimal rounding of advanced parameters moves the point < 2 um' % nm,
                          'proved' if v.status == 'unsat' else 'inconclusive', [ob.qrec('NRA', v)], 'solver=%s' % v.status))
    return out


def g_add_symbolic(tier, seed):
    from checks import c11
    res = c11.g_add_symbolic(tier, seed)
    for r in res:
        r['ob'] = 'O1'
        if 'key' in r:
            r['key'] = r['key'].replace('O3:', 'O1:')
    return res


def _dated(gc):
    return [(k, v) for k, v in vars(gc).items() if isinstance(v, gc.Transformation) and isinstance(v.ref_epoch, datetime.date)]


def g_shipped14(tier, seed):
    gc, tr = _mods()
    cat = _dated(gc)
    if tier == 'quick':
        order = cat + cat[::-1][:len(cat) // 3]
    else:
        order = cat + cat[::-1]
    X = [fresh_real(k) for k in 'xyz']
    out, qs, n, bad = [], [], 0, set()
    with swap_global(tr, 'hp2dec', hpdec_uf):
        for name, t in order:
            def run():
                d = fresh_real('d', D_LO, D_HI, is_int=True)
                ep = SymDate(d + t.ref_epoch.toordinal())
                return d, tr.conform14(X[0], X[1], X[2], ep, t)
            paths, st = explore(run)
            for p in paths:
                if p.kind != 'return':
                    if name not in bad:
                        bad.add(name)
                        out.append(ob.ground_violation('O2', 'shipped %s: %s' % (name, p.value), PID, 'O2:shipped:' + name,
                                                       'oracles.c07:shipped14', {'name': name}))
                    continue
                d, o = p.value
                r8 = {k: round(getattr(t, k) + getattr(t, 'd_' + k) * d / YEAR, 8) for k in PARAMS}
                rot = [mathx.radians(hpdec_uf(r8[k] / 10000)) for k in ('rx', 'ry', 'rz')]
                refp = H.helmert(X[0], X[1], X[2], r8['tx'], r8['ty'], r8['tz'], r8['sc'], *rot)
                goal = z3.And(*[toz(o[i]) == toz(refp[i]) for i in range(3)])
                v = solve.prove(ob.path_conds(p), goal, timeout_s=20, portfolio=False)
                qs.append(ob.qrec('Q1', v))
                n += 1
                if v.status != 'unsat' and name not in bad:
                    bad.add(name)
                    out.append(ob.ground_violation('O2', 'shipped set %s at a symbolic epoch' % name, PID, 'O2:shipped:' + name,
                                                   'oracles.c07:shipped14', {'name': name}, queries=[qs[-1]]))
    if not out:
        out.append(ob.res('O2', '%d evaluations of the %d dated shipped sets at a symbolic epoch = formula(round8(p + rate*days/365.25))'
                          % (n, len(cat)), 'proved', qs))
    return out


def g_wrappers(tier, seed):
    gc, tr = _mods()
    base = gc.atrf2014_to_gda2020
    ref_ord = base.ref_epoch.toordinal()
    out = []
    lo = datetime.date(1980, 1, 1).toordinal() - ref_ord
    hi = datetime.date(2060, 12, 31).toordinal() - ref_ord
    XS = 6500000

    def run():
        x, y, z = (fresh_real(k, -XS, XS) for k in 'xyz')
        d = fresh_real('d', lo, hi, is_int=True)
        ep = SymDate(d + ref_ord)
        f = tr.transform_atrf2014_to_gda2020(x, y, z, ep)
        b = tr.transform_gda2020_to_atrf2014(x, y, z, ep)
        fb = tr.transform_gda2020_to_atrf2014(f[0], f[1], f[2], ep)
        bf = tr.transform_atrf2014_to_gda2020(b[0], b[1], b[2], ep)
        return (x, y, z, d), f, b, fb, bf
    with swap_global(tr, 'hp2dec', hpdec_uf):
        paths, st = explore(run)
    dom = {'x': (-XS, XS), 'y': (-XS, XS), 'z': (-XS, XS), 'd': (lo, hi)}
    for p in paths:
        if p.kind != 'return':
            out.append(ob.ground_violation('O3', 'ATRF wrapper raises %r' % (p.value,), PID, 'O3:raises', 'oracles.c07:wrappers',
                                           {'env': {}}) if p.kind == 'raise' else
                       ob.res('O3', 'wrappers', 'inconclusive', [], 'cut %r' % (p.value,)))
            continue
        (x, y, z, d), f, b, fb, bf = p.value
        core.CTX = core.Ctx()     # collect the facts of the reference terms
        try:
            for sign, o, nm in ((1, f, 'atrf2014->gda2020'), (-1, b, 'gda2020->atrf2014')):
                r8 = {k: round(sign * getattr(base, k) + sign * getattr(base, 'd_' + k) * d / YEAR, 8) for k in PARAMS}
                rot = [mathx.radians(hpdec_uf(r8[k] / 10000)) for k in ('rx', 'ry', 'rz')]
                refp = H.helmert(x, y, z, r8['tx'], r8['ty'], r8['tz'], r8['sc'], *rot)
                for i, c in enumerate('xyz'):
                    out.append(ob.decide_close('O3', '%s %s = conform14 with the plate-motion set%s' % (nm, c, ' negated' if sign < 0 else ''),
                                               p, o[i], refp[i], 0, pid=PID, key='O3:wrapper', oracle='oracles.c07:wrappers',
                                               domain=dom, make_args=lambda e: {'env': e}, timeout_s=20, paths=len(paths),
                                               extra_conds=core.CTX.facts))
            extra = list(core.CTX.facts)
        finally:
            core.CTX = None
        # mutual inverses: (1) structure identity, (2) reverse rotations are the negated forward ones,
        # (3) rotation magnitude bound, (4) polynomial second-order lemma (g_lemma_second_order)
        core.CTX = core.Ctx()
        try:
            rots = {}
            for sign in (1, -1):
                r8 = {k: round(sign * getattr(base, k) + sign * getattr(base, 'd_' + k) * d / YEAR, 8) for k in PARAMS}
                rots[sign] = [mathx.radians(hpdec_uf(r8[k] / 10000)) for k in ('rx', 'ry', 'rz')]
            extra2 = list(core.CTX.facts)
        finally:
            core.CTX = None
        z0 = 0
        ref_fb = H.helmert(*H.helmert(x, y, z, z0, z0, z0, z0, *rots[1]), z0, z0, z0, z0, *rots[-1])
        ref_bf = H.helmert(*H.helmert(x, y, z, z0, z0, z0, z0, *rots[-1]), z0, z0, z0, z0, *rots[1])
        for o, rf, nm in ((fb, ref_fb, 'gda2020->atrf(atrf->gda2020(X))'), (bf, ref_bf, 'atrf->gda2020(gda2020->atrf(X))')):
            for i, c in enumerate('xyz'):
                out.append(ob.decide_close('O3', '%s %s = R(rho\')R(rho)X (structure)' % (nm, c), p, o[i], rf[i], 0, pid=PID,
                                           key='O3:inverse', oracle='oracles.c07:wrappers', domain=dom,
                                           make_args=lambda e: {'env': e}, timeout_s=20, paths=len(paths), extra_conds=extra2))
        goal2 = z3.And(*[toz(rots[-1][i]) == -toz(rots[1][i]) for i in range(3)])
        out.append(ob.decide_goal('O3', 'reverse rotations are exactly the negated forward rotations at every epoch',
                                  ob.path_conds(p) + extra2, goal2, pid=PID, oracle='oracles.c07:wrappers',
                                  args_from_model=lambda e: {'env': e}, key='O3:inverse', timeout_s=60))
        goal3 = z3.And(*[ob.zabs(toz(rots[1][i])) <= ratval(RHO_MAX) for i in range(3)])
        out.append(ob.decide_goal('O3', 'plate-motion rotations stay below 3.2e-7 rad for epochs 1980..2060',
                                  ob.path_conds(p) + extra2, goal3, pid=PID, oracle='oracles.c07:wrappers',
                                  args_from_model=lambda e: {'env': e}, key='O3:inverse', timeout_s=60))
        for o, nm in ((f, 'atrf2014->gda2020'), (b, 'gda2020->atrf2014')):
            goal = z3.And(*[toz(o[i]) == toz((x, y, z)[i]) for i in range(3)])
            out.append(ob.decide_goal('O3', '%s is exactly the identity at epoch 2020-01-01' % nm,
                                      ob.path_conds(p) + extra + [toz(d) == 0], goal, pid=PID, oracle='oracles.c07:wrappers',
                                      args_from_model=lambda e: {'env': dict(e, d=0)}, key='O3:identity2020'))
    return out


def g_lemma_second_order(tier, seed):
    """|R(-rho) R(rho) X - X| <= 5 um for |rho_i| <= 3.2e-7 rad, |X| <= 6.5e6 m (pure polynomial, QF_NRA)"""
    x, y, z, a, b, c = z3.Reals('x y z a b c')
    XS = 6500000
    conds = [v <= XS for v in (x, y, z)] + [v >= -XS for v in (x, y, z)] + \
            [v <= ratval(RHO_MAX) for v in (a, b, c)] + [v >= -ratval(RHO_MAX) for v in (a, b, c)]
    o = H.helmert(*H.helmert(x, y, z, 0, 0, 0, 0, a, b, c), 0, 0, 0, 0, -a, -b, -c)
    out = []
    for i, nm in enumerate('xyz'):
        v = solve.prove(conds, ob.zabs(o[i] - (x, y, z)[i]) <= ratval(Fraction(5, 10 ** 6)), timeout_s=120)
        out.append(ob.res('O3c', 'second-order lemma (%s): set then negated set returns X within 5 um' % nm,
                          'proved' if v.status == 'unsat' else 'inconclusive', [ob.qrec('NRA', v)], 'solver=%s' % v.status))
    return out


def g_neg14(tier, seed):
    gc, tr = _mods()

    def run():
        v, t = sym_set14(gc, 'a_', datetime.date(2010, 1, 1))
        return v, t, -t
    paths, _ = explore(run)
    out = []
    for p in paths:
        v, t, n = p.value
        goal = z3.And(*[toz(getattr(n, k)) == -toz(v[k]) for k in PARAMS + RATES])
        out.append(ob.decide_goal('O3', '__neg__ negates parameters and rates (symbolic 14-parameter set)', ob.path_conds(p), goal, pid=PID))
    return out


def groups(tier):
    return [('add_symbolic', g_add_symbolic), ('structure_symbolic', g_structure_symbolic), ('lemma_rounding14', g_lemma_rounding14),
            ('shipped14', g_shipped14), ('wrappers', g_wrappers), ('lemma_second_order', g_lemma_second_order),
            ('neg14', g_neg14)]
