"""C14 - grid-based geodesic computations agree with ellipsoid and projection."""
import z3
from vsym import core, solve, ob, mathx
from vsym.core import SymReal, Fraction, ratval, toz, explore, fresh_real
from checks.common import uf_call, swap_globals
from checks import tmcommon as TC
from refs import ellipsoid as RE

PID = 'C14'
META = {
    'level': 'other',
    'explanation': 'Wiring + formula by bounded symbolic execution: vincinv_utm, vincdir_utm, line_sf, rho, nu (real source) on symbolic grid '
                   'coordinates, zones, hemisphere and ellipsoid with grid2geo, geo2grid, vincinv, vincdir (and line_sf inside the *_utm functions) '
                   'as uninterpreted summaries recording every argument: grid distance = ellipsoidal distance x line scale factor, grid bearings '
                   '= azimuths + convergence of each end in its own zone, hemisphere and ellipsoid forwarded to every callee, the direct '
                   'computation iterates bearing - convergence / distance over the line scale factor and re-projects in the first zone; line_sf '
                   'is proved equal to Deakin (2010) eq. 13 with r^2 = rho nu k0^2 at the mean latitude and cross-zone re-projection; rho and nu '
                   'equal their closed forms on a symbolic ellipsoid.',
    'functions': ['geodepy.geodesy.vincinv_utm', 'geodepy.geodesy.vincdir_utm', 'geodepy.geodesy.line_sf', 'geodepy.geodesy.rho', 'geodepy.geodesy.nu'],
    'bounds': {'zones': '1..60 symbolic (same zone and different zones)', 'eastings/northings': 'symbolic reals', 'hemisphere': 'south and north',
               'ellipsoid': 'symbolic (a, 1/f)', 'direct iteration unrolled': 'K = 2'},
    'outside': ['"direct reproduces the second point within 1 mm" and "line scale factor within 3e-7 of the point-scale range / 5e-7 of their Simpson '
                'mean": sizes of approximation errors of transcendental maps - NOT claimed by a solver query (the replay oracle measures them)',
                'the first line-scale estimate inside vincdir_utm is made with default hemisphere/ellipsoid (only a starting value)'],
    'assumptions': ['callees are pure and satisfy C02, C04, C05, C10'],
}
DOM = {'e1': (100000, 900000), 'n1': (1000000, 9000000), 'e2': (100000, 900000), 'n2': (1000000, 9000000), 'zone1': (1, 60), 'zone2': (1, 60),
       'brg': (-5, 365), 'gdist': (1, 100000), 'a': (6300000, 6400000), 'invf': (280, 320), 'lat': (-90, 90)}


def _mods():
    import geodepy.constants as gc
    import geodepy.geodesy as gd
    return gc, gd


def summaries(gc, with_lsf=True):
    def S_G2G(zone, east, north, hemisphere='south', ellipsoid=gc.grs80, prj=gc.utm):
        return tuple(uf_call('grid2geo', 4, zone, east, north, hemisphere.lower() if isinstance(hemisphere, str) else hemisphere, ellipsoid, prj))

    def S_GEO(lat, lon, zone=0, ellipsoid=gc.grs80, prj=gc.utm):
        o = uf_call('geo2grid', 5, lat, lon, zone, ellipsoid, prj)
        return ('HEMI', zone if not (isinstance(zone, int) and zone == 0) else o[0], o[1], o[2], o[3], o[4])

    def S_VINV(lat1, lon1, lat2, lon2, ellipsoid=gc.grs80):
        return tuple(uf_call('vincinv', 3, lat1, lon1, lat2, lon2, ellipsoid))

    def S_VDIR(lat1, lon1, az, dist, ellipsoid=gc.grs80):
        return tuple(uf_call('vincdir', 3, lat1, lon1, az, dist, ellipsoid))

    def S_LSF(zone1, east1, north1, zone2, east2, north2, hemisphere='south', ellipsoid=gc.grs80, projection=gc.utm):
        return uf_call('line_sf', 1, zone1, east1, north1, zone2, east2, north2, hemisphere.lower() if isinstance(hemisphere, str) else hemisphere,
                       ellipsoid, projection)[0]
    d = dict(grid2geo=S_G2G, geo2grid=S_GEO, vincinv=S_VINV, vincdir=S_VDIR)
    if with_lsf:
        d['line_sf'] = S_LSF
    return d


def sym_ell(gc):
    return gc.Ellipsoid(fresh_real('a', 6300000, 6400000), fresh_real('invf', 280, 320))


def g_inverse(tier, seed):
    gc, gd = _mods()
    S = summaries(gc)
    out = []
    for hemi in ('south', 'north'):
        def run():
            ell = sym_ell(gc)
            z1, z2 = fresh_real('zone1', 1, 60, is_int=True), fresh_real('zone2', 1, 60, is_int=True)
            e1, n1, e2, n2 = (fresh_real(k, *DOM[k]) for k in ('e1', 'n1', 'e2', 'n2'))
            return (z1, e1, n1, z2, e2, n2, ell), gd.vincinv_utm(z1, e1, n1, z2, e2, n2, hemi, ell)
        with swap_globals(gd, **S):
            paths, st = explore(run, max_paths=20)
        mk = lambda env, hemi=hemi: {'env': env, 'hemisphere': hemi}
        for p in paths:
            if p.kind != 'return':
                out.append(ob.decide_goal('O1', 'vincinv_utm(%s): no exception (%r)' % (hemi, p.value), ob.path_conds(p), z3.BoolVal(False), pid=PID,
                                          oracle='oracles.c14:utm', args_from_model=mk, key='O1:raises', domain=DOM, num_conds=p.assumptions + p.pc))
                continue
            (z1, e1, n1, z2, e2, n2, ell), (gdist, b12, b21, lsf) = p.value
            p1 = S['grid2geo'](z1, e1, n1, hemi, ell)
            p2 = S['grid2geo'](z2, e2, n2, hemi, ell)
            s, a12, a21 = S['vincinv'](p1[0], p1[1], p2[0], p2[1], ell)
            L = S['line_sf'](z1, e1, n1, z2, e2, n2, hemi, ell)
            for got, refv, nm in ((gdist, s * L, 'grid distance = ellipsoidal distance x line scale factor'),
                                  (b12, a12 + p1[3], 'grid bearing 1->2 = azimuth + convergence at point 1 (its own zone)'),
                                  (b21, a21 + p2[3], 'grid bearing 2->1 = azimuth + convergence at point 2 (its own zone)'),
                                  (lsf, L, 'line scale factor for the requested hemisphere and ellipsoid')):
                out.append(ob.decide_close('O1', 'vincinv_utm(%s): %s' % (hemi, nm), p, got, refv, 0, pid=PID, key='O1:inverse-wiring',
                                           oracle='oracles.c14:utm', domain=DOM, make_args=mk, timeout_s=10))
    return out


def g_direct(tier, seed):
    gc, gd = _mods()
    S = summaries(gc)
    import geodepy.survey as sv
    out = []
    for hemi in ('south', 'north'):
        def run():
            ell = sym_ell(gc)
            z1 = fresh_real('zone1', 1, 60, is_int=True)
            e1, n1 = fresh_real('e1', *DOM['e1']), fresh_real('n1', *DOM['n1'])
            # the grid bearings vincinv_utm returns are azimuth + convergence, not wrapped: the direct must take all of them
            brg, gdist = fresh_real('brg', -5, 365), fresh_real('gdist', 1, 100000)
            return (z1, e1, n1, brg, gdist, ell), gd.vincdir_utm(z1, e1, n1, brg, gdist, hemi, ell)
        with swap_globals(gd, **S):
            paths, st = explore(run, max_paths=20, loop_bound=2, max_decisions=20)
        mk = lambda env, hemi=hemi: {'env': env, 'hemisphere': hemi}
        nret = 0
        for p in paths:
            if p.kind == 'cut':
                continue
            if p.kind != 'return':
                out.append(ob.decide_goal('O2', 'vincdir_utm(%s): no exception (%r)' % (hemi, p.value), ob.path_conds(p), z3.BoolVal(False), pid=PID,
                                          oracle='oracles.c14:utm', args_from_model=mk, key='O2:raises', domain=DOM, num_conds=p.assumptions + p.pc))
                continue
            nret += 1
            (z1, e1, n1, brg, gdist, ell), (zo, eo, no, b21, lsf) = p.value
            n_iter = sum(1 for c in p.pc if '1/1000000000' in str(c))      # loop tests `lsf_diff > 1e-9` evaluated after each pass
            p1 = S['grid2geo'](z1, e1, n1, hemi, ell)
            az = brg - p1[3]
            e2, n2 = sv.radiations(e1, n1, brg, gdist)
            L = S['line_sf'](z1, e1, n1, z1, e2, n2)                          # starting value (library defaults)
            z2 = z1
            for _ in range(max(n_iter, 1)):
                lat2, lon2, az21 = S['vincdir'](p1[0], p1[1], az, gdist / L, ell)
                g = S['geo2grid'](lat2, lon2, z1, ell)
                z2, e2, n2 = g[1], g[2], g[3]
                L = S['line_sf'](z1, e1, n1, z2, e2, n2, hemi, ell)
            p2 = S['grid2geo'](z2, e2, n2, hemi, ell)
            for got, refv, nm in ((zo, z2, 'zone of point 2 is the first point\'s zone'), (eo, e2, 'easting of point 2'), (no, n2, 'northing of point 2'),
                                  (b21, az21 + p2[3], 'reverse grid bearing = reverse azimuth + convergence at point 2'),
                                  (lsf, L, 'line scale factor (requested hemisphere and ellipsoid) after %d passes' % n_iter)):
                out.append(ob.decide_close('O2', 'vincdir_utm(%s): %s' % (hemi, nm), p, got, refv, 0, pid=PID, key='O2:direct-wiring',
                                           oracle='oracles.c14:utm', domain=DOM, make_args=mk, timeout_s=10))
        if nret == 0:
            out.append(ob.res('O2', 'vincdir_utm(%s)' % hemi, 'inconclusive', [], 'no returning path'))
    return out


def g_linesf(tier, seed):
    gc, gd = _mods()
    S = summaries(gc, with_lsf=False)
    out = []
    for same in (True, False):
        for hemi in ('south', 'north'):
            def run():
                ell = sym_ell(gc)
                z1 = fresh_real('zone1', 1, 60, is_int=True)
                z2 = z1 if same else fresh_real('zone2', 1, 60, is_int=True)
                if not same:
                    core.CTX.assume(z1 != z2)
                e1, n1, e2, n2 = (fresh_real(k, *DOM[k]) for k in ('e1', 'n1', 'e2', 'n2'))
                return (z1, e1, n1, z2, e2, n2, ell), gd.line_sf(z1, e1, n1, z2, e2, n2, hemi, ell)
            with swap_globals(gd, grid2geo=S['grid2geo'], geo2grid=S['geo2grid']):
                paths, st = explore(run, max_paths=20)
            mk = lambda env, hemi=hemi: {'env': env, 'hemisphere': hemi}
            for p in paths:
                if p.kind != 'return':
                    out.append(ob.decide_goal('O3', 'line_sf: no exception (%r)' % (p.value,), ob.path_conds(p), z3.BoolVal(False), pid=PID,
                                              oracle='oracles.c14:linesf', args_from_model=mk, key='O3:raises', domain=DOM, num_conds=p.assumptions + p.pc))
                    continue
                (z1, e1, n1, z2, e2, n2, ell), lsf = p.value

                def ref():
                    ze2, zn2 = e2, n2
                    if not same:
                        g2 = S['grid2geo'](z2, e2, n2, hemi, ell)
                        gg = S['geo2grid'](g2[0], g2[1], z1, ell)
                        zz2, ze2, zn2 = gg[1], gg[2], gg[3]
                    else:
                        zz2 = z2
                    lat1 = S['grid2geo'](z1, e1, n1, hemi, ell)[0]
                    lat2 = S['grid2geo'](zz2, ze2, zn2, hemi, ell)[0]
                    latm = (lat1 + lat2) / 2
                    r = RE.RefEll(ell.semimaj, ell.inversef)
                    k0 = Fraction('0.9996')
                    r2 = RE.rho(r, mathx.radians(latm)) * RE.nu(r, mathx.radians(latm)) * k0 ** 2
                    x1, x2 = e1 - 500000, ze2 - 500000
                    q = x1 * x1 + x1 * x2 + x2 * x2
                    return k0 * (1 + q / (6 * r2) * (1 + q / (36 * r2)))
                refv, extra = TC.with_facts(ref)
                out.append(ob.decide_close('O3', 'line_sf (%s zone, %s) = Deakin eq. 13 with r^2 = rho nu k0^2 at the mean latitude' % ('same' if same else 'cross', hemi),
                                           p, lsf, refv, 0, pid=PID, key='O3:line_sf', oracle='oracles.c14:linesf', domain=DOM, make_args=mk,
                                           extra_conds=extra, timeout_s=20,
                                           extra_points=[{'a': 6378137, 'invf': 298, 'zone1': 55, 'zone2': 56, 'e1': 450000, 'n1': 6000000,
                                                          'e2': 550000, 'n2': 6000100}]))
    return out


def g_radii(tier, seed):
    gc, gd = _mods()
    out = []

    def run():
        ell = sym_ell(gc)
        lat = fresh_real('lat', -90, 90)
        return (ell, lat), gd.rho(lat, ell), gd.nu(lat, ell)
    paths, st = explore(run, max_paths=10)
    for p in paths:
        if p.kind != 'return':
            out.append(ob.res('O3', 'rho/nu', 'inconclusive', [], 'path %r' % (p.value,)))
            continue
        (ell, lat), rho, nu = p.value
        (rr, rn), extra = TC.with_facts(lambda: (RE.rho(RE.RefEll(ell.semimaj, ell.inversef), mathx.radians(lat)),
                                                 RE.nu(RE.RefEll(ell.semimaj, ell.inversef), mathx.radians(lat))))
        mk = lambda env: {'env': env}
        out.append(ob.decide_close('O3', 'rho = a(1-e^2)/(1-e^2 sin^2 lat)^(3/2) on the requested ellipsoid', p, rho, rr, 0, pid=PID, key='O3:rho',
                                   oracle='oracles.c14:radii', domain=DOM, make_args=mk, extra_conds=extra, timeout_s=20))
        out.append(ob.decide_close('O3', 'nu = a/sqrt(1-e^2 sin^2 lat) on the requested ellipsoid', p, nu, rn, 0, pid=PID, key='O3:nu',
                                   oracle='oracles.c14:radii', domain=DOM, make_args=mk, extra_conds=extra, timeout_s=20))
    return out


def groups(tier):
    return [('inverse', g_inverse), ('direct', g_direct), ('linesf', g_linesf), ('radii', g_radii)]
