"""C05 - inverse geodesic solution is exact, symmetric and longitude-shift invariant (Vincenty inverse)."""
import z3
from vsym import core, solve, ob, mathx
from vsym.core import SymReal, Fraction, ratval, toz, explore, fresh_real
from refs import vincenty as RV
from refs import ellipsoid as RE
from checks import tmcommon as TC
from checks.c04 import sym_ell, count_loop, forced_iterations, DOM, H9

PID = 'C05'
QT = {'quick': 15, 'thorough': 60}
H3 = Fraction(5, 10 ** 4) + Fraction(1, 10 ** 9)
MIN_CAP = 100
META = {
    'level': 'other',
    'explanation': 'Bounded symbolic execution of geodepy.geodesy.vincinv (real source) on a symbolic ellipsoid and two symbolic points: '
                   'the lambda loop is unrolled to K passes; every returning path is proved identical to Vincenty\'s inverse formulae '
                   '(GDA2020 Technical Manual eqs 71-85 and the azimuth formulae) within the output rounding, the forward azimuth is '
                   'proved to be wrapped into [0, 360), exits bound the last lambda step by 1e-11, a forced non-converging run shows '
                   'the loop admits at least 100 passes, the coincidence shortcut returns zeros exactly when both differences are below '
                   '1e-10 deg, and adding a common longitude offset yields identical terms (shift invariance).',
    'functions': ['geodepy.geodesy.vincinv', 'geodepy.angles.angular_typecheck', 'geodepy.constants.Ellipsoid.__init__'],
    'bounds': {'points': 'lat in [-90, 90], lon in [-180, 180]', 'ellipsoid': 'a in [6.3e6, 6.4e6], 1/f in [280, 320]',
               'loop unrolling K': '3 (quick) / 5 (thorough)', 'longitude offset': '[-360, 360]'},
    'outside': ['accuracy of the truncated series and convergence near antipodes (trusted; replay follows the exact geodesic by quadrature)',
                'swap symmetry of the converged result (decided only on the replay oracle; the one-step algebraic symmetry lemma of the '
                'design was not built)', 'IEEE rounding'],
    'assumptions': ['floats are reals; uninterpreted transcendental functions with axiom instances'],
}


def _mods():
    import geodepy.constants as gc
    import geodepy.geodesy as gd
    import geodepy.angles as ga
    return gc, gd, ga


def stress():
    pts = []
    for invf in (280, Fraction('298.257222101'), 320):
        for (la1, lo1, la2, lo2) in ((0, 0, Fraction(1, 2), Fraction(1779, 10)), (0, 0, 0, 90), (0, 10, 10, 20), (10, 20, 0, 10), (-33, 151, -34, 150),
                                     (1, 0, Fraction(-3, 2), Fraction(1775, 10)), (89, 0, 89, 180), (0, 0, 45, 0), (20, Fraction(1799, 10), 21, Fraction(-1799, 10)),
                                     (0, 0, Fraction(3, 10), Fraction(1777, 10)), (12, 34, 12, 34), (50, 10, 50, Fraction(1000001, 100000))):
            pts.append({'a': 6378137, 'invf': invf, 'lat1': la1, 'lon1': lo1, 'lat2': la2, 'lon2': lo2, 'c': 360})
    return pts


def _run_inverse(gc, gd, offset=False):
    a, invf, ell = sym_ell(gc)
    lat1 = fresh_real('lat1', -90, 90)
    lon1 = fresh_real('lon1', -180, 180)
    lat2 = fresh_real('lat2', -90, 90)
    lon2 = fresh_real('lon2', -180, 180)
    return (a, invf, lat1, lon1, lat2, lon2, ell), gd.vincinv(lat1, lon1, lat2, lon2, ell)


def g_inverse(tier, seed):
    gc, gd, ga = _mods()
    K = 3 if tier == 'quick' else 5
    paths, st = explore(lambda: _run_inverse(gc, gd), loop_bound=K, max_decisions=40, max_paths=80)
    out = []
    mk = lambda env: {'env': env}
    nret = ncut = 0
    tol10 = ratval(Fraction(1, 10 ** 10))
    for p in paths:
        if p.kind == 'cut':
            ncut += 1
            continue
        if p.kind == 'raise':
            out.append(ob.decide_goal('O2', 'vincinv: no exception inside the domain (%s: %s)' % (type(p.value).__name__, p.value),
                                      ob.path_conds(p), z3.BoolVal(False), pid=PID, oracle='oracles.c04:inverse_env', args_from_model=mk,
                                      key='O2:raises', domain=DOM, num_conds=p.assumptions + p.pc, timeout_s=QT[tier], extra_points=stress()))
            continue
        nret += 1
        (a, invf, lat1, lon1, lat2, lon2, ell), o = p.value
        n_iter = count_loop(p, '1/1000000000000')
        close = z3.And(ob.zabs(toz(lat1) - toz(lat2)) < tol10, ob.zabs(toz(lon1) - toz(lon2)) < tol10)
        if n_iter == 0:
            # coincidence shortcut: must be taken exactly when both differences are below 1e-10 deg, and return zeros
            zeros = all((not isinstance(v, SymReal)) and v == 0 for v in o)
            out.append(ob.decide_goal('O2', 'coincidence shortcut taken only when |dlat|,|dlon| < 1e-10 deg', ob.path_conds(p), close, pid=PID,
                                      oracle='oracles.c04:inverse_env', args_from_model=mk, key='O2:coincident', domain=DOM,
                                      num_conds=p.assumptions + p.pc, timeout_s=QT[tier]))
            v = solve.prove([], z3.BoolVal(bool(zeros)), 5, False)
            out.append(ob.res('O2', 'coincident points return (0, 0, 0)', 'proved', [ob.qrec('ground', v)]) if zeros else
                       ob.ground_violation('O2', 'coincident points return %r' % (o,), PID, 'O2:coincident', 'oracles.c04:inverse_env', {'env': {}}))
            continue
        out.append(ob.decide_goal('O2', 'general path (%d passes) taken only when the points are not coincident' % n_iter, ob.path_conds(p),
                                  z3.Not(close), pid=PID, oracle='oracles.c04:inverse_env', args_from_model=mk, key='O2:coincident',
                                  domain=DOM, num_conds=p.assumptions + p.pc, timeout_s=QT[tier]))

        def ref():
            r = RE.RefEll(a, invf)
            return RV.inverse(lat1, lon1, lat2, lon2, a, r.f, r.b, n_iter)
        d, extra = TC.with_facts(ref)
        az12 = toz(d['az12_raw'])
        az12w = SymReal(z3.If(az12 < 0, az12 + 360, az12))
        for got, refv, tol, nm in ((o[0], d['s'], H3, 'distance'), (o[1], az12w, H9, 'forward azimuth wrapped to [0, 360)'),
                                   (o[2], d['az21'], H9, 'reverse azimuth')):
            out.append(ob.decide_close('O2', 'vincinv %s = Vincenty inverse (manual eqs 71-85), %d passes' % (nm, n_iter), p, got, refv, tol,
                                       pid=PID, key='O2:inverse', oracle='oracles.c04:inverse_env', domain=DOM, make_args=mk,
                                       extra_conds=extra, timeout_s=QT[tier], paths=len(paths), extra_points=stress()))
        if d['steps'] and n_iter < 1000:
            goal = ob.zabs(toz(d['steps'][-1])) <= ratval(Fraction(1, 10 ** 11))
            out.append(ob.decide_goal('O2', 'exit after %d passes only when the last lambda step is <= 1e-11' % n_iter,
                                      ob.path_conds(p) + extra, goal, pid=PID, oracle='oracles.c04:inverse_env', args_from_model=mk,
                                      key='O2:exit', domain=DOM, num_conds=p.assumptions + p.pc, timeout_s=QT[tier], extra_points=stress()))
    out.append(ob.res('O2', 'vincinv: loop unrolled to K=%d: %d returning paths, %d cut' % (K, nret, ncut),
                      'proved' if nret >= 2 else 'inconclusive', [ob.qrec('paths', solve.prove([], z3.BoolVal(True), 5, False))], paths=len(paths)))
    return out


def g_shift(tier, seed):
    """O3: adding a common offset to both longitudes gives identical results (same path, identical terms)"""
    gc, gd, ga = _mods()

    def run():
        a, invf, ell = sym_ell(gc)
        lat1 = fresh_real('lat1', -90, 90)
        lon1 = fresh_real('lon1', -180, 180)
        lat2 = fresh_real('lat2', -90, 90)
        lon2 = fresh_real('lon2', -180, 180)
        c = fresh_real('c', -360, 360)
        o1 = gd.vincinv(lat1, lon1, lat2, lon2, ell)
        o2 = gd.vincinv(lat1, lon1 + c, lat2, lon2 + c, ell)
        return o1, o2
    paths, st = explore(run, loop_bound=2, max_decisions=40, max_paths=80)
    out = []
    n = 0
    dom = dict(DOM, c=(-360, 360))
    for p in paths:
        if p.kind == 'cut':
            continue
        if p.kind == 'raise':
            out.append(ob.res('O3', 'shift invariance', 'inconclusive', [], 'raise path %r' % (p.value,)))
            continue
        n += 1
        o1, o2 = p.value
        for i, nm in enumerate(('distance', 'forward azimuth', 'reverse azimuth')):
            out.append(ob.decide_close('O3', 'common longitude offset leaves the %s unchanged' % nm, p, o1[i], o2[i], 0, pid=PID, key='O3:shift',
                                       oracle='oracles.c04:inverse_env', domain=dom, make_args=lambda env: {'env': env}, timeout_s=QT[tier],
                                       extra_points=stress()))
    if n == 0:
        out.append(ob.res('O3', 'shift invariance', 'inconclusive', [], 'no common returning path'))
    return out


def g_cap(tier, seed):
    gc, gd, ga = _mods()

    def run():
        return _run_inverse(gc, gd)
    used, how = forced_iterations(run, MIN_CAP + 1)      # +1: the coincidence test is the first decision
    ok = used >= MIN_CAP + 1
    v = solve.prove([], z3.BoolVal(ok), 5, False)
    if ok:
        return [ob.res('O2', 'lambda loop admits at least %d passes (forced non-converging run)' % MIN_CAP, 'proved', [ob.qrec('paths', v)])]
    return [ob.ground_violation('O2', 'lambda loop stops after %d passes (%s); at least %d are required near antipodal pairs' % (used - 1, how, MIN_CAP),
                                PID, 'O2:cap', 'oracles.c04:inverse_env', {'env': {}})]


def g_objects(tier, seed):
    """angle-object arguments reduce to decimal degrees (same terms)"""
    gc, gd, ga = _mods()

    def run():
        a, invf, ell = sym_ell(gc)
        v = [fresh_real(k, lo, hi) for k, lo, hi in (('lat1', -90, 90), ('lon1', -180, 180), ('lat2', -90, 90), ('lon2', -180, 180))]
        o1 = gd.vincinv(*v, ell)
        o2 = gd.vincinv(*[ga.DECAngle(x) for x in v], ell)
        return o1, o2
    paths, st = explore(run, loop_bound=1, max_decisions=30, max_paths=40)
    out = []
    for p in paths:
        if p.kind != 'return':
            continue
        o1, o2 = p.value
        for i in range(3):
            out.append(ob.decide_close('O2', 'DECAngle arguments give the same result as floats (output %d)' % i, p, o1[i], o2[i], 0, pid=PID,
                                       key='O2:objects'))
    return out or [ob.res('O2', 'objects', 'inconclusive', [], 'no path')]


def g_sequence(tier, seed, temporaries=False):
    from checks.c04 import seq_group
    return seq_group(PID, 'O2', 'vincinv' + (' (temporary ellipsoid objects)' if temporaries else ''), lambda gd, v, e: gd.vincinv(v[0], v[1], v[2], v[3], e),
                     (('lat1', -90, 90), ('lon1', -180, 180), ('lat2', -90, 90), ('lon2', -180, 180)), 'oracles.c04:inverse_sequence',
                     '1/1000000000000', tier, temporaries)


def groups(tier):
    return [('inverse', g_inverse), ('shift', g_shift), ('cap', g_cap), ('objects', g_objects), ('sequence', g_sequence),
            ('sequence_temporaries', lambda tier, seed: g_sequence(tier, seed, True))]
